#!/venv/bin/python
"""Maintain /verif/known_findings.json (committed; never written at check run time).

  tools/kf.py known  <PROP> '<signature>' '<what>'
  tools/kf.py fixed  <PROP> '<signature>' <commit> '<what>'
"""
import json, os, sys
P = os.path.join(os.path.dirname(os.path.dirname(os.path.abspath(__file__))), "known_findings.json")
d = json.load(open(P))
kind, prop, sig = sys.argv[1:4]
d["findings"] = [e for e in d["findings"] if not (e["property"] == prop and e["signature"] == sig)]
if kind == "known":
    d["findings"].append({"property": prop, "signature": sig, "status": "known", "what": sys.argv[4]})
elif kind == "fixed":
    d["findings"].append({"property": prop, "signature": sig, "status": "fixed", "commit": sys.argv[4], "what": sys.argv[5],
                          "line": "fixed: property=%s %s %s" % (prop, sys.argv[4], sys.argv[5])})
d["findings"].sort(key=lambda e: (e["property"], e["status"], e["signature"]))
json.dump(d, open(P, "w"), indent=1)
open(P, "a").write("\n")
