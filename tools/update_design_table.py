#!/usr/bin/env python3
"""Replace the seeded-change table in DESIGN.md (section 10) with the current output of tools/seed_table.py."""
import subprocess, sys
p = "/verif/DESIGN.md"
s = open(p).read()
head = "| seed | valid (tests green, demo fails only with it) | detected by | what it needs (from the seeder's notes) |"
i = s.index(head)
# the table ends at the first blank line after its header (anything after it - the benign-wave section - is kept)
j = s.index("\n\n", i) + 1
tbl = subprocess.run([sys.executable, "/verif/tools/seed_table.py"], capture_output=True, text=True, check=True).stdout
k = tbl.index("| seed |") if "| seed |" in tbl else 0
tbl = tbl[k:].rstrip("\n")
if not tbl.startswith("| seed |"):
    tbl = head + "\n|---|---|---|---|\n" + tbl
s = s[:i] + tbl + "\n" + s[j:]
open(p, "w").write(s)
print("rows:", tbl.count("\n") - 1)
