#!/venv/bin/python
"""Regenerates /verif/MANIFEST.json from the table below (single source of truth)."""
import json, os

HERE = os.path.dirname(os.path.dirname(os.path.abspath(__file__)))
IDS = ["C%02d" % i for i in range(1, 21)]

CHECKS = {
    "C19": dict(
        level="exploration",
        technique="bounded-exhaustive enumeration of all part names over a segment alphabet and all ordered pairs, executed on the real PackURI, against an RFC 3986 reference model",
        text="Every part name over a 6-directory x 11-leaf segment alphabet to depth 3 (quick) / 4 (thorough), every ordered pair (P,Q) for the relative_ref/from_rel_ref round trip, every dotted reference against every base; exhaustive within that bound, so a wrong special case (root base, sibling-prefix directories, climbing past the root) cannot hide between sampled pairs.",
        note="Trusted: the hand-written RFC 3986 remove_dot_segments / OPC attribute reference model in mc/props/c19.py. Segments outside the alphabet are not explored.",
        design="4/C19"),
}

CHECKS.update({
    "C02": dict(
        level="model_checking",
        technique="explicit-state BFS over public-API operation histories executed on the real Presentation (replay mode, canonical-state dedup); every state saved and judged by an independent OPC reader and by semantic comparison with the re-opened file",
        text="All histories over a 38-operation alphabet to depth 2 (thorough 3) from 4 initial decks (default, slide parts out of presentation order, non-contiguous slide names, corpus deck) plus a cache-sensitive 11-operation sub-alphabet to depth 3 (thorough 5); in every state the saved zip satisfies the statement's closure rules, content types equal created/loaded types, and the re-opened deck shows what memory showed. Histories (save -> rename -> save) are exactly what unit tests never form.",
        note="Trusted: mc/oracles/opc_ref.py (zipfile + bare lxml), lxml c14n, the semantic snapshot in mc/drivers/state.py (public read API). Canonical state = saved-package digest + populated lazy caches read reflectively; missing hidden state can only merge states.",
        design="4/C02"),
    "C11": dict(
        level="exploration",
        technique="bounded-exhaustive enumeration of every attribute declaration and simple-type class x boundary/neighbour/wrong-type values, executed on the real setters/getters, lexical validity decided by libxml2 against the ISO schemas' simple types",
        text="159 attribute declarations, 52 simple-type classes and 16 XML enumerations found by reflection, each x every schema bound and enforced bound +-R, rounding-threshold neighbours, int/float/bool/str/None/bytes/list values and every lexical alternative of the schema type for reading; exhaustive over that value alphabet (evaluations asserted equal to the closed-form size).",
        note="Trusted: libxml2 XSD validation of generated probe elements per simple type; mapping (tag, attribute) -> schema type from mc/oracles/xsd.Index (weak rule on overloaded tags: valid for at least one candidate type). Non-finite floats and whitespace-padded forms excluded.",
        design="4/C11"),
    "C20": dict(
        level="exploration",
        technique="exhaustive enumeration of every member of every XML-mapped enumeration, every preset auto-shape row and every writable chart type, compared with the schema enumerations and presetShapeDefinitions.xml shipped in the repository",
        text="575 enumeration members (run time and module AST), 182 auto-shape rows against the standard's preset definitions (with the stated erratum tolerance), 182 add_shape read-backs (live and after re-open), 29 writable chart types x 9 data sizes read back; the space is finite and enumerated completely.",
        note="Trusted: spec/ XSDs and presetShapeDefinitions.xml as shipped; the enum -> ST_* table in mc/props/c20.py is cross-checked against the attribute declarations that use each enum.",
        design="4/C20"),
})

NOT_BUILT = "check not completed yet (machinery under construction; see DESIGN.md section 8)"

def main():
    checks, na = [], []
    for pid in IDS:
        c = CHECKS.get(pid)
        if not c:
            na.append({"property_id": pid, "reason": NOT_BUILT})
            continue
        checks.append({
            "property_id": pid,
            "quick_cmd": "./check %s --tier quick" % pid,
            "thorough_cmd": "./check %s --tier thorough" % pid,
            "evidence_file": "/verif/evidence/%s.json" % pid,
            "replay_cmd_template": "./check %s --replay {path}" % pid,
            "engine": c.get("engine", "mc-python"),
            "level_claimed": {"category": c["level"], "text": c["text"], "design_ref": "DESIGN.md section " + c["design"]},
            "level_note": c["note"],
            "technique": c["technique"],
        })
    m = {
        "version": 1,
        "setup_cmd": "./setup.sh",
        "hooks": {
            "guard": "PYTHON_PPTX_VERIF",
            "enable": "no source hooks exist: checks import /repo/src directly (PYTHONPATH=/repo/src) and use reflection only",
            "baseline_off_cmd": "cd /repo && /venv/bin/python -m pytest -ra -q -p no:cacheprovider --timeout=900 --continue-on-collection-errors",
            "source_commits": [],
            "add_only": True,
        },
        "engines": [
            {"name": "mc-python", "path": "/verif/mc", "serves_properties": sorted(CHECKS),
             "kind_free_text": "hand-written explicit-state / bounded-exhaustive explorer over the real python-pptx objects (replay and snapshot modes), reference models and independent oracles (libxml2 XSD validation, bare-zip OPC reader) in Python"},
        ],
        "checks": checks,
        "not_applicable": na,
        "notes": "All checks: ./check <ID> --tier quick|thorough; VERIF_SEED only rotates enumeration order. Known findings in /verif/known_findings.json.",
    }
    with open(os.path.join(HERE, "MANIFEST.json"), "w") as f:
        json.dump(m, f, indent=1)
        f.write("\n")

if __name__ == "__main__":
    main()
