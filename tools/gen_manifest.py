#!/venv/bin/python
"""Regenerates /verif/MANIFEST.json from the table below (single source of truth)."""
import json, os

HERE = os.path.dirname(os.path.dirname(os.path.abspath(__file__)))
IDS = ["C%02d" % i for i in range(1, 21)]

CHECKS = {
    "C19": dict(
        level="exploration",
        technique="bounded-exhaustive enumeration of all part names over a segment alphabet and all ordered pairs, executed on the real PackURI, against an RFC 3986 reference model",
        text="Every part name over a 6-directory x 12-leaf segment alphabet (incl. a full-width digit) to depth 3 (quick) / 4 (thorough), every ordered pair (P,Q) for the relative_ref/from_rel_ref round trip, every dotted reference against every base; exhaustive within that bound, so a wrong special case (root base, sibling-prefix directories, climbing past the root) cannot hide between sampled pairs.",
        note="Trusted: the hand-written RFC 3986 remove_dot_segments / OPC attribute reference model in mc/props/c19.py. Segments outside the alphabet are not explored.",
        design="4/C19"),
}

CHECKS.update({
    "C02": dict(
        level="model_checking",
        technique="explicit-state BFS over public-API operation histories executed on the real Presentation (replay mode, canonical-state dedup); every state saved and judged by an independent OPC reader and by semantic comparison with the re-opened file",
        text="All histories over a 47-operation alphabet (every shape kind, pictures, movies incl. an upper-case media name, charts, replace_data, OLE, notes, hyperlinks set/changed/cleared incl. shared relationships, slide jumps incl. two shapes sharing one jump, layout removal incl. through another master's collection, core properties, rejected calls, save, save+re-open) to depth 2 on five generated decks (default, rich, slide names out of order / non-contiguous / 1-5-3) and depth 1 on four corpus decks (handout master, two slide masters, no core properties) (thorough: depth 3 / 2), a cache-sensitive 20-operation sub-alphabet to depth 3 (thorough 4) and a re-used-stream family (one file-like object for every save of a history that grows and shrinks, depth 4 | 5); in every state the saved zip satisfies the statement's closure rules, content types equal created/loaded types, and the re-opened deck shows what memory showed.",
        note="Trusted: mc/oracles/opc_ref.py (zipfile + bare lxml), lxml c14n, the semantic snapshot in mc/drivers/state.py (public read API). Canonical state = saved-package digest + populated lazy caches read reflectively; missing hidden state can only merge states.",
        design="4/C02"),
    "C11": dict(
        level="exploration",
        technique="bounded-exhaustive enumeration of every attribute declaration and simple-type class x boundary/neighbour/wrong-type values, executed on the real setters/getters, lexical validity decided by libxml2 against the ISO schemas' simple types",
        text="159 attribute declarations, 52 simple-type classes and 16 XML enumerations found by reflection, each x every schema bound and enforced bound +-R, rounding-threshold neighbours, int/float/bool/str (incl. non-ASCII decimal digits)/None/bytes/list/int-subclass values and every lexical alternative of the schema type for reading (lexical forms the schema makes equivalent must read equal); value alphabets walked in both orders in separate forked children (verdict maps compared), every evaluation under a CPU watchdog (a non-terminating validation is reported, not waited for); a rejected value must leave the attribute unchanged and a value inside the class's own range must not be rejected; exhaustive over that value alphabet (evaluations asserted equal to the closed-form size).",
        note="Trusted: libxml2 XSD validation of generated probe elements per simple type; mapping (tag, attribute) -> schema type from mc/oracles/xsd.Index (weak rule on overloaded tags: valid for at least one candidate type). Non-finite floats and whitespace-padded forms excluded.",
        design="4/C11"),
    "C20": dict(
        level="exploration",
        technique="exhaustive enumeration of every member of every XML-mapped enumeration, every preset auto-shape row and every writable chart type, compared with the schema enumerations and presetShapeDefinitions.xml shipped in the repository",
        text="575 enumeration members (run time and module AST: aliases that would fold a token away are seen), 182 auto-shape rows against the standard's preset definitions (with the stated erratum tolerance), 182 add_shape read-backs (live and after re-open), adjustment histories for every adjustable preset (first shape set / loaded with explicit guides, fresh shapes afterwards read the defaults), 29 writable chart types x 9 data sizes read back (fresh, after re-open, and again after ONE data point and the marker outline were formatted), all writable types together on one slide, and every chart of the PowerPoint-authored chart-type deck read against the types the repository's acceptance specification documents; the space is finite and enumerated completely. Wave 7/8 additions: every writable chart type also given by its plain integer value (accepted -> must read back as the member; refused is fine); loaded shapes whose a:avLst lists the guides in reverse order or only the adjusted guide are read by guide name (types with >= 2 adjustments, every index).",
        note="Trusted: spec/ XSDs and presetShapeDefinitions.xml as shipped; the enum -> ST_* table in mc/props/c20.py is cross-checked against the attribute declarations that use each enum.",
        design="4/C20"),
})

CHECKS.update({
    "C05": dict(
        level="exploration",
        technique="bounded-exhaustive enumeration of a sink catalogue x metacharacter string set executed through the public API, differential tag-skeleton oracle + reader round trip + save/re-open",
        text="142 (thorough ~365) string-accepting entry points (names, file names, hyperlink addresses, chart series / category / number-format fields per chart family for add_chart and replace_data, font names, prog-ids, mime type, core properties, renamed placeholders, plus TWIN sinks: two near-identical strings - case-swapped or with a trailing blank - stored side by side in one part; and the same address assigned twice) x 150 strings (all strings of length <= 2 over the XML metacharacters plus curated entity / CDATA / format-directive / enum-token-like / 255-character / escape-look-alike / normalisation-sensitive (decomposed, compatibility, no-break and ideographic space, non-BMP) strings): each call must not raise, the saved parts must re-parse with the same element skeleton as for a benign string, and the public reader must return the string before and after save/re-open. Exhaustive over catalogue x string set.",
        note="Trusted: bare lxml parsing of saved members; the sink catalogue in mc/props/c05.py (hover hyperlinks and OLE icon names are not reachable as XML sinks through the public API). Strings outside the XML Char production are out of the claim.",
        design="4/C05"),
    "C06": dict(
        level="model_checking",
        technique="explicit-state BFS over addition histories on the real Presentation (replay mode) from decks with seeded id populations; before/after observation of every transition checked against the uniqueness/stability statement",
        text="All histories over a 26-operation alphabet (every shape kind at top level, in a group, in a nested group, freeform and group allocators, turbo on/off, slides, notes, hyperlinks incl. shared relationships, save, save+re-open) to depth 2 (thorough 3), plus an id-allocating sub-alphabet to depth 3 (thorough 4), from 14 decks whose shape-id and slide-id populations have gaps, 2^31 / 2^32-2 ids, GUID extension ids, duplicates, leading zeros and the slide-id upper bound. Initial decks now include 'ten_each' (10 charts, 10 embedded workbooks, 10 notes slides: the next number of every part kind is the first after 10; slide 1 has a gap in its relationship ids).",
        note="Trusted: bare lxml reads of part blobs; the package's in-memory relationship mapping. Shape ids = numeric p:cNvPr/@id of shape-tree members. Known finding: turbo mode (documented experimental cache) collides with allocations that bypass the cache.",
        design="4/C06"),
    "C10": dict(
        level="exploration",
        technique="exhaustive enumeration of (registered element class, XSD complex type, mutator, sibling context) executed on the real element classes; child order decided by libxml2 against a mechanically relaxed copy of the ISO schemas",
        text="196 registered tags / 156 classes / 1088 mutators found by reflection x sibling contexts generated from each type's particle tree (empty, each single kind, skeletons with every choice member, all earlier / all later, every ordered pair; thorough adds triples and 4-tuples): 205k (thorough 2.3M) judged insertions; get-or-add, remove and change-to promises checked on the same contexts; 120 hand-written property setters driven with value tables and one-step histories (a setter must displace another member of the same exclusive choice).",
        note="Trusted: libxml2 on the relaxed schema (minOccurs=0, attributes optional: order and choice exclusivity only); mc/oracles/xsd.Index particle trees (cross-checked: every generated skeleton is accepted by libxml2). Only direct-child order of the modified parent is judged; deeper subtrees belong to C03.",
        design="4/C10"),
    "C18": dict(
        level="exploration",
        technique="bounded-exhaustive enumeration of assignments, assignment pairs, all years 1..9999 and every W3CDTF granularity x offset, executed on the real core-properties part; independent W3CDTF parser and libxml2 validation against opc-coreProperties.xsd",
        text="15 properties x string classes and boundary lengths, 19 datetimes (naive and aware), revision values, all ordered pairs over a reduced value set, every year 1..9999 for the three date properties, 6 W3CDTF granularities x 115 time-zone designators read from injected XML, packages with, without and with a frugally declared core-properties part, every corpus deck, two save/re-open cycles each, and two packages handled in one process (4 bases x 4 bases x overlap/sequential: a fresh default part reads what one reads in a pristine process, no cross-package interference); 37k evaluations, generator sizes asserted against closed forms.",
        note="Trusted: the three stub Dublin-Core/xml schemas in /verif/schemas (the real ones are imported by HTTP URL and cannot be fetched), libxml2, mc/oracles/w3cdtf_ref.py.",
        design="4/C18"),
})

CHECKS.update({
    "C03": dict(
        level="model_checking",
        technique="exhaustive enumeration of operation histories (creator > formatting op > formatting op ...) from a catalogue, executed on the real API; every resulting XML part validated by libxml2 against the strict ISO schemas after MCE preprocessing; error-set monotonicity per part",
        text="38 creators (every shape kind, all 29 writable chart types) x up to ~150 formatting operations per kind: all singles, all ordered pairs for the main kinds (thorough: pairs for every chart type, triples over text operations), slide-level operations and documented rejections (levels, colours, merges, chart styles, gap widths, axis units, point indices) on the default template, plus every applicable catalogue operation on shapes of all 68 corpus decks; each history leaves every p:/a:/c: part with no schema error it did not have initially.",
        note="Trusted: libxml2 XSD validation with the schemas in /repo/spec, MCE preprocessing in mc/oracles/xsd.py, the operation catalogue mc/props/c03_ops.py. Pre-existing errors of PowerPoint-authored parts are tolerated by construction (error-set rule).",
        design="4/C03"),
    "C04": dict(
        level="exploration",
        technique="bounded-exhaustive enumeration of all strings over a 14-character alphabet (length <= 3 / <= 4) x 4 assignment levels x 6 prior body states, plus all ordered assignment pairs, executed on real text bodies against a reference model of the documented translations",
        text="Every string over {a, space, LF, VT, TAB, CR, NUL, BEL, US, <, &, astral, _, x} up to length 3 (thorough 4) plus 25 fixed longer strings (runs of 12 and 40 breaks, C1 controls, DEL, surrogate-adjacent code points, _xHHHH_ look-alikes of non-control code points), assigned at frame / cell / paragraph / run / shape level onto six prior bodies (fields, leading breaks, properties), all ordered pairs of assignments over the 24 level pairs, and strings of unusual TYPE (plain str subclass, subclass with its own __str__, str-enum member) at every level, and table cells stored without a text body; getter at every level, a:p / a:br counts, a:pPr preservation, part-level re-parse and two real save/re-open cycles. Sizes asserted against closed forms. Plus two text hosts of one kind in one session (auto shapes, text boxes, cells, titles / picture placeholders on two slides, p:sp and a:tc stored without a text body) x 2 entry points x histories A,B and A,B,A, live and after re-open.",
        note="Trusted: mc/oracles/text_ref.py (written from the statement), bare lxml reads of the body. Escape look-alike literals (_x000A_) are only judged for stability (statement silent).",
        design="4/C04"),
    "C12": dict(
        level="model_checking",
        technique="explicit-state BFS over histories of reflective read traversals (4 entry points x 2 accessor orders) and saves on every corpus deck, executed on the real object model; canonical saved package compared with the package saved straight after opening",
        text="On all 68 corpus decks and 6 generated decks (rich, irregular slide names, orphan jump target, notes without master relationship, a deck left by a sequence of public edits: text typed into a spanned cell, moved group member, customised point label / marker, properties set and reset): every public read property and collection protocol (iterator or sequence protocol: table rows, columns and cells included) of every reachable proxy object is called, in forward and reverse order, from four entry points, interleaved with saves, to depth 1 on all decks and depth 2 on 11 feature-rich decks (thorough: 2 and 3); a differing state (saved package up to empty formatting containers, plus populated caches) is attributed to the accessor that changed its element. Isolation pass: one object (thorough two) of every distinct structural context found in any deck x every read accessor and every look-up method (len, [], in, index, get, get_by_name with own, foreign and absent keys), each alone on a fresh deck, XML and relationships compared (7.7k transitions in the quick tier).",
        note="Trusted: mc/oracles/opc_ref.py, lxml c14n; tolerance = empty attribute-less *Pr / a:ln / a:lstStyle / c:marker; accessors exempt only when their docstring documents creation (table EXEMPT in mc/props/c12.py). Known findings: 13 undocumented creating getters.",
        design="4/C12"),
    "C16": dict(
        level="fault_enumeration",
        technique="exhaustive single-fault (and pairwise on small decks) injection into the zip/directory form of every corpus deck, opened with the real Presentation(); reachable remainder computed by an independent OPC reader",
        text="Every relationship retargeted or its target deleted, every .rels item deleted, every Default/Override case-flipped or retyped, extra members, all slide-name permutations, removed core properties, directory form, truncation at every member boundary and mid-member (path and stream), non-zip bytes, wrong main type (word-processing, spreadsheet, slide, template, show), missing mandatory members: 17k single faults on 69 decks plus 29k fault pairs on the smallest decks (thorough: 173k). Opening must preserve exactly what is still reachable, or refuse with the exception class the statement names.",
        note="Trusted: mc/oracles/opc_ref.py, the fault model mc/props/c16_faults.py (harness-side zip rewriting). Corrupt-member (bit-flip) faults are outside the statement's list and not injected.",
        design="4/C16"),
})

CHECKS.update({
    "C01": dict(
        level="exploration",
        technique="deviation-bounded exhaustive enumeration of abstract OPC packages (every rooted relationship digraph x style vectors with <= 1 / <= 2 deviations from the default style), written by the harness's own zip writer, round-tripped through the real OpcPackage.open/save and compared by an independent OPC reader",
        text="All rooted digraphs over k <= 3 parts (cycles, self-loops, shared targets; thorough: k = 4 by isomorphism class) x style vectors (target form, Default/Override/case variants, several parts sharing an extension, id schemes incl. non-rId ids, payload kinds incl. XML with comments/PIs for parsed parts, zip path/stream/directory, orphans, parallel edges, external relationships) over a 7-name alphabet (sibling directories with a common string prefix that share a deeper folder name, upper-case extension, bracketed, percent-escaped name holding a no-break space and a decomposed accent, extension-less) within the deviation bound, successive packages through one re-used input and output path per worker, plus all 68 corpus decks through OpcPackage and Presentation; 85k (thorough ~700k) packages, sizes asserted against closed forms; save(open(out)) must be byte-identical per member.",
        note="Trusted: mc/oracles/opc_ref.py, the generator mc/props/c01_gen.py (opc_ref must agree with the abstract model on every generated input or the run is a harness error). Zip-level variations (member order, stored vs deflated, Zip64) are not modelled.",
        design="4/C01"),
})

CHECKS.update({
    "C07": dict(
        level="model_checking",
        technique="exhaustive enumeration of chart types x data shapes and of replace_data histories over representative shapes, executed on the real chart API; strict chart-schema validation by libxml2 (error-set rule), read-API comparison with a reference model of the supplied data, c14n preservation check",
        text="All 29 writable chart types x category shapes (1..300 leaves, eight label kinds incl. 7-17 significant-digit numbers and dates either side of 1900-03-01, every uniform-depth category forest up to 4 leaves/depth 3 (thorough 6/4)), series counts 0..27 (thorough 0..50), values with holes, every tuple of per-series lengths over {0..5} against 3 categories and {0,2,4,6} against a 4-leaf forest, XY/bubble length patterns, number formats, values and labels of every legal numeric type (int / float subclasses, Decimal, Fraction), categories put into the chart-data object along six paths (assigned once, twice, over others, after add_category ...); every replace_data sequence of length <= 2 (thorough 3) over six representative shapes plus the ragged and wide-label shapes from each type, from 46 corpus charts and from charts with renumbered c:idx; chart-data objects re-used after mutation: 20k (thorough 155k) paths, each checked transition compared with the model (names, values, categories per level, unique idx/order, surviving formatting).",
        note="Trusted: libxml2 + schemas in /repo/spec, mc/props/c07_shapes.py reference model, bare lxml reads of the chart part. Known findings: negative axis ids / radar c:smooth in the writer templates, pie writes one series, zero-series plots.",
        design="4/C07"),
    "C08": dict(
        level="exploration",
        technique="bounded-exhaustive enumeration of chart data (column-boundary series counts, all 16384 column references, all XY/bubble length triples) executed on the real workbook writer; every c:f range resolved in the embedded .xlsx by an independent SpreadsheetML reader and compared cell by cell with the cached points",
        text="C07's data shapes (incl. ragged series lengths and 7-17 significant-digit numeric labels) plus series counts 25..27 (thorough 701..703) x category depth 1..4, _column_reference for all 16384 columns against an independent base-26 conversion, XY/bubble series lengths {0,1,2,5}^3, formula-like / URL-like / numeric-looking labels, datetime labels, replace_data histories incl. re-used chart-data objects (workbook located in the SAVED package), a date1904 chart, and packages holding 2-3 charts built from identical data with every short replace_data sequence over them (each chart checked against its OWN workbook): 33k (thorough 146k) evaluations; every c:f range parsed independently, c:ptCount = range size, every cached point equals its cell.",
        note="Trusted: mc/oracles/xlsx_ref.py (zipfile + bare lxml; independent A1 parser). Numbers compared with relative tolerance 1e-14 (XlsxWriter prints 16 significant digits).",
        design="4/C08"),
})

CHECKS.update({
    "C09": dict(
        level="model_checking",
        technique="exhaustive enumeration of assignment histories (all single assignments over per-property value alphabets, all ordered pairs on one object; thorough: cross-object pairs and triples) from a declarative catalogue, executed on real objects of a workbench deck and of corpus decks, against a last-assigned-value reference model incl. sibling readings and save/re-open",
        text="111 of the 139 settable properties found by reflection (26 are decided by C18/C04/C17/C06, 2 listed as uncovered) x boundary / quantum-neighbour / interior / default / zero / None / wrong-typed values and EVERY member of every enumeration: read-back within the storage quantum through the same and a freshly located proxy, documented None reading, TypeError/ValueError for out-of-domain values, sibling readings outside the independence group unchanged, the same readings after save/re-open; all ordered pairs on one object over a reduced alphabet, cross-point pairs (thorough: cross-object pairs, triples on text objects), three workbench decks (library-written, PowerPoint-form, no slide size) and corpus objects; plus adjustments[i] = v for every preset auto-shape type x index x 4 values (1292 assignments); 20k (thorough ~75k) checked transitions. Every pair history is also run as two editing sessions (assign, save, re-open, assign on the re-opened deck); ordered pairs across TWO objects of one kind in one deck (19 twin kinds: shapes, text frames, paragraphs, fonts, fills, lines, cells, rows, columns, gradient stops, series, markers, axes, data labels; both orders); quick cross group fill kind x outline colour x text colour of one shape.",
        note="Trusted: the catalogue mc/props/c09_catalog.py, written from the docstrings (weaker reading where a domain is undocumented). A rejected assignment that changes only the XML but no reading is counted, not reported (C03/C11 judge the XML). Truncation inside one quantum is by definition invisible.",
        design="4/C09 + Appendix A"),
    "C14": dict(
        level="model_checking",
        technique="explicit-state BFS (snapshot mode: deepcopy of the a:tbl subtree, dedup on c14n) over merge / split / foreign-merge / size-assignment sequences executed on real tables, against a region-grid reference model",
        text="Every ordered pair of cells as a merge (all corner orientations, incl. a==b), split of every cell, merges into a second table, row-height / column-width assignments and caller resizes of the graphic frame: depth 3 on all table shapes up to 3x3 and depth 2 up to 4x4 (thorough: depth 3 up to 4x4), nine (width, height) divisibility variants, three text configurations, every assignment of six blank/text paragraph kinds to the cells of tables of up to 4 cells (1806 starting states), placeholder-inserted tables, PowerPoint-form tables (no a:tblPr, endParaRPr-only cells), every corpus table, and depth 2 from every single-rectangle state of a 6x6 table: 52k states / 509k transitions (thorough 185k / 3.1M), each compared with the model (cell counts, disjoint rectangular regions, origin/spanned flags and spans, refusals leaving c14n unchanged, text in reading order, frame size = sums once a size was assigned).",
        note="Trusted: mc/oracles/table_ref.py; bare lxml reads of the table. The statement's random 12x12 sampling is a different technique and is replaced by the exhaustive 6x6 layer.",
        design="4/C14"),
    "C15": dict(
        level="model_checking",
        technique="exhaustive enumeration of generated images (format x size x dpi x file-name/hand-over variant x requested size) through the real add_picture, plus explicit-state BFS (replay mode) over picture / placeholder / movie-poster / OLE-icon / save+re-open histories with a multiset-of-byte-strings reference model, judged on the saved zip by an independent reader",
        text="Generated images (PNG/JPEG/GIF/BMP/TIFF, 17 sizes, 11 dpi settings read back by hand-written header parsers) x 6 hand-over variants x 4 size requests; every pixel extent 1..128 (thorough 1..256, and every integer dpi 1..2048) x 18 resolutions x 4 formats with an exact rational size oracle; ten kinds of file-like object (BytesIO, files opened rb / w+b flushed or not, temporary files, spooled, misleading .name, minimal read/seek/tell) x cursor positions x small / larger-than-the-I/O-buffer images x 4 entry points; the own images of every corpus deck that holds images added again (as opened / after re-save, stream / path); and all histories to depth 3 (thorough 4) over 13 operations from 3 initial decks incl. one with ten images: 31k (thorough 349k) evaluations; every state has exactly one media part per distinct byte string, byte-exact, with the extension/content type of the real format, native size = pixels x 914400 / dpi (72 when absent or implausible), aspect ratio within rounding. A fifth initial deck has holes in its image numbering (image1, image3, image7; BFS depth 2 quick / 3 thorough).",
        note="Trusted: mc/oracles/image_ref.py (own PNG pHYs / JFIF / BMP / TIFF readers, cross-checked against Pillow), mc/oracles/opc_ref.py. The generator's request is the truth about the format (not Pillow's detection).",
        design="4/C15"),
    "C17": dict(
        level="model_checking",
        technique="explicit-state search on the real shapes: full closure of the connector end-point state graph; depth-bounded exhaustive addition histories into nested groups; exhaustive freeform pen enumeration; each against a geometric reference model",
        text="Connector: all 256 creations x 2 scales and the complete reachable graph under 20 end-point assignments (1800 states, 36k transitions, no depth bound). Groups: 9 member kinds (incl. zero-width / zero-height / zero-area members) x 3x3 positions x 2 sizes into any group of the tree, all histories to length 2 and restricted prefixes (incl. a caller resize of the group) to length 3 (thorough 4), nesting to depth 4/5, every group's off/ext/chOff/chExt = bounding box of members after every addition. Freeform: 330k (thorough 3.3M) shapes from pens (negative/fractional/repeated vertices, second contour, 4 scales, 2 origins, builder re-used after conversion, vertices handed over as tuple / list of lists / generator / iterator / Fraction coordinates): position/size = scaled bounding box + origin within 1 EMU, all points inside the path extents.",
        note="Trusted: the geometric model in mc/props/c17.py; bare lxml reads of a:xfrm / a:path. The group alphabet is full only for the last operation of histories longer than 2 (stated in evidence).",
        design="4/C17"),
})

CHECKS.update({
    "C13": dict(
        level="model_checking",
        technique="exhaustive enumeration of every corpus layout and of generated layout / notes-master placeholder populations, plus explicit-state BFS (replay mode) over add_slide / move / text / notes / save histories, executed on the real API against an expected-placeholder model computed from the layout XML by a bare-lxml reader",
        text="All 178 layouts of the 68 corpus decks; generated layouts with every single placeholder over 17 types x orientation x idx x xfrm (absent, complete, zero offsets) x sz x 2 masters, all pairs over a reduced product (thorough adds the full idx^2 and triples), placeholder-name configurations (distinct / shared / empty / equal to the name generated for another clone); notes slides on every deck, generated notes masters (singles, and ordered pairs over 6 types x 2 | 4 idx values x xfrm); every corpus layout and notes master again after its placeholders were renamed to one name; BFS to depth 3 (thorough 4) over 15 operations from 3 decks. Each new slide mirrors type/idx/orient/sz one-for-one in order, with distinct names, layout (else master) geometry, is last, related to its layout, leaves other slides unchanged, in memory and after save/re-open. Family D: each template layout x each cloneable placeholder removed from the layout through shape.element after a warm-up {none, add_slide, iterate placeholders, read inherited dimension}, then add_slide: the slide mirrors the layout as it is now (100 cases).",
        note="Trusted: mc/props/c13_lib.py (bare-lxml placeholder reader and inheritance rule of the standard), generated decks of mc/props/c13_gen.py (harness-side zip rewriting). With duplicate idx values in one layout any layout placeholder sharing the idx is accepted as counterpart (weaker reading).",
        design="4/C13"),
})

NOT_BUILT = "check not completed yet (machinery under construction; see DESIGN.md section 8)"

def main():
    checks, na = [], []
    for pid in IDS:
        c = CHECKS.get(pid)
        if not c:
            na.append({"property_id": pid, "reason": NOT_BUILT})
            continue
        checks.append({
            "property_id": pid,
            "quick_cmd": "./check %s --tier quick" % pid,
            "thorough_cmd": "./check %s --tier thorough" % pid,
            "evidence_file": "/verif/evidence/%s.json" % pid,
            "replay_cmd_template": "./check %s --replay {path}" % pid,
            "engine": c.get("engine", "mc-python"),
            "level_claimed": {"category": c["level"], "text": c["text"], "design_ref": "DESIGN.md section " + c["design"]},
            "level_note": c["note"],
            "technique": c["technique"],
        })
    m = {
        "version": 1,
        "setup_cmd": "./setup.sh",
        "hooks": {
            "guard": "PYTHON_PPTX_VERIF",
            "enable": "no source hooks exist: checks import /repo/src directly (PYTHONPATH=/repo/src) and use reflection only",
            "baseline_off_cmd": "cd /repo && /venv/bin/python -m pytest -ra -q -p no:cacheprovider --timeout=900 --continue-on-collection-errors",
            "source_commits": [],
            "add_only": True,
        },
        "engines": [
            {"name": "mc-python", "path": "/verif/mc", "serves_properties": sorted(CHECKS),
             "kind_free_text": "hand-written explicit-state / bounded-exhaustive explorer over the real python-pptx objects (replay and snapshot modes), reference models and independent oracles (libxml2 XSD validation, bare-zip OPC reader) in Python"},
        ],
        "checks": checks,
        "not_applicable": na,
        "notes": "All checks: ./check <ID> --tier quick|thorough; VERIF_SEED only rotates enumeration order. Known findings in /verif/known_findings.json.",
    }
    with open(os.path.join(HERE, "MANIFEST.json"), "w") as f:
        json.dump(m, f, indent=1)
        f.write("\n")

if __name__ == "__main__":
    main()
