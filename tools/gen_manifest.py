#!/venv/bin/python
"""Regenerates /verif/MANIFEST.json from the table below (single source of truth)."""
import json, os

HERE = os.path.dirname(os.path.dirname(os.path.abspath(__file__)))
IDS = ["C%02d" % i for i in range(1, 21)]

CHECKS = {
    "C19": dict(
        level="exploration",
        technique="bounded-exhaustive enumeration of all part names over a segment alphabet and all ordered pairs, executed on the real PackURI, against an RFC 3986 reference model",
        text="Every part name over a 6-directory x 11-leaf segment alphabet to depth 3 (quick) / 4 (thorough), every ordered pair (P,Q) for the relative_ref/from_rel_ref round trip, every dotted reference against every base; exhaustive within that bound, so a wrong special case (root base, sibling-prefix directories, climbing past the root) cannot hide between sampled pairs.",
        note="Trusted: the hand-written RFC 3986 remove_dot_segments / OPC attribute reference model in mc/props/c19.py. Segments outside the alphabet are not explored.",
        design="4/C19"),
}

NOT_BUILT = "check not completed yet (machinery under construction; see DESIGN.md section 8)"

def main():
    checks, na = [], []
    for pid in IDS:
        c = CHECKS.get(pid)
        if not c:
            na.append({"property_id": pid, "reason": NOT_BUILT})
            continue
        checks.append({
            "property_id": pid,
            "quick_cmd": "./check %s --tier quick" % pid,
            "thorough_cmd": "./check %s --tier thorough" % pid,
            "evidence_file": "/verif/evidence/%s.json" % pid,
            "replay_cmd_template": "./check %s --replay {path}" % pid,
            "engine": c.get("engine", "mc-python"),
            "level_claimed": {"category": c["level"], "text": c["text"], "design_ref": "DESIGN.md section " + c["design"]},
            "level_note": c["note"],
            "technique": c["technique"],
        })
    m = {
        "version": 1,
        "setup_cmd": "./setup.sh",
        "hooks": {
            "guard": "PYTHON_PPTX_VERIF",
            "enable": "no source hooks exist: checks import /repo/src directly (PYTHONPATH=/repo/src) and use reflection only",
            "baseline_off_cmd": "cd /repo && /venv/bin/python -m pytest -ra -q -p no:cacheprovider --timeout=900 --continue-on-collection-errors",
            "source_commits": [],
            "add_only": True,
        },
        "engines": [
            {"name": "mc-python", "path": "/verif/mc", "serves_properties": sorted(CHECKS),
             "kind_free_text": "hand-written explicit-state / bounded-exhaustive explorer over the real python-pptx objects (replay and snapshot modes), reference models and independent oracles (libxml2 XSD validation, bare-zip OPC reader) in Python"},
        ],
        "checks": checks,
        "not_applicable": na,
        "notes": "All checks: ./check <ID> --tier quick|thorough; VERIF_SEED only rotates enumeration order. Known findings in /verif/known_findings.json.",
    }
    with open(os.path.join(HERE, "MANIFEST.json"), "w") as f:
        json.dump(m, f, indent=1)
        f.write("\n")

if __name__ == "__main__":
    main()
