#!/venv/bin/python
"""Evaluate one seeded change and record it under /verif/seeded/<ID>-<k>/.

usage: tools/seed_eval.py <source dir with patch.diff demo.py notes.md> <ID> <k> [--checks C02,C06] [--tier quick]

Steps (all in a scratch git worktree of /repo HEAD, removed afterwards; /repo itself is never modified):
  1. demo.py on the clean tree must exit 0
  2. apply patch.diff; the pinned suite must still report 566 passed
  3. demo.py with the patch must exit non-zero
  4. run the named checks (default: the property's own check) against the patched tree (VERIF_REPO) with evidence
     redirected (VERIF_OUT); collect VIOLATION signatures that are not known findings
Writes meta.json with what was run and what was observed. Exit 0 if the change is valid (1-3 hold), 1 otherwise.
"""
import json
import os
import re
import shutil
import subprocess
import sys
import tempfile

V = os.path.dirname(os.path.dirname(os.path.abspath(__file__)))
TEST = ["/venv/bin/python", "-m", "pytest", "-q", "-p", "no:cacheprovider", "--timeout=900", "--continue-on-collection-errors"]


def sh(cmd, cwd=None, env=None, timeout=3600):
    p = subprocess.run(cmd, cwd=cwd, env=env, capture_output=True, text=True, timeout=timeout)
    return p.returncode, p.stdout + p.stderr


def main():
    src, pid, k = sys.argv[1:4]
    checks = [pid]
    tier = "quick"
    if "--checks" in sys.argv:
        checks = sys.argv[sys.argv.index("--checks") + 1].split(",")
    if "--tier" in sys.argv:
        tier = sys.argv[sys.argv.index("--tier") + 1]
    wt = tempfile.mkdtemp(prefix="eval-wt-")
    out = tempfile.mkdtemp(prefix="eval-out-")
    os.rmdir(wt)
    rc, o = sh(["git", "-C", "/repo", "worktree", "add", "--detach", wt, "HEAD", "-q"])
    if rc:
        print(o)
        return 2
    head = sh(["git", "-C", "/repo", "rev-parse", "--short=8", "HEAD"])[1].strip()
    meta = {"property": pid, "seed": "%s-%s" % (pid, k), "repo_head": head, "ran": [], "valid": False}
    try:
        env = dict(os.environ, PYTHONPATH=wt + "/src")
        demo = os.path.join(src, "demo.py")
        # a demo may name the seeder's own (since removed) worktree for corpus files: point it at this worktree
        txt = open(demo).read()
        fixed = re.sub(r"/tmp/seed\d*-wt-C\d\d", wt, txt)
        if fixed != txt:
            demo = os.path.join(out, "demo.py")
            open(demo, "w").write(fixed)
        rc0, _ = sh(["/venv/bin/python", demo], cwd=wt, env=env, timeout=900)
        meta["ran"].append("demo.py on clean worktree -> exit %d" % rc0)
        rc, o = sh(["git", "-C", wt, "apply", os.path.join(src, "patch.diff")])
        if rc:
            meta["ran"].append("patch does not apply: " + o[:200])
            return finish(meta, src, pid, k, 1)
        rc, o = sh(TEST, cwd=wt, env=env)
        line = [l for l in o.splitlines() if " passed" in l or " failed" in l][-1:] or ["?"]
        meta["ran"].append("pinned suite with patch -> %s" % line[0].strip())
        tests_ok = "566 passed" in line[0] and "failed" not in line[0]
        rc1, o1 = sh(["/venv/bin/python", demo], cwd=wt, env=env, timeout=900)
        meta["ran"].append("demo.py with patch -> exit %d" % rc1)
        meta["valid"] = bool(rc0 == 0 and rc1 != 0 and tests_ok)
        meta["detected_by"] = {}
        for c in checks:
            cenv = dict(os.environ, VERIF_REPO=wt, VERIF_OUT=out, VERIF_MAX_LINES="400")
            rc, o = sh([os.path.join(V, "check"), c, "--tier", tier], cwd=V, env=cenv, timeout=7200)
            sigs = re.findall(r"^  signature: (.*)$", o, re.M)
            summ = [l for l in o.splitlines() if l.startswith("[" + c)]
            meta["ran"].append("VERIF_REPO=<patched worktree> ./check %s --tier %s -> exit %d, %d new signatures; %s" % (
                c, tier, rc, len(sigs), summ[-1] if summ else o[-300:]))
            meta["detected_by"][c] = {"tier": tier, "exit": rc, "n_signatures": len(sigs), "signatures": sigs[:6]}
        return finish(meta, src, pid, k, 0 if meta["valid"] else 1)
    finally:
        sh(["git", "-C", "/repo", "worktree", "remove", "--force", wt])
        shutil.rmtree(wt, ignore_errors=True)
        shutil.rmtree(out, ignore_errors=True)


def finish(meta, src, pid, k, rc):
    d = os.path.join(V, "seeded", "%s-%s" % (pid, k))
    os.makedirs(d, exist_ok=True)
    for f in ("patch.diff", "demo.py", "notes.md"):
        if os.path.exists(os.path.join(src, f)):
            shutil.copy(os.path.join(src, f), os.path.join(d, f))
    notes = ""
    if os.path.exists(os.path.join(src, "notes.md")):
        notes = open(os.path.join(src, "notes.md")).read()
    meta["needs_to_manifest"] = notes.strip()[:1500]
    # keep earlier evaluations of the same seed (other tiers / checks)
    mp = os.path.join(d, "meta.json")
    if os.path.exists(mp):
        old = json.load(open(mp))
        hist = old.get("history", [])
        hist.append({k2: old.get(k2) for k2 in ("repo_head", "ran", "detected_by")})
        meta["history"] = hist[-3:]
    det = any(v["n_signatures"] > 0 and v["exit"] == 1 for v in meta.get("detected_by", {}).values())
    meta["detected"] = det
    json.dump(meta, open(mp, "w"), indent=1)
    print("%s-%s valid=%s detected=%s %s" % (pid, k, meta["valid"], det,
          {c: v["n_signatures"] for c, v in meta.get("detected_by", {}).items()}))
    return rc


if __name__ == "__main__":
    sys.exit(main())
