#!/venv/bin/python
"""Evaluate one BENIGN change (behaviour differs, property still holds) and record it under /verif/benign/<ID>-<k>/.

usage: tools/benign_eval.py <source dir with patch.diff differs.py holds.py notes.md> <ID> <k> [--checks C02,C06]

Steps (in a scratch git worktree of /repo HEAD, removed afterwards; /repo itself is never modified):
  1. differs.py and holds.py on the clean tree must exit 0
  2. apply patch.diff; the pinned suite must still report 566 passed
  3. differs.py with the patch must exit non-zero, holds.py must still exit 0
  4. run the named checks (default: the property's own check) against the patched tree: every one must exit 0
Writes meta.json. A check that exits non-zero is an ALARM to be triaged by hand (false alarm of the machinery, or the
change is not benign after all).
"""
import json
import os
import re
import shutil
import subprocess
import sys
import tempfile

V = os.path.dirname(os.path.dirname(os.path.abspath(__file__)))
TEST = ["/venv/bin/python", "-m", "pytest", "-q", "-p", "no:cacheprovider", "--timeout=900", "--continue-on-collection-errors"]


def sh(cmd, cwd=None, env=None, timeout=3600):
    p = subprocess.run(cmd, cwd=cwd, env=env, capture_output=True, text=True, timeout=timeout)
    return p.returncode, p.stdout + p.stderr


def main():
    src, pid, k = sys.argv[1:4]
    checks = [pid]
    if "--checks" in sys.argv:
        checks = sys.argv[sys.argv.index("--checks") + 1].split(",")
    wt = tempfile.mkdtemp(prefix="ben-wt-")
    out = tempfile.mkdtemp(prefix="ben-out-")
    os.rmdir(wt)
    rc, o = sh(["git", "-C", "/repo", "worktree", "add", "--detach", wt, "HEAD", "-q"])
    if rc:
        print(o)
        return 2
    head = sh(["git", "-C", "/repo", "rev-parse", "--short=8", "HEAD"])[1].strip()
    meta = {"property": pid, "change": "%s-%s" % (pid, k), "repo_head": head, "ran": [], "valid": False, "alarms": {}}
    try:
        env = dict(os.environ, PYTHONPATH=wt + "/src")
        # run the scripts from a copy in which the seeder's own worktree path is replaced by this worktree
        run_dir = os.path.join(out, "src")
        os.makedirs(run_dir)
        for f in os.listdir(src):
            fp = os.path.join(src, f)
            if not os.path.isfile(fp):
                continue
            if f.endswith(".py"):
                open(os.path.join(run_dir, f), "w").write(re.sub(r"/tmp/ben-wt-C\d\d", wt, open(fp).read()))
            else:
                shutil.copy(fp, os.path.join(run_dir, f))
        orig_src, src = src, run_dir
        d0 = sh(["/venv/bin/python", os.path.join(src, "differs.py")], cwd=wt, env=env, timeout=900)[0]
        h0 = sh(["/venv/bin/python", os.path.join(src, "holds.py")], cwd=wt, env=env, timeout=900)[0]
        meta["ran"].append("clean worktree: differs.py -> %d, holds.py -> %d" % (d0, h0))
        rc, o = sh(["git", "-C", wt, "apply", os.path.join(src, "patch.diff")])
        if rc:
            meta["ran"].append("patch does not apply: " + o[:200])
            return finish(meta, orig_src, pid, k)
        rc, o = sh(TEST, cwd=wt, env=env)
        line = [l for l in o.splitlines() if " passed" in l or " failed" in l][-1:] or ["?"]
        meta["ran"].append("pinned suite with patch -> %s" % line[0].strip())
        tests_ok = "566 passed" in line[0] and "failed" not in line[0]
        d1 = sh(["/venv/bin/python", os.path.join(src, "differs.py")], cwd=wt, env=env, timeout=900)[0]
        h1 = sh(["/venv/bin/python", os.path.join(src, "holds.py")], cwd=wt, env=env, timeout=900)[0]
        meta["ran"].append("patched worktree: differs.py -> %d, holds.py -> %d" % (d1, h1))
        meta["valid"] = bool(d0 == 0 and h0 == 0 and d1 != 0 and h1 == 0 and tests_ok)
        for c in checks:
            cenv = dict(os.environ, VERIF_REPO=wt, VERIF_OUT=out, VERIF_MAX_LINES="400")
            rc, o = sh([os.path.join(V, "check"), c], cwd=V, env=cenv, timeout=7200)
            sigs = re.findall(r"^  signature: (.*)$", o, re.M)
            summ = [l for l in o.splitlines() if l.startswith("[" + c)]
            meta["ran"].append("VERIF_REPO=<patched worktree> ./check %s -> exit %d, %d new signatures; %s" % (
                c, rc, len(sigs), summ[-1] if summ else o[-400:]))
            if rc != 0:
                whats = re.findall(r"^  what: (.*)$", o, re.M)
                meta["alarms"][c] = {"exit": rc, "signatures": sigs[:8], "what": [w[:300] for w in whats[:4]],
                                     "tail": o[-600:] if rc == 2 else ""}
        return finish(meta, orig_src, pid, k)
    finally:
        sh(["git", "-C", "/repo", "worktree", "remove", "--force", wt])
        shutil.rmtree(wt, ignore_errors=True)
        shutil.rmtree(out, ignore_errors=True)


def finish(meta, src, pid, k):
    d = os.path.join(V, "benign", "%s-%s" % (pid, k))
    os.makedirs(d, exist_ok=True)
    for f in os.listdir(src):
        if os.path.isfile(os.path.join(src, f)) and not f.endswith(".pyc"):
            shutil.copy(os.path.join(src, f), os.path.join(d, f))
    if os.path.exists(os.path.join(src, "notes.md")):
        meta["notes"] = open(os.path.join(src, "notes.md")).read().strip()[:1500]
    mp = os.path.join(d, "meta.json")
    if os.path.exists(mp):
        old = json.load(open(mp))
        hist = old.get("history", [])
        hist.append({k2: old.get(k2) for k2 in ("repo_head", "ran", "alarms")})
        meta["history"] = hist[-3:]
    json.dump(meta, open(mp, "w"), indent=1)
    print("%s-%s valid=%s alarms=%s" % (pid, k, meta["valid"], {c: len(v["signatures"]) or ("exit%d" % v["exit"]) for c, v in meta["alarms"].items()}))
    return 0


if __name__ == "__main__":
    sys.exit(main())
