#!/usr/bin/env python3
"""Markdown table of the benign changes recorded under /verif/benign (for DESIGN.md section 10)."""
import glob, json, os, re
rows = []
for d in sorted(glob.glob("/verif/benign/*")):
    m = json.load(open(os.path.join(d, "meta.json")))
    checks = []
    for r in m.get("ran", []):
        mm = re.search(r"\./check (C\d\d) -> exit (\d+)", r)
        if mm:
            checks.append("%s:%s" % (mm.group(1), "silent" if mm.group(2) == "0" else "ALARM"))
    if not checks:
        for h in m.get("history", [])[::-1]:
            for r in h.get("ran", []):
                mm = re.search(r"\./check (C\d\d) -> exit (\d+)", r)
                if mm:
                    checks.append("%s:%s*" % (mm.group(1), "silent" if mm.group(2) == "0" else "alarm(F)"))
            if checks:
                break
    note = (m.get("notes") or "").replace("\n", " ").replace("|", "/")[:170]
    rows.append("| %s | %s | %s | %s |" % (os.path.basename(d), "yes" if m.get("valid") else "no", ", ".join(checks), note))
print("| change | valid (suite green, behaviour differs, property holds) | quick checks run against it | what it changes (from the author's notes) |")
print("|---|---|---|---|")
print("\n".join(rows))
