#!/venv/bin/python
"""Markdown table of the seeded changes recorded under /verif/seeded (from their meta.json)."""
import glob, json, os, re
V = os.path.dirname(os.path.dirname(os.path.abspath(__file__)))
rows = []
for mp in sorted(glob.glob(os.path.join(V, "seeded", "*", "meta.json"))):
    m = json.load(open(mp))
    notes = m.get("needs_to_manifest", "").replace("\n", " ")
    notes = re.sub(r"\s+", " ", notes)[:170]
    det = []
    for c, v in m.get("detected_by", {}).items():
        if v["n_signatures"] and v["exit"] == 1:
            det.append("%s %s (%d sig., e.g. `%s`)" % (c, v["tier"], v["n_signatures"], v["signatures"][0][:90]))
    latest = set(m.get("detected_by", {}))   # a check re-run in the latest evaluation speaks for itself
    for h in m.get("history", []):
        for c, v in (h.get("detected_by") or {}).items():
            if c in latest:
                continue
            if v["n_signatures"] and v["exit"] == 1 and not any(d.startswith(c + " " + v["tier"]) for d in det):
                det.append("%s %s (%d sig.)" % (c, v["tier"], v["n_signatures"]))
    rows.append("| %s | %s | %s | %s |" % (m["seed"], "yes" if m.get("valid") else "NO", "; ".join(det) or "**missed**", notes))
print("| seed | valid (tests green, demo fails only with it) | detected by | what it needs (from the seeder's notes) |")
print("|---|---|---|---|")
print("\n".join(rows))
