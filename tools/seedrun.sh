#!/bin/bash
# usage: tools/seedrun.sh <dir with patch.diff [demo.py]> <tier> <CHECK-ID>...
# Applies the patch in a scratch worktree of /repo HEAD (never in /repo itself while other jobs use it), confirms
# the baseline suite still reports 566 passed and that demo.py fails with / passes without the patch, then runs the
# named checks against the patched tree (VERIF_REPO) with evidence redirected (VERIF_OUT). Cleans up after itself.
set -u
D="$1"; TIER="$2"; shift 2
WT=$(mktemp -d /tmp/eval-wt-XXXXXX); OUT=$(mktemp -d /tmp/eval-out-XXXXXX)
rmdir "$WT"; git -C /repo worktree add --detach "$WT" HEAD -q || exit 2
cleanup() { git -C /repo worktree remove --force "$WT" 2>/dev/null; rm -rf "$OUT" "$WT"; }
trap cleanup EXIT
if [ -f "$D/demo.py" ]; then
  (cd "$WT" && PYTHONPATH="$WT/src" timeout 600 /venv/bin/python "$D/demo.py" >/dev/null 2>&1); echo "demo on clean tree: exit $?"
fi
git -C "$WT" apply "$D/patch.diff" || { echo "PATCH DOES NOT APPLY"; exit 2; }
if [ "${SKIP_TESTS:-0}" != "1" ]; then
  (cd "$WT" && PYTHONPATH="$WT/src" /venv/bin/python -m pytest -q -p no:cacheprovider --timeout=900 --continue-on-collection-errors 2>&1 | tail -1)
fi
if [ -f "$D/demo.py" ]; then
  (cd "$WT" && PYTHONPATH="$WT/src" timeout 600 /venv/bin/python "$D/demo.py" >/dev/null 2>&1); echo "demo with patch: exit $?"
fi
for ID in "$@"; do
  echo "== $ID ($TIER)"
  (cd /verif && VERIF_REPO="$WT" VERIF_OUT="$OUT" VERIF_MAX_LINES=6 ./check "$ID" --tier "$TIER" 2>&1 | grep -v "^KNOWN-FINDING" | cut -c1-400 | tail -16)
done
