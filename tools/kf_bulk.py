#!/venv/bin/python
"""After manual triage: register every violation the check currently reports (optionally filtered by a
substring) as a known finding. usage: tools/kf_bulk.py C11 [substring] [--note 'text appended']"""
import json, os, subprocess, sys
V = os.path.dirname(os.path.dirname(os.path.abspath(__file__)))
pid = sys.argv[1]
flt = sys.argv[2] if len(sys.argv) > 2 and not sys.argv[2].startswith("--") else ""
note = sys.argv[sys.argv.index("--note") + 1] if "--note" in sys.argv else ""
tier = sys.argv[sys.argv.index("--tier") + 1] if "--tier" in sys.argv else "quick"
env = dict(os.environ, VERIF_MAX_LINES="100000", VERIF_OUT="/tmp/kf-bulk-out")
out = subprocess.run([os.path.join(V, "check"), pid, "--tier", tier], env=env, capture_output=True, text=True).stdout
lines = out.splitlines()
P = os.path.join(V, "known_findings.json")
d = json.load(open(P))
n = 0
for i, l in enumerate(lines):
    if l.startswith("  signature: "):
        sig = l[len("  signature: "):]
        what = lines[i + 1][len("  what: "):] if i + 1 < len(lines) and lines[i + 1].startswith("  what: ") else ""
        if flt and flt not in sig:
            continue
        d["findings"] = [e for e in d["findings"] if not (e["property"] == pid and e["signature"] == sig)]
        d["findings"].append({"property": pid, "signature": sig, "status": "known", "what": (what[:300] + (" — " + note if note else ""))})
        n += 1
d["findings"].sort(key=lambda e: (e["property"], e["status"], e["signature"]))
json.dump(d, open(P, "w"), indent=1)
open(P, "a").write("\n")
print("registered", n)
import shutil; shutil.rmtree("/tmp/kf-bulk-out", ignore_errors=True)
