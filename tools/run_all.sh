#!/bin/bash
# usage: tools/run_all.sh [quick|thorough] [seed] [out-dir]   -- runs every check sequentially, prints one line per check
TIER=${1:-quick}; SEED=${2:-0}; OUT=${3:-}
cd "$(dirname "$0")/.."
for i in $(seq -w 1 20); do
  id=C$i
  s=$(date +%s)
  if [ -n "$OUT" ]; then export VERIF_OUT="$OUT"; fi
  o=$(VERIF_SEED=$SEED VERIF_MAX_LINES=1000 ./check $id --tier $TIER 2>&1); rc=$?
  e=$(date +%s)
  nv=$(echo "$o" | grep -c "^VIOLATION"); nk=$(echo "$o" | grep -c "^KNOWN-FINDING")
  echo "$id rc=$rc wall=$((e-s))s violations=$nv known=$nk :: $(echo "$o" | grep "^\[$id" | tail -1)"
  if [ $rc -ne 0 ]; then echo "$o" | grep -E "signature|HARNESS" | head -40; fi
done
