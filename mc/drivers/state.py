"""Canonical state and semantic snapshot of a live Presentation.

canon = (digest of the saved package as an independent reader sees it) + (names of populated lazy caches and
cached counters reachable from the package object). Correctness argument for merging two histories with
equal canon: python-pptx proxies are stateless views over the XML trees and relationship dicts, both of which
are fully reflected in the saved package; the only other mutable state is lazyproperty values in instance
__dict__s and the turbo-mode id cache, read out reflectively below. Where in doubt the abstraction is finer.
"""

from __future__ import annotations

import hashlib

from lxml import etree

from mc.oracles import opc_ref

_bare = etree.XMLParser(resolve_entities=False, remove_blank_text=False)


def c14n(blob: bytes) -> bytes:
    root = etree.fromstring(blob, _bare)
    return etree.tostring(root, method="c14n", with_comments=False)


def package_digest(blob: bytes) -> str:
    pkg = opc_ref.read(blob)
    h = hashlib.sha1()
    for name in sorted(pkg.members):
        data = pkg.members[name]
        h.update(name.encode() + b"\0")
        if name.endswith(".xml") or name.endswith(".rels"):
            try:
                data = c14n(data)
            except etree.XMLSyntaxError:
                pass
        h.update(hashlib.sha1(data).digest())
    return h.hexdigest()


def _is_lazy(cls, name):
    for k in cls.__mro__:
        d = k.__dict__.get(name)
        if d is not None:
            return type(d).__name__ == "lazyproperty"
    return False


def cache_flags(root_obj, max_objs=20000):
    """Sorted tuple of 'path:attr' for every populated lazyproperty (and cached counter) reachable from
    root_obj through instance __dict__s of pptx objects, dicts, lists and tuples. Does not trigger any
    descriptor (reads __dict__ only)."""
    flags = []
    seen = set()
    stack = [("", root_obj)]
    n = 0
    while stack:
        path, obj = stack.pop()
        if id(obj) in seen:
            continue
        seen.add(id(obj))
        n += 1
        if n > max_objs:
            flags.append("TRUNCATED")
            break
        if isinstance(obj, dict):
            for k, v in obj.items():
                if isinstance(k, str):
                    stack.append((path + "[" + k + "]", v))
            continue
        if isinstance(obj, (list, tuple)):
            for i, v in enumerate(obj):
                stack.append((path + "[%d]" % i, v))
            continue
        mod = type(obj).__module__ or ""
        if not mod.startswith("pptx"):
            continue
        if isinstance(obj, etree._Element):
            continue
        d = getattr(obj, "__dict__", None)
        if not d:
            continue
        cls = type(obj)
        # identify parts and relationships by their stable names rather than by traversal path
        ident = path
        pn = d.get("_partname")
        if isinstance(pn, str):
            ident = "part(" + str(pn) + ")"
        for k, v in d.items():
            if _is_lazy(cls, k):
                flags.append(ident + ":" + k)
            elif ("cached" in k or "turbo" in k) and isinstance(v, (int, str, bool, type(None))):
                flags.append(ident + ":" + k + "=" + repr(v))
            if k in ("_package",):
                continue
            stack.append((ident + "." + k, v))
    return tuple(sorted(set(flags)))


# ---- semantic snapshot (public read API only) --------------------------------------------------------

def _shape_snap(sh):
    from pptx.enum.shapes import MSO_SHAPE_TYPE
    d = {"id": sh.shape_id, "name": sh.name}
    try:
        st = sh.shape_type
    except NotImplementedError:
        st = None
    d["type"] = str(st) if st is not None else None
    for a in ("left", "top", "width", "height"):
        d[a] = getattr(sh, a)
    d["rot"] = getattr(sh, "rotation", None)
    if getattr(sh, "is_placeholder", False):
        pf = sh.placeholder_format
        d["ph"] = (str(pf.type), pf.idx)
    if getattr(sh, "has_text_frame", False):
        tf = sh.text_frame
        d["text"] = [[(r.text, r.hyperlink.address) for r in p.runs] + [p.text] for p in tf.paragraphs]
    if st == MSO_SHAPE_TYPE.PICTURE or (getattr(sh, "is_placeholder", False) and hasattr(sh, "image") and _has_image(sh)):
        try:
            im = sh.image
            d["image"] = (im.sha1, im.content_type, im.ext)
        except Exception as e:  # noqa: BLE001
            d["image"] = "ERR:%s" % type(e).__name__
    if getattr(sh, "has_chart", False):
        ch = sh.chart
        plots = []
        for pl in ch.plots:
            cats = [c if isinstance(c, str) else str(c) for c in pl.categories]
            sers = [(s.name, tuple(s.values)) for s in pl.series]
            plots.append((type(pl).__name__, cats, sers))
        d["chart"] = (str(ch.chart_type), plots)
        try:
            wb = ch.part.chart_workbook.xlsx_part
            d["chart_xlsx_sha1"] = hashlib.sha1(wb.blob).hexdigest() if wb is not None else None
        except Exception as e:  # noqa: BLE001
            d["chart_xlsx_sha1"] = "ERR:%s" % type(e).__name__
    if getattr(sh, "has_table", False):
        t = sh.table
        d["table"] = [[c.text for c in r.cells] for r in t.rows]
        d["table_spans"] = [[(c.is_merge_origin, c.is_spanned) for c in r.cells] for r in t.rows]
    if st == MSO_SHAPE_TYPE.GROUP:
        d["members"] = [_shape_snap(m) for m in sh.shapes]
    if st == MSO_SHAPE_TYPE.EMBEDDED_OLE_OBJECT:
        of = sh.ole_format
        d["ole"] = (of.prog_id, hashlib.sha1(of.blob).hexdigest())
    if st == MSO_SHAPE_TYPE.MEDIA:
        try:
            d["media"] = (sh.media_type, hashlib.sha1(sh.media_format.blob).hexdigest() if hasattr(sh, "media_format") else None)
        except Exception:  # noqa: BLE001
            d["media"] = (getattr(sh, "media_type", None),)
        d["poster"] = sh.poster_frame.sha1 if sh.poster_frame is not None else None
    if st in (MSO_SHAPE_TYPE.AUTO_SHAPE, MSO_SHAPE_TYPE.TEXT_BOX, MSO_SHAPE_TYPE.PICTURE, MSO_SHAPE_TYPE.PLACEHOLDER) and hasattr(sh, "click_action"):
        ca = sh.click_action
        tgt = None
        try:
            ts = ca.target_slide
            tgt = ts.slide_id if ts is not None else None
        except Exception as e:  # noqa: BLE001
            tgt = "ERR:%s" % type(e).__name__
        d["click"] = (str(ca.action), ca.hyperlink.address, tgt)
    return d


def _has_image(sh):
    try:
        return sh._element.tag.endswith("}pic")
    except Exception:  # noqa: BLE001
        return False


def semantic_snapshot(prs):
    """What a user sees: per slide the layout name, shapes (recursively) with kind/id/name/geometry/text,
    picture hashes, chart type+categories+values, table cell texts, notes text, hyperlink and jump targets."""
    out = {"size": (prs.slide_width, prs.slide_height), "slides": []}
    for sl in prs.slides:
        s = {"slide_id": sl.slide_id, "name": sl.name, "layout": sl.slide_layout.name,
             "shapes": [_shape_snap(sh) for sh in sl.shapes]}
        if sl.has_notes_slide:
            ntf = sl.notes_slide.notes_text_frame
            s["notes"] = ntf.text if ntf is not None else None
        out["slides"].append(s)
    out["layouts"] = [l.name for l in prs.slide_layouts]
    return out


def diff(a, b, path=""):
    """First difference between two snapshots as text, or None."""
    if type(a) != type(b):
        return "%s: %r != %r" % (path, a, b)
    if isinstance(a, dict):
        for k in sorted(set(a) | set(b)):
            if k not in a or k not in b:
                return "%s.%s: only on one side (%r / %r)" % (path, k, a.get(k), b.get(k))
            d = diff(a[k], b[k], path + "." + str(k))
            if d:
                return d
        return None
    if isinstance(a, (list, tuple)):
        if len(a) != len(b):
            return "%s: length %d != %d" % (path, len(a), len(b))
        for i, (x, y) in enumerate(zip(a, b)):
            d = diff(x, y, path + "[%d]" % i)
            if d:
                return d
        return None
    if a != b:
        return "%s: %r != %r" % (path, a, b)
    return None
