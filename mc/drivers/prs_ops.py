"""Operation alphabet over a live Presentation, used by the replay-mode systems (C02, C06, C12, C03 ...).

Every operation is a JSON record {"op": name, **args}; targets are located by path from the root
(slide index, last shape of a kind), never by a held Python object. `apply(live, op)` calls the real public
API and returns an outcome label, or SKIP when the operation is not enabled in this state. A call the
documentation says is rejected returns "raised:<Type>"; an exception of an undocumented type propagates as
label "UNEXPECTED:<Type>:<msg>" (the systems report it).
"""

from __future__ import annotations

import io
import os

from mc.core.explorer import SKIP
from mc.drivers import fixtures as F

EMU = 914400


class Live:
    def __init__(self, prs, init):
        self.prs = prs
        self.init = init
        self.saves = []       # bytes of every explicit save in the history
        self.log = []         # per-op observations (new ids etc.) for systems that want them
        self.unexpected = []  # (op, exception repr)
        self.last_target = None  # shape id the last retargeting operation (hyperlink / jump) acted on


# ---- helpers ---------------------------------------------------------------------------------------

_IMG = {}


def img(name):
    """Deterministic image bytes: A, B (different PNGs), J (jpeg)."""
    if name not in _IMG:
        if name == "A":
            _IMG[name] = F.make_image("PNG", (4, 3), dpi=None, color=1)
        elif name == "B":
            _IMG[name] = F.make_image("PNG", (5, 2), dpi=96, color=2)
        elif name == "J":
            _IMG[name] = F.make_image("JPEG", (6, 4), dpi=72, color=3)
        elif name.startswith("I") and name[1:].isdigit():
            _IMG[name] = F.make_image("PNG", (3, 3), dpi=None, color=10 + int(name[1:]))
        else:
            raise KeyError(name)
    return _IMG[name]


def _slide(live, idx):
    slides = live.prs.slides
    n = len(slides)
    if n == 0:
        return None
    if idx is None or idx == -1:
        return slides[n - 1]
    if idx >= n:
        return None
    return slides[idx]


def _last(slide, pred):
    found = None
    for sh in slide.shapes:
        if pred(sh):
            found = sh
    return found


def _cat_data(n_cat=3, n_ser=2, tag="s"):
    from pptx.chart.data import CategoryChartData
    cd = CategoryChartData()
    cd.categories = ["c%d" % i for i in range(n_cat)]
    for s in range(n_ser):
        cd.add_series("%s%d" % (tag, s), [float(i + s) for i in range(n_cat)])
    return cd


def _xy_data(n_ser=2, n_pt=3):
    from pptx.chart.data import XyChartData
    cd = XyChartData()
    for s in range(n_ser):
        ser = cd.add_series("xy%d" % s)
        for i in range(n_pt):
            ser.add_data_point(i + 0.5, i * 2.0 + s)
    return cd


# ---- operations ------------------------------------------------------------------------------------

def op_save(live, op):
    live.saves.append(F.save_bytes(live.prs))
    return "saved"


def op_save_stream(live, op):
    """Save into ONE file-like object kept for the whole history (a caller re-using its BytesIO): what the stream
    then holds must be a readable zip whose members equal those of a save into a fresh stream."""
    st = getattr(live, "stream", None)
    if st is None:
        st = live.stream = io.BytesIO()
    live.prs.save(st)
    data = st.getvalue()
    live.saves.append(b"stream:%d" % len(data))      # part of the canonical state (see System.canon)
    want = F.zip_members(F.save_bytes(live.prs))
    try:
        got = F.zip_members(data)
    except Exception as e:  # noqa: BLE001
        return "UNEXPECTED:%s: the re-used stream is not a readable zip after save (%d bytes)" % (type(e).__name__, len(data))
    if got != want:
        diff = sorted(set(got) ^ set(want)) or sorted(k for k in got if got[k] != want.get(k))
        return "UNEXPECTED:StreamSaveDiffers: members of the re-used stream differ from a fresh save: %s" % diff[:4]
    if op.get("reopen"):
        # the stream's position is left where the library left it (its end): rewinding without truncating before
        # a smaller save is the caller's mistake (zipfile's "w" mode does not truncate), not the library's
        live.prs = F.open_prs(st.getvalue())
        return "reopened"
    return "saved"


def op_save_reopen(live, op):
    blob = F.save_bytes(live.prs)
    live.saves.append(blob)
    live.prs = F.open_prs(blob)
    return "reopened"


def op_touch_slides(live, op):
    return "n=%d" % len(live.prs.slides)


def op_add_slide(live, op):
    prs = live.prs
    layouts = prs.slide_layouts
    li = op.get("layout", 6)
    if li >= len(layouts):
        li = len(layouts) - 1
    if li < 0:
        return SKIP
    s = prs.slides.add_slide(layouts[li])
    return "ok"


def op_add_textbox(live, op):
    s = _slide(live, op.get("slide"))
    if s is None:
        return SKIP
    tb = s.shapes.add_textbox(EMU, EMU, 2 * EMU, EMU)
    tb.text_frame.text = op.get("text", "tb")
    return "ok"


def op_add_shape(live, op):
    from pptx.enum.shapes import MSO_SHAPE
    s = _slide(live, op.get("slide"))
    if s is None:
        return SKIP
    sh = s.shapes.add_shape(getattr(MSO_SHAPE, op.get("kind", "RECTANGLE")), EMU, 2 * EMU, EMU, EMU)
    if op.get("text"):
        sh.text_frame.text = op["text"]
    return "ok"


def op_add_picture(live, op):
    s = _slide(live, op.get("slide"))
    if s is None:
        return SKIP
    blob = img(op.get("img", "A"))
    if op.get("via", "stream") == "path":
        ext = {"A": "png", "B": "png", "J": "jpg"}.get(op.get("img", "A"), "png")
        src = F.image_file("img_%s.%s" % (op.get("img", "A"), ext), blob)
    else:
        src = io.BytesIO(blob)
    s.shapes.add_picture(src, EMU, EMU)
    return "ok"


def op_add_movie(live, op):
    s = _slide(live, op.get("slide"))
    if s is None:
        return SKIP
    poster = io.BytesIO(img(op["poster"])) if op.get("poster") else None
    movie = F.MOVIE
    if op.get("name"):
        # the media part takes its extension from the file NAME (e.g. CLIP.MP4)
        movie = F.image_file(os.path.join("movies", op["name"]), F.read_bytes(F.MOVIE))
    s.shapes.add_movie(movie, EMU, EMU, EMU, EMU, poster_frame_image=poster, mime_type="video/mp4")
    return "ok"


def op_add_chart(live, op):
    from pptx.enum.chart import XL_CHART_TYPE
    s = _slide(live, op.get("slide"))
    if s is None:
        return SKIP
    kind = op.get("kind", "bar")
    if kind == "xy":
        s.shapes.add_chart(XL_CHART_TYPE.XY_SCATTER, EMU, EMU, 4 * EMU, 3 * EMU, _xy_data())
    else:
        ct = {"bar": XL_CHART_TYPE.BAR_CLUSTERED, "pie": XL_CHART_TYPE.PIE, "line": XL_CHART_TYPE.LINE}[kind]
        s.shapes.add_chart(ct, EMU, EMU, 4 * EMU, 3 * EMU, _cat_data())
    return "ok"


def op_replace_data(live, op):
    s = _slide(live, op.get("slide"))
    if s is None:
        return SKIP
    gf = _last(s, lambda sh: getattr(sh, "has_chart", False))
    if gf is None:
        return SKIP
    chart = gf.chart
    from pptx.enum.chart import XL_CHART_TYPE
    if chart.chart_type == XL_CHART_TYPE.XY_SCATTER:
        chart.replace_data(_xy_data(op.get("n_ser", 3), 2))
    else:
        chart.replace_data(_cat_data(op.get("n_cat", 2), op.get("n_ser", 3), tag="r"))
    return "ok"


def op_add_ole(live, op):
    from pptx.enum.shapes import PROG_ID
    s = _slide(live, op.get("slide"))
    if s is None:
        return SKIP
    xlsx = os.path.join(F.FEATURE_FILES, "shp-embedded-xlsx.xlsx")
    s.shapes.add_ole_object(xlsx, PROG_ID.XLSX, EMU, EMU)
    return "ok"


def op_add_table(live, op):
    s = _slide(live, op.get("slide"))
    if s is None:
        return SKIP
    gf = s.shapes.add_table(2, 2, EMU, EMU, 4 * EMU, EMU)
    gf.table.cell(0, 0).text = "t00"
    gf.table.cell(1, 1).text = "t11"
    return "ok"


def op_add_group(live, op):
    from pptx.enum.shapes import MSO_SHAPE
    s = _slide(live, op.get("slide"))
    if s is None:
        return SKIP
    g = s.shapes.add_group_shape()
    m = op.get("member", "shape")
    if m == "shape":
        g.shapes.add_shape(MSO_SHAPE.OVAL, EMU, EMU, EMU, EMU)
    elif m == "picture":
        g.shapes.add_picture(io.BytesIO(img("A")), EMU, EMU)
    elif m == "textbox":
        g.shapes.add_textbox(EMU, EMU, EMU, EMU).text_frame.text = "g"
    return "ok"


def op_add_connector(live, op):
    from pptx.enum.shapes import MSO_CONNECTOR
    s = _slide(live, op.get("slide"))
    if s is None:
        return SKIP
    s.shapes.add_connector(MSO_CONNECTOR.STRAIGHT, EMU, EMU, 2 * EMU, 3 * EMU)
    return "ok"


def op_add_freeform(live, op):
    s = _slide(live, op.get("slide"))
    if s is None:
        return SKIP
    fb = s.shapes.build_freeform(0, 0, scale=1000.0)
    fb.add_line_segments([(100, 0), (100, 100), (0, 100)], close=True)
    fb.convert_to_shape(EMU, EMU)
    return "ok"


def op_notes_access(live, op):
    s = _slide(live, op.get("slide"))
    if s is None:
        return SKIP
    had = s.has_notes_slide
    s.notes_slide
    return "had=%s" % had


def op_notes_text(live, op):
    s = _slide(live, op.get("slide"))
    if s is None:
        return SKIP
    s.notes_slide.notes_text_frame.text = op.get("text", "note")
    return "ok"


def _shape_with_click(slide, which="last"):
    from pptx.enum.shapes import MSO_SHAPE_TYPE
    kinds = (MSO_SHAPE_TYPE.AUTO_SHAPE, MSO_SHAPE_TYPE.TEXT_BOX, MSO_SHAPE_TYPE.PICTURE)
    if which == "first":
        for sh in slide.shapes:
            if sh.shape_type in kinds:
                return sh
        return None
    return _last(slide, lambda sh: sh.shape_type in kinds)


def op_hlink_shape(live, op):
    s = _slide(live, op.get("slide"))
    if s is None:
        return SKIP
    sh = _shape_with_click(s, op.get("which", "last"))
    if sh is None:
        return SKIP
    live.last_target = sh.shape_id
    sh.click_action.hyperlink.address = op.get("url")
    return "set" if op.get("url") else "cleared"


def op_hlink_run(live, op):
    s = _slide(live, op.get("slide"))
    if s is None:
        return SKIP
    cands = [sh for sh in s.shapes if sh.has_text_frame and sh.text_frame.text != ""]
    if not cands:
        return SKIP
    sh = cands[0] if op.get("which") == "first" else cands[-1]
    runs = [r for p in sh.text_frame.paragraphs for r in p.runs]
    if not runs:
        return SKIP
    live.last_target = sh.shape_id
    runs[0].hyperlink.address = op.get("url")
    return "set" if op.get("url") else "cleared"


def op_target_slide(live, op):
    s = _slide(live, op.get("slide"))
    if s is None:
        return SKIP
    if op.get("which") == "both":
        # two shapes of the slide jump to the SAME slide (they share one relationship)
        a, b = _shape_with_click(s, "first"), _shape_with_click(s, "last")
        tgt = _slide(live, op["to"])
        if a is None or b is None or a.shape_id == b.shape_id or tgt is None:
            return SKIP
        a.click_action.target_slide = tgt
        b.click_action.target_slide = tgt
        live.last_target = b.shape_id
        return "set-both"
    sh = _shape_with_click(s, op.get("which", "last"))
    if sh is None:
        return SKIP
    live.last_target = sh.shape_id
    if op.get("to") is None:
        sh.click_action.target_slide = None
        return "cleared"
    tgt = _slide(live, op["to"])
    if tgt is None:
        return SKIP
    sh.click_action.target_slide = tgt
    return "set"


def op_remove_layout(live, op):
    prs = live.prs
    layouts = prs.slide_layouts
    used = set()
    for sl in prs.slides:
        used.add(sl.slide_layout.part.partname)
    want_used = op.get("in_use", False)
    cand = [l for l in layouts if (l.part.partname in used) == want_used]
    if not cand:
        return SKIP
    try:
        layouts.remove(cand[-1])
    except ValueError:
        if want_used:
            return "raised:ValueError"
        raise
    if want_used:
        return "UNEXPECTED:removed layout in use"
    return "removed"


def op_remove_layout_cross(live, op):
    """Remove a layout of the LAST master through the FIRST master's collection: documented ValueError, no change."""
    masters = live.prs.slide_masters
    if len(masters) < 2 or not len(masters[-1].slide_layouts):
        return SKIP
    try:
        masters[0].slide_layouts.remove(masters[-1].slide_layouts[-1])
    except ValueError:
        return "raised:ValueError"
    return "UNEXPECTED:NoError: a layout of another master was removed through this master's collection"


def op_core_props(live, op):
    cp = live.prs.core_properties
    if op.get("set"):
        cp.title = op["set"]
        cp.keywords = "k " + op["set"]
        return "set"
    return "title=%s" % cp.title


def op_bad_index(live, op):
    try:
        live.prs.slides[99]
    except IndexError:
        return "raised:IndexError"
    return "UNEXPECTED:no IndexError"


def op_bad_merge(live, op):
    """Merge (0,0)..(1,0) of the last table if not yet merged, then attempt an overlapping merge, which the
    documentation says is refused with ValueError."""
    s = _slide(live, op.get("slide"))
    if s is None:
        return SKIP
    gf = _last(s, lambda sh: getattr(sh, "has_table", False))
    if gf is None:
        return SKIP
    t = gf.table
    a = t.cell(0, 0)
    if not (a.is_merge_origin or a.is_spanned):
        a.merge(t.cell(1, 0))
    try:
        t.cell(0, 0).merge(t.cell(1, 1))
    except ValueError:
        return "raised:ValueError"
    return "UNEXPECTED:overlapping merge accepted"


def op_insert_picture_ph(live, op):
    prs = live.prs
    layouts = prs.slide_layouts
    s = _slide(live, op.get("slide"))
    if s is None:
        return SKIP
    ph = None
    for p in s.placeholders:
        if hasattr(p, "insert_picture"):
            ph = p
    if ph is None:
        return SKIP
    ph.insert_picture(io.BytesIO(img(op.get("img", "A"))))
    return "ok"


OPS = {
    "save": op_save, "save_reopen": op_save_reopen, "touch_slides": op_touch_slides,
    "add_slide": op_add_slide, "add_textbox": op_add_textbox, "add_shape": op_add_shape,
    "add_picture": op_add_picture, "add_movie": op_add_movie, "add_chart": op_add_chart,
    "replace_data": op_replace_data, "add_ole": op_add_ole, "add_table": op_add_table,
    "add_group": op_add_group, "add_connector": op_add_connector, "add_freeform": op_add_freeform,
    "notes_access": op_notes_access, "notes_text": op_notes_text, "hlink_shape": op_hlink_shape,
    "hlink_run": op_hlink_run, "target_slide": op_target_slide, "remove_layout": op_remove_layout, "remove_layout_cross": op_remove_layout_cross,
    "save_stream": op_save_stream,
    "core_props": op_core_props, "bad_index": op_bad_index, "bad_merge": op_bad_merge,
    "insert_picture_ph": op_insert_picture_ph,
}

# exceptions the documentation names for in-domain calls of the alphabet: none. Any exception escaping an
# op function is unexpected.


def apply(live, op):
    fn = OPS[op["op"]]
    try:
        label = fn(live, op)
    except Exception as e:  # noqa: BLE001
        label = "UNEXPECTED:%s:%s" % (type(e).__name__, str(e)[:120])
    if isinstance(label, str) and label.startswith("UNEXPECTED"):
        live.unexpected.append((op, label))
    return label


# ---- initial decks --------------------------------------------------------------------------------

_INIT_CACHE = {}


def initial_blob(name):
    if name in _INIT_CACHE:
        return _INIT_CACHE[name]
    if name == "default":
        b = F.read_bytes(F.DEFAULT_PPTX)
    elif name == "two_slides":
        b = F.deck_with_slides(2)
    elif name == "out_of_order":
        b = F.deck_out_of_order(3)
    elif name == "non_contiguous":
        b = F.deck_non_contiguous()
    elif name == "names_1_5_3":
        b = F.deck_names_1_5_3()
    elif name == "rich":
        b = _rich_deck()
    elif name == "ten_each":
        b = _ten_each_deck()
    elif name == "twelve_last_first":
        b = F.deck_twelve_last_first()
    elif name.startswith("corpus:"):
        b = F.read_bytes(os.path.join(F.REPO, name[len("corpus:"):]))
    else:
        raise KeyError(name)
    _INIT_CACHE[name] = b
    return b


def _rich_deck():
    """A deck far from the initial state: 2 slides, two text shapes sharing nothing yet, 10 distinct images
    (parts image1..image10), a table, two charts (embedded workbooks 1 and 2), notes on slide 1."""
    live = Live(F.open_prs(F.read_bytes(F.DEFAULT_PPTX)), "rich-builder")
    steps = [{"op": "add_slide", "layout": 6}, {"op": "add_textbox", "text": "t1"}, {"op": "add_shape", "kind": "RECTANGLE", "text": "t2"},
             {"op": "add_table"}, {"op": "add_chart", "kind": "bar"}, {"op": "notes_text", "text": "n"},
             {"op": "add_slide", "layout": 6}]
    steps += [{"op": "add_picture", "img": "I%d" % i, "via": "stream"} for i in range(10)]
    steps += [{"op": "add_chart", "kind": "xy"}, {"op": "add_textbox", "text": "last"}]
    for op in steps:
        lab = apply(live, op)
        assert lab not in (SKIP,) and not str(lab).startswith("UNEXPECTED"), (op, lab)
    return F.save_bytes(live.prs)


def _ten_each_deck():
    """Eleven slides. Slides 2..11 each hold a text box, a chart (charts / embedded workbooks 1..10) and notes (notes
    slides 1..10): every allocator that numbers parts of a kind is about to hand out its first number after 10 (string
    order != numeric order). Slide 1 has neither, and a GAP in its relationship ids (rId1, rId2, rId4): a run hyperlink
    was added before a picture and cleared afterwards."""
    live = Live(F.open_prs(F.read_bytes(F.DEFAULT_PPTX)), "ten-each-builder")
    steps = [{"op": "add_slide", "layout": 6}, {"op": "add_textbox", "text": "first"},
             {"op": "hlink_run", "which": "first", "url": "http://gap.example/"}, {"op": "add_picture", "img": "A", "via": "stream"},
             {"op": "hlink_run", "which": "first", "url": None}]
    for i in range(10):
        steps += [{"op": "add_slide", "layout": 6}, {"op": "add_textbox", "text": "t%d" % i},
                  {"op": "add_chart", "kind": "bar"}, {"op": "notes_text", "text": "n%d" % i}]
    for op in steps:
        lab = apply(live, op)
        assert lab not in (SKIP,) and not str(lab).startswith("UNEXPECTED"), (op, lab)
    return F.save_bytes(live.prs)


def build(name):
    return Live(F.open_prs(initial_blob(name)), name)
