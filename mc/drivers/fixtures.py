"""Shared fixtures: corpus index, deck builders, deterministic images, save/re-open helpers."""

from __future__ import annotations

import atexit
import glob
import io
import os
import shutil
import tempfile
import zipfile

REPO = os.environ.get("VERIF_REPO", "/repo")
FEATURE_FILES = os.path.join(REPO, "features", "steps", "test_files")
TEST_FILES = os.path.join(REPO, "tests", "test_files")
DEFAULT_PPTX = os.path.join(REPO, "src", "pptx", "templates", "default.pptx")

_TMP = None


def tmpdir():
    """Per-process scratch directory, removed at exit."""
    global _TMP
    if _TMP is None or _TMP[0] != os.getpid():
        d = tempfile.mkdtemp(prefix="verif-")
        _TMP = (os.getpid(), d)
        atexit.register(shutil.rmtree, d, True)
    return _TMP[1]


def corpus():
    """Sorted list of all .pptx/.pptm decks shipped in the repository (PowerPoint-authored corpus)."""
    out = sorted(glob.glob(os.path.join(FEATURE_FILES, "*.pptx")))
    out += sorted(glob.glob(os.path.join(FEATURE_FILES, "*.pptm")))
    out += sorted(glob.glob(os.path.join(TEST_FILES, "*.pptx")))
    out.append(DEFAULT_PPTX)
    return out


def corpus_name(path):
    return os.path.relpath(path, REPO)


def read_bytes(path):
    with open(path, "rb") as f:
        return f.read()


def open_prs(src=None):
    from pptx import Presentation
    if src is None:
        return Presentation()
    if isinstance(src, (bytes, bytearray)):
        return Presentation(io.BytesIO(bytes(src)))
    return Presentation(src)


def save_bytes(prs) -> bytes:
    buf = io.BytesIO()
    prs.save(buf)
    return buf.getvalue()


def reopen(prs):
    return open_prs(save_bytes(prs))


def zip_members(blob: bytes):
    with zipfile.ZipFile(io.BytesIO(blob)) as z:
        return {i.filename: z.read(i) for i in z.infolist()}


def write_zip(members, order=None) -> bytes:
    """Harness's own zip writer (not python-pptx): members dict name -> bytes."""
    buf = io.BytesIO()
    with zipfile.ZipFile(buf, "w", zipfile.ZIP_DEFLATED) as z:
        for name in (order or list(members)):
            zi = zipfile.ZipInfo(name, date_time=(1980, 1, 1, 0, 0, 0))
            zi.compress_type = zipfile.ZIP_DEFLATED
            z.writestr(zi, members[name])
    return buf.getvalue()


def write_dir(members, dirpath):
    for name, blob in members.items():
        p = os.path.join(dirpath, name)
        os.makedirs(os.path.dirname(p), exist_ok=True)
        with open(p, "wb") as f:
            f.write(blob)
    return dirpath


# ---- deterministic images ---------------------------------------------------------------------------

def make_image(fmt="PNG", size=(4, 3), dpi=None, color=0, mode="RGB") -> bytes:
    """Deterministic image bytes via Pillow. fmt in PNG/JPEG/GIF/BMP/TIFF. dpi None -> no dpi info."""
    from PIL import Image
    w, h = size
    im = Image.new(mode, (w, h))
    px = im.load()
    for x in range(w):
        for y in range(h):
            v = (x * 37 + y * 101 + color * 53) % 256
            px[x, y] = (v, (v * 3) % 256, (255 - v)) if mode == "RGB" else v
    if fmt == "GIF":
        im = im.convert("P")
    buf = io.BytesIO()
    kw = {}
    if dpi is not None:
        kw["dpi"] = dpi if isinstance(dpi, tuple) else (dpi, dpi)
    im.save(buf, fmt, **kw)
    return buf.getvalue()


def image_file(name, blob):
    p = os.path.join(tmpdir(), name)
    os.makedirs(os.path.dirname(p), exist_ok=True)
    with open(p, "wb") as f:
        f.write(blob)
    return p


MOVIE = os.path.join(TEST_FILES, "dummy.mp4")


# ---- irregular decks --------------------------------------------------------------------------------

def deck_with_slides(n=2, layout=6) -> bytes:
    prs = open_prs()
    for i in range(n):
        s = prs.slides.add_slide(prs.slide_layouts[layout])
        tb = s.shapes.add_textbox(100 * (i + 1), 200, 3000, 400)
        tb.text_frame.text = "slide-%d" % (i + 1)
    return save_bytes(prs)


def rename_members(blob: bytes, mapping: dict) -> bytes:
    """Rename parts inside a saved deck consistently: mapping '/ppt/slides/slide1.xml' -> '/ppt/slides/slide7.xml'.
    Rewrites member names, their .rels item names, [Content_Types] overrides and every relationship target
    that resolves to a renamed part. Harness-side (bare zip + lxml)."""
    from lxml import etree
    from mc.oracles import opc_ref
    pkg = opc_ref.read(blob)
    members = dict(pkg.members)
    out = {}
    # step 1: move parts and their rels items (two-phase to allow swaps)
    moved = {}
    for old, new in mapping.items():
        moved[old[1:]] = new[1:]
        r_old, r_new = opc_ref.rels_member_for(old), opc_ref.rels_member_for(new)
        if r_old in members:
            moved[r_old] = r_new
    for name, data in members.items():
        out[moved.get(name, name)] = data
    # step 2: content types
    ct = etree.fromstring(out["[Content_Types].xml"])
    for el in ct:
        pn = el.get("PartName")
        if pn in mapping:
            el.set("PartName", mapping[pn])
    out["[Content_Types].xml"] = etree.tostring(ct, xml_declaration=True, encoding="UTF-8", standalone=True)
    # step 3: relationship targets (resolve relative to the ORIGINAL source name, write relative to the new one)
    for name in list(out):
        if not (name.endswith(".rels") and "_rels/" in name):
            continue
        # owner partname under new naming
        if name == "_rels/.rels":
            owner_new = "/"
        else:
            d, fn = name.rsplit("_rels/", 1)
            owner_new = "/" + d + fn[:-5]
        inv = {v: k for k, v in mapping.items()}
        owner_old = inv.get(owner_new, owner_new)
        root = etree.fromstring(out[name])
        changed = False
        for el in root:
            if el.get("TargetMode") == "External":
                continue
            tgt_old = opc_ref.resolve(owner_old, el.get("Target"))
            tgt_new = mapping.get(tgt_old, tgt_old)
            if tgt_new != tgt_old or owner_new != owner_old:
                el.set("Target", tgt_new)  # root-absolute target is legal OPC
                changed = True
        if changed:
            out[name] = etree.tostring(root, xml_declaration=True, encoding="UTF-8", standalone=True)
    return write_zip(out)


def deck_out_of_order(n=3) -> bytes:
    """Deck whose slide part names are out of presentation order: the sldIdLst is reversed."""
    from lxml import etree
    blob = deck_with_slides(n)
    m = zip_members(blob)
    root = etree.fromstring(m["ppt/presentation.xml"])
    ns = {"p": "http://schemas.openxmlformats.org/presentationml/2006/main"}
    lst = root.find("p:sldIdLst", ns)
    kids = list(lst)
    for k in kids:
        lst.remove(k)
    for k in reversed(kids):
        lst.append(k)
    m["ppt/presentation.xml"] = etree.tostring(root, xml_declaration=True, encoding="UTF-8", standalone=True)
    return write_zip(m)


def deck_twelve_last_first() -> bytes:
    """Twelve slides; the LAST one (part slide12.xml) was dragged to the front: position 1 holds a part whose name
    starts like slide1 (two-digit names, string prefix != number)."""
    from lxml import etree
    m = zip_members(deck_with_slides(12))
    root = etree.fromstring(m["ppt/presentation.xml"])
    ns = {"p": "http://schemas.openxmlformats.org/presentationml/2006/main"}
    lst = root.find("p:sldIdLst", ns)
    kids = list(lst)
    lst.remove(kids[-1])
    lst.insert(0, kids[-1])
    m["ppt/presentation.xml"] = etree.tostring(root, xml_declaration=True, encoding="UTF-8", standalone=True)
    return write_zip(m)


def deck_non_contiguous() -> bytes:
    """Deck with slide parts named slide3.xml and slide7.xml (in that presentation order)."""
    blob = deck_with_slides(2)
    return rename_members(blob, {"/ppt/slides/slide1.xml": "/ppt/slides/slide3.xml",
                                 "/ppt/slides/slide2.xml": "/ppt/slides/slide7.xml"})


def deck_names_1_5_3() -> bytes:
    """Three slides whose part names are slide1, slide5, slide3 in presentation order: non-contiguous, out of
    order, and the last one happens to be called slide<n>."""
    blob = deck_with_slides(3)
    return rename_members(blob, {"/ppt/slides/slide2.xml": "/ppt/slides/slide5.xml"})
