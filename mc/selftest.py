"""./check --selftest : the oracles must reject hand-made negative examples (an oracle that accepts everything
would make every check vacuous) and accept the positive ones. Exit 0 / 2."""

from __future__ import annotations

import sys

from lxml import etree


def _t(name, cond):
    print("%-70s %s" % (name, "ok" if cond else "FAILED"))
    return bool(cond)


def main():
    from mc.core import clock
    clock.install()
    from mc.drivers import fixtures as F
    from mc.oracles import opc_ref, xsd
    ok = True
    A, P, C = xsd.NS_A, xsd.NS_P, xsd.NS_C
    R, S = xsd.SchemaSet.get(True), xsd.SchemaSet.get(False)
    p = etree.fromstring('<a:p xmlns:a="%s"><a:br/><a:pPr/><a:r/></a:p>' % A)
    ok &= _t("relaxed schema rejects a:br before a:pPr", R.fragment_errors(p, (A, "CT_TextParagraph")))
    p = etree.fromstring('<a:p xmlns:a="%s"><a:pPr/><a:br/><a:r/><a:fld/><a:endParaRPr/></a:p>' % A)
    ok &= _t("relaxed schema accepts mixed runs", not R.fragment_errors(p, (A, "CT_TextParagraph")))
    ok &= _t("strict schema demands a:fld/@id", S.fragment_errors(p, (A, "CT_TextParagraph")))
    sp = etree.fromstring('<a:spPr xmlns:a="%s"><a:solidFill/><a:noFill/></a:spPr>' % A)
    ok &= _t("relaxed schema rejects two members of a choice", R.fragment_errors(sp, (A, "CT_ShapeProperties")))
    ok &= _t("simple type probe: angle upper bound exclusive", not S.value_ok((A, "ST_PositiveFixedAngle"), "21600000") and S.value_ok((A, "ST_PositiveFixedAngle"), "21599999"))
    ok &= _t("simple type probe: percentage union", S.value_ok((A, "ST_Percentage"), "12.5%") and not S.value_ok((A, "ST_Percentage"), "12.5"))
    prs = F.open_prs()
    prs.slides.add_slide(prs.slide_layouts[0])
    blob = F.save_bytes(prs)
    pkg = opc_ref.read(blob)
    ok &= _t("closure rules accept a freshly saved deck", not opc_ref.closure_errors(pkg))
    m = F.zip_members(blob)
    m2 = dict(m)
    del m2["ppt/slides/slide1.xml"]
    ok &= _t("closure rules see a dangling relationship", any(r == "dangling-rel" for r, _ in opc_ref.closure_errors(opc_ref.read(F.write_zip(m2)))))
    m3 = dict(m)
    m3["ppt/slides/slide1.xml"] = m["ppt/slides/slide1.xml"].replace(b"<p:cSld>", b'<p:cSld><p:bg><p:bgPr><a:blipFill><a:blip r:embed="rId99"/></a:blipFill></p:bgPr></p:bg>')
    ok &= _t("closure rules see an r:embed without relationship", any(r == "rid-not-in-rels" for r, _ in opc_ref.closure_errors(opc_ref.read(F.write_zip(m3)))))
    m4 = dict(m)
    m4["[Content_Types].xml"] = m["[Content_Types].xml"].replace(b"/ppt/slides/slide1.xml", b"/ppt/slides/slideX.xml")
    p4 = opc_ref.read(F.write_zip(m4))
    ok &= _t("reader falls back to the Default when the Override is lost", p4.content_type("/ppt/slides/slide1.xml") == ("application/xml", "default"))
    ok &= _t("closure rules see an Override for a missing part", any(r == "override-for-missing-part" for r, _ in opc_ref.closure_errors(p4)))
    root = etree.fromstring(m["ppt/slides/slide1.xml"])
    ok &= _t("strict schema accepts a generated slide", not S.errors(xsd.mce_preprocess(root)))
    bad = etree.fromstring(m["ppt/slides/slide1.xml"].replace(b"<p:spTree>", b"<p:spTree><p:bogus/>"))
    ok &= _t("strict schema rejects an unknown child", S.errors(xsd.mce_preprocess(bad)))
    print("selftest", "passed" if ok else "FAILED")
    return 0 if ok else 2


if __name__ == "__main__":
    sys.exit(main())
