"""Own the one clock read in the library: CorePropertiesPart.default() calls dt.datetime.now().

Harness-side substitution of the `dt` name in pptx.parts.coreprops by a shim module whose
`datetime.now` returns a fixed instant. Nothing in /repo is changed.
"""

import datetime as _dt
import types

FIXED = _dt.datetime(2020, 2, 2, 2, 2, 2, tzinfo=_dt.timezone.utc)


class _FixedDatetime(_dt.datetime):
    @classmethod
    def now(cls, tz=None):
        return FIXED.astimezone(tz) if tz is not None else FIXED.replace(tzinfo=None)

    @classmethod
    def utcnow(cls):
        return FIXED.replace(tzinfo=None)


def _install_xlsxwriter():
    """XlsxWriter stamps the workbook it writes with datetime.now() (docProps/core.xml): with a live clock the
    same chart data gives a different embedded workbook every second, which splits canonical states."""
    n = 0
    for modname in ("xlsxwriter.workbook", "xlsxwriter.core"):
        try:
            m = __import__(modname, fromlist=["x"])
        except Exception:
            continue
        if hasattr(m, "datetime"):
            m.datetime = _FixedDatetime
            n += 1
    return n


def install():
    _install_xlsxwriter()
    try:
        import pptx.parts.coreprops as m
    except Exception:
        return False
    if not hasattr(m, "dt"):
        return False
    shim = types.ModuleType("dt_shim")
    for k in dir(_dt):
        if not k.startswith("__"):
            setattr(shim, k, getattr(_dt, k))
    shim.datetime = _FixedDatetime
    m.dt = shim
    return True
