"""Run context shared by every check: counters, violations, known findings, evidence, exit code.

A check module (mc/props/cNN.py) exposes

    LEVEL   = "exploration" | "fault_enumeration" | "model_checking"
    def run(ctx)            -- explores; reports through ctx
    def replay(data) -> str|None   -- re-executes one recorded case WITHOUT the explorer; returns a
                                      failure message if the property is (still) violated, else None

Exit codes: 0 held (or only known findings), 1 violation(s), 2 harness error (never a VIOLATION line).
"""

from __future__ import annotations

import hashlib
import json
import os
import sys
import time
import traceback

VERIF = os.path.dirname(os.path.dirname(os.path.dirname(os.path.abspath(__file__))))
# VERIF_OUT redirects evidence/ and replays/ (used when a check is pointed at a scratch worktree
# through VERIF_REPO, so that runs against mutants never overwrite the committed evidence)
OUT = os.environ.get("VERIF_OUT") or VERIF
EVIDENCE_DIR = os.path.join(OUT, "evidence")
REPLAY_DIR = os.path.join(OUT, "replays")
KNOWN_FINDINGS = os.path.join(VERIF, "known_findings.json")

MAX_SAMPLES = 8
MAX_VIOLATION_LINES = int(os.environ.get("VERIF_MAX_LINES", "25"))


class HarnessError(Exception):
    """The machinery itself is broken or vacuous: exit 2, no VIOLATION line."""


def _jsonable(o):
    try:
        json.dumps(o)
        return o
    except TypeError:
        if isinstance(o, dict):
            return {str(k): _jsonable(v) for k, v in o.items()}
        if isinstance(o, (list, tuple, set, frozenset)):
            return [_jsonable(v) for v in o]
        if isinstance(o, bytes):
            return {"__bytes_hex__": o.hex()} if len(o) <= 4096 else {"__bytes_sha1__": hashlib.sha1(o).hexdigest(), "len": len(o)}
        return repr(o)


class Violation:
    __slots__ = ("signature", "what", "replay")

    def __init__(self, signature, what, replay):
        self.signature = signature
        self.what = what
        self.replay = replay

    def as_tuple(self):
        return (self.signature, self.what, self.replay)


class Partial:
    """Picklable bundle of counters a worker sends back to the parent."""

    def __init__(self):
        self.counters = {}
        self.sets = {}
        self.violations = []  # (signature, what, replay)
        self.samples = []
        self.outcomes = {}  # op name -> set of outcome labels (vacuity report)
        self.results = []  # free-form per-item results handed back to the parent (explorer)

    # -- counters ---------------------------------------------------------------------------
    def count(self, key, n=1):
        self.counters[key] = self.counters.get(key, 0) + n

    def add(self, key, item):
        """Add `item` (hashable, small) to the named set; used for distinct counts."""
        s = self.sets.get(key)
        if s is None:
            s = self.sets[key] = set()
        s.add(item)

    def outcome(self, op, label):
        s = self.outcomes.get(op)
        if s is None:
            s = self.outcomes[op] = set()
        if len(s) < 64:
            s.add(label)

    def sample(self, obj):
        if len(self.samples) < MAX_SAMPLES:
            self.samples.append(_jsonable(obj))

    def violation(self, signature, what, replay):
        # keep first witness per signature, but count all
        self.count("violations_raw")
        for v in self.violations:
            if v[0] == signature:
                return
        self.violations.append((signature, what, _jsonable(replay)))

    def merge(self, other: "Partial"):
        for k, v in other.counters.items():
            self.counters[k] = self.counters.get(k, 0) + v
        for k, s in other.sets.items():
            self.sets.setdefault(k, set()).update(s)
        for k, s in other.outcomes.items():
            self.outcomes.setdefault(k, set()).update(s)
        for sig, what, rp in other.violations:
            if not any(v[0] == sig for v in self.violations):
                self.violations.append((sig, what, rp))
        for s in other.samples:
            if len(self.samples) < MAX_SAMPLES:
                self.samples.append(s)
        self.results.extend(other.results)


class Ctx(Partial):
    def __init__(self, pid, tier, seed, module):
        super().__init__()
        self.pid = pid
        self.tier = tier
        self.seed = seed
        self.module = module
        self.level = getattr(module, "LEVEL")
        self.t0 = time.time()
        self.rule = getattr(module, "RULE", "")
        self.assumptions = list(getattr(module, "ASSUMPTIONS", []))
        self.extra = {}
        self.caps = []
        self.exhaustive = True

    @property
    def thorough(self):
        return self.tier == "thorough"

    def cap(self, text):
        """Record that a cap was hit: the run is then not reported as exhaustive."""
        self.caps.append(text)
        self.exhaustive = False

    def rotate(self, seq):
        """Seed only rotates the walk order of an identical space."""
        seq = list(seq)
        if not seq or not self.seed:
            return seq
        k = self.seed % len(seq)
        return seq[k:] + seq[:k]

    # -- finishing -------------------------------------------------------------------------------
    def _known(self):
        try:
            with open(KNOWN_FINDINGS) as f:
                data = json.load(f)
        except FileNotFoundError:
            return {}
        out = {}
        for e in data.get("findings", []):
            if e.get("property") == self.pid and e.get("status") == "known":
                out[e["signature"]] = e
        return out

    def finish(self):
        known = self._known()
        new, old = [], []
        for sig, what, rp in self.violations:
            (old if sig in known else new).append((sig, what, rp))

        # confirm each new violation by replaying it twice without the explorer
        confirmed = []
        harness_err = None
        rfn = getattr(self.module, "replay", None)
        for sig, what, rp in new:
            if rfn is None or (isinstance(rp, dict) and rp.get("__hang__")):
                # a non-terminating case is not replayed in this process (it would hang the runner too); the
                # watchdog already observed it against a hard deadline
                confirmed.append((sig, what, rp))
                continue
            try:
                r1 = rfn(rp)
                r2 = rfn(rp)
            except Exception:  # replay crashed: harness problem
                harness_err = "replay of %s crashed:\n%s" % (sig, traceback.format_exc())
                continue
            if not r1 or not r2:
                harness_err = "violation %s did not reproduce on replay (%r / %r)" % (sig, r1, r2)
                continue
            confirmed.append((sig, what, rp))

        os.makedirs(REPLAY_DIR, exist_ok=True)
        lines = []
        for sig, what, rp in confirmed:
            h = hashlib.sha1(sig.encode()).hexdigest()[:12]
            path = os.path.join(REPLAY_DIR, "%s-%s.json" % (self.pid, h))
            with open(path, "w") as f:
                json.dump({"property": self.pid, "signature": sig, "what": what, "replay": rp}, f, indent=1, sort_keys=True)
            lines.append((sig, what, path))

        self._write_evidence(len(confirmed), [s for s, _, _ in old])

        for sig, what, rp in old:
            print("KNOWN-FINDING: property=%s %s [%s]" % (self.pid, known[sig].get("what", what), sig))
        for i, (sig, what, path) in enumerate(lines):
            if i < MAX_VIOLATION_LINES:
                print("VIOLATION property=%s replay=%s" % (self.pid, path))
                print("  signature: %s" % sig)
                print("  what: %s" % what[:1000])
        if len(lines) > MAX_VIOLATION_LINES:
            print("  ... and %d more distinct signatures" % (len(lines) - MAX_VIOLATION_LINES))
        self.summary()
        if harness_err and not lines:
            # nothing the check reported could be reproduced: the machinery is at fault, not the library
            print("HARNESS-ERROR property=%s %s" % (self.pid, harness_err), file=sys.stderr)
            return 2
        if harness_err:
            # some violations were confirmed by replay (reported above); others were not reproducible in a
            # second execution in this process (e.g. a defect that depends on process-wide cached state)
            print("UNCONFIRMED property=%s %s" % (self.pid, harness_err), file=sys.stderr)
        return 1 if lines else 0

    def summary(self):
        c = self.counters
        keys = ("evaluations", "states", "transitions", "traces_validated_against_impl")
        msg = " ".join("%s=%s" % (k, c[k]) for k in keys if k in c)
        nt = len(self.sets.get("nontrivial", ())) + self.counters.get("nontrivial_count", 0)
        print("[%s %s seed=%d] %s distinct_nontrivial=%d exhaustive=%s caps=%s wall=%.1fs" % (
            self.pid, self.tier, self.seed, msg, nt, self.exhaustive, self.caps or "none", time.time() - self.t0))
        single = sorted(op for op, s in self.outcomes.items() if len(s) <= 1)
        if self.outcomes:
            print("  operations=%d with-one-distinct-outcome=%d" % (len(self.outcomes), len(single)))

    def _write_evidence(self, nviol, known_sigs):
        c = self.counters
        cov = {
            "rule": self.rule,
            "samples": self.samples[:MAX_SAMPLES],
            "exhaustive": bool(self.exhaustive),
            "caps": self.caps,
            "distinct_nontrivial": len(self.sets.get("nontrivial", ())) + c.get("nontrivial_count", 0),
            "evaluations": c.get("evaluations", c.get("transitions", 0)),
        }
        if self.level == "model_checking":
            cov["states"] = c.get("states", len(self.sets.get("states", ())))
            cov["transitions"] = c.get("transitions", 0)
            cov["traces_validated_against_impl"] = c.get("traces_validated_against_impl", c.get("transitions", 0))
        for k, v in c.items():
            if k not in cov and k != "violations_raw":
                cov[k] = v
        for k, s in self.sets.items():
            if k not in ("nontrivial", "states"):
                cov["distinct_" + k] = len(s)
        if self.outcomes:
            cov["distinct_outcomes_per_operation"] = {k: len(v) for k, v in sorted(self.outcomes.items())}
        cov.update(_jsonable(self.extra))
        ev = {
            "property_id": self.pid,
            "tier": self.tier,
            "seed": int(self.seed),
            "level": self.level,
            "coverage": cov,
            "assumptions": self.assumptions,
            "wall_s": round(time.time() - self.t0, 3),
            "violations": nviol,
            "known_findings_reproduced": known_sigs,
        }
        os.makedirs(EVIDENCE_DIR, exist_ok=True)
        tmp = os.path.join(EVIDENCE_DIR, ".%s.json.tmp" % self.pid)
        with open(tmp, "w") as f:
            json.dump(ev, f, indent=1, sort_keys=True)
        os.replace(tmp, os.path.join(EVIDENCE_DIR, "%s.json" % self.pid))
