"""Engine E1 — explicit-state breadth-first exploration of the REAL objects, replay mode.

A state is the history that reaches it: `system.build(init)` makes a fresh live object and the history's
operations are re-applied through the public API (live presentation graphs cannot be copied). Duplicate
detection is on `system.canon(live)`, computed before the oracle runs (the oracle may perturb the disposable
object: it saves, re-opens, reads). Every explored transition is executed on the implementation and its
result is checked by `system.check` (invariants + reference model), so traces_validated == transitions.

System protocol:
    initials() -> [name]                     build(name) -> live
    ops(level) -> [op dict]                  alphabet offered at BFS level `level` (1-based), simplest first
    apply(live, op) -> label | SKIP          executes on the implementation; label = outcome class (vacuity report)
    canon(live) -> hashable                  canonical state (content digest + cache flags)
    check(live, init, history, part)         reports violations via part.violation(...)
"""

from __future__ import annotations

import json

from .parallel import fanout

SKIP = "__skip__"


def opkey(op):
    return json.dumps(op, sort_keys=True)


def _eval_factory(system):
    def _eval(part, chunk):
        for init, hist in chunk:
            live = system.build(init)
            if hasattr(system, "begin"):
                system.begin(live, hist)
            label = None
            skipped = False
            for i, op in enumerate(hist):
                label = system.apply(live, op)
                if label == SKIP:
                    skipped = True
                    break
            if skipped:
                part.count("disabled_transitions")
                continue
            canon = system.canon(live)
            if hist:
                part.count("transitions")
                part.count("traces_validated_against_impl")
                part.outcome(hist[-1]["op"], str(label))
            part.count("histories_replayed")
            system.check(live, init, hist, part)
            part.results.append((init, hist, canon))
    return _eval


def explore(ctx, system, depth, name=""):
    """Level-synchronous BFS to `depth`. Returns number of distinct states."""
    seen = set()
    frontier = [(i, []) for i in system.initials()]
    ev = _eval_factory(system)
    per_level = []
    for level in range(0, depth + 1):
        if not frontier:
            break
        ctx.results = []
        fanout(ctx, ev, ctx.rotate(frontier), min_parallel=8)
        results = sorted(ctx.results, key=lambda r: (r[0], len(r[1]), [opkey(o) for o in r[1]]))
        ctx.results = []
        new_states = []
        for init, hist, canon in results:
            if canon in seen:
                continue
            seen.add(canon)
            new_states.append((init, hist))
        per_level.append({"level": level, "evaluated": len(frontier), "new_states": len(new_states)})
        if level == depth:
            break
        ops = system.ops(level + 1)
        frontier = [(init, hist + [op]) for init, hist in new_states for op in ops]
    ctx.counters["states"] = ctx.counters.get("states", 0) + len(seen)
    ctx.extra.setdefault("bfs", {})[name or getattr(system, "name", "system")] = {
        "depth_completed": depth, "levels": per_level, "states": len(seen)}
    if new_states_sample := [h for _, h in new_states[:2] if h]:
        for h in new_states_sample:
            ctx.sample({"system": name, "history": h})
    return len(seen)


def replay_history(system, data):
    """Plain re-execution of one recorded history, no explorer: returns failure text or None."""
    from .run import Partial
    part = Partial()
    live = system.build(data["init"])
    if hasattr(system, "begin"):
        system.begin(live, data["history"])
    for op in data["history"]:
        if system.apply(live, op) == SKIP:
            return None
    system.canon(live)
    system.check(live, data["init"], data["history"], part)
    if part.violations:
        if "signature" in data:
            for sig, what, _ in part.violations:
                if sig == data["signature"]:
                    return what
            return None
        return part.violations[0][1]
    return None
