"""Fork-based fan-out with a watchdog. Workers are forked from a parent that has imported pptx but holds no live
objects; each worker processes whole chunks and returns one `Partial` per chunk (no fork per case).

Watchdog: a chunk that does not come back within the deadline (VERIF_CHUNK_TIMEOUT seconds; default 300 s in the
quick tier, 1800 s in the thorough tier — ordinary chunks take seconds) means the library did not terminate on
some input of that chunk (e.g. a membership test that iterates a 2**32 range inside C code cannot be interrupted
from Python). The worker is killed, the chunk is reported as a violation `<ID>|hang` (its items are in the replay
file), the run is no longer exhaustive, and the remaining chunks are still explored.
"""

from __future__ import annotations

import multiprocessing as mp
import os
import signal
import time
import traceback
from multiprocessing.connection import wait as _wait

from .run import HarnessError, Partial

_FN = None


def ncpu():
    try:
        n = int(os.environ.get("VERIF_WORKERS", "0"))
    except ValueError:
        n = 0
    return n or min(16, os.cpu_count() or 1)


def _timeout_for(ctx):
    try:
        v = float(os.environ.get("VERIF_CHUNK_TIMEOUT", "0") or 0)
    except ValueError:
        v = 0
    if v > 0:
        return v
    return 1800.0 if getattr(ctx, "tier", "quick") == "thorough" else 300.0


def _worker_loop(conn):
    while True:
        try:
            msg = conn.recv()
        except EOFError:
            return
        if msg is None:
            return
        idx, chunk = msg
        part = Partial()
        try:
            _FN(part, chunk)
            conn.send((idx, "ok", None, part))
        except Exception:  # noqa: BLE001
            conn.send((idx, "error", traceback.format_exc(), part))


class _Worker:
    def __init__(self, mpctx):
        self.conn, child = mp.Pipe()
        self.proc = mpctx.Process(target=_worker_loop, args=(child,), daemon=True)
        self.proc.start()
        child.close()
        self.busy = None      # (idx, chunk, start time)

    def give(self, idx, chunk):
        self.busy = (idx, chunk, time.time())
        self.conn.send((idx, chunk))

    def stop(self):
        try:
            self.conn.send(None)
        except Exception:  # noqa: BLE001
            pass

    def kill(self):
        try:
            os.kill(self.proc.pid, signal.SIGKILL)
        except Exception:  # noqa: BLE001
            pass
        self.proc.join(5)
        try:
            self.conn.close()
        except Exception:  # noqa: BLE001
            pass


def fanout(ctx, fn, items, chunk_size=None, min_parallel=32):
    """Run fn(partial, chunk_of_items) over all items, merge the partials into ctx.

    fn must be a module-level function or closure created before the call (inherited by fork).
    """
    global _FN
    items = list(items)
    if not items:
        return
    n = ncpu()
    if n <= 1 or len(items) < min_parallel:
        part = Partial()
        fn(part, items)
        ctx.merge(part)
        return
    if chunk_size is None:
        chunk_size = max(1, len(items) // (n * 4))
    chunks = [items[i:i + chunk_size] for i in range(0, len(items), chunk_size)]
    deadline = _timeout_for(ctx)
    _FN = fn
    mpctx = mp.get_context("fork")
    workers = [_Worker(mpctx) for _ in range(min(n, len(chunks)))]
    nxt = 0
    done = 0
    err = None
    try:
        for w in workers:
            if nxt < len(chunks):
                w.give(nxt, chunks[nxt])
                nxt += 1
        while done < len(chunks) and err is None:
            busy = [w for w in workers if w.busy is not None]
            if not busy:
                break
            ready = _wait([w.conn for w in busy], timeout=1.0)
            for w in busy:
                if w.conn in ready:
                    try:
                        idx, status, tb, part = w.conn.recv()
                    except (EOFError, OSError):
                        # the worker died on its own (segfault, os._exit): the machinery cannot vouch for the chunk
                        err = "worker died while processing a chunk (first item: %r)" % (w.busy[1][0],)
                        break
                    ctx.merge(part)
                    w.busy = None
                    done += 1
                    if status == "error":
                        err = "worker crashed:\n" + tb
                        break
                    if nxt < len(chunks):
                        w.give(nxt, chunks[nxt])
                        nxt += 1
            now = time.time()
            for i, w in enumerate(workers):
                if w.busy is not None and now - w.busy[2] > deadline:
                    idx, chunk, _t0 = w.busy
                    w.kill()
                    done += 1
                    _report_hang(ctx, chunk, deadline)
                    nw = _Worker(mpctx)
                    workers[i] = nw
                    if nxt < len(chunks):
                        nw.give(nxt, chunks[nxt])
                        nxt += 1
    finally:
        for w in workers:
            if w.busy is None:
                w.stop()
            else:
                w.kill()
        for w in workers:
            if w.proc.is_alive():
                w.proc.join(2)
                if w.proc.is_alive():
                    w.kill()
        _FN = None
    if err:
        raise HarnessError(err)


def _report_hang(ctx, chunk, deadline):
    pid = getattr(ctx, "pid", "C??")
    ctx.count("hung_chunks")
    if hasattr(ctx, "cap"):
        ctx.cap("a chunk of %d cases did not terminate within %.0f s and was killed" % (len(chunk), deadline))
    try:
        first = repr(chunk[0])[:300]
    except Exception:  # noqa: BLE001
        first = "?"
    ctx.violation("%s|hang" % pid,
                  "the library did not terminate within %.0f s on a chunk of %d cases (worker killed); first case of the "
                  "chunk: %s" % (deadline, len(chunk), first),
                  {"__hang__": True, "deadline_s": deadline, "chunk": chunk[:50]})
