"""Fork-based fan-out. Workers are forked from a parent that has imported pptx but holds no live
objects; each worker processes whole chunks and returns one `Partial` per chunk (no fork per case).
"""

from __future__ import annotations

import multiprocessing as mp
import os
import traceback

from .run import HarnessError, Partial

_FN = None


def ncpu():
    try:
        n = int(os.environ.get("VERIF_WORKERS", "0"))
    except ValueError:
        n = 0
    return n or min(16, os.cpu_count() or 1)


def _work(chunk):
    part = Partial()
    try:
        _FN(part, chunk)
    except Exception:
        return ("error", traceback.format_exc(), part)
    return ("ok", None, part)


def fanout(ctx, fn, items, chunk_size=None, min_parallel=32):
    """Run fn(partial, chunk_of_items) over all items, merge the partials into ctx.

    fn must be a module-level function or closure created before the call (inherited by fork).
    """
    global _FN
    items = list(items)
    if not items:
        return
    n = ncpu()
    if n <= 1 or len(items) < min_parallel:
        part = Partial()
        fn(part, items)
        ctx.merge(part)
        return
    if chunk_size is None:
        chunk_size = max(1, len(items) // (n * 4))
    chunks = [items[i:i + chunk_size] for i in range(0, len(items), chunk_size)]
    _FN = fn
    mpctx = mp.get_context("fork")
    with mpctx.Pool(n) as pool:
        for status, err, part in pool.imap_unordered(_work, chunks):
            ctx.merge(part)
            if status == "error":
                pool.terminate()
                raise HarnessError("worker crashed:\n" + err)
    _FN = None
