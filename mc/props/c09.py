"""C09 — a property reads back as set, survives save/re-open; None restores inheritance.

Model checking of the real objects against a dict-of-last-assigned-values reference model, driven by the
declarative catalogue in `c09_catalog.py` (written from the docstrings).

Histories (all enumerated, nothing sampled):
  singles   every (kind, property, alphabet value) on the workbench deck, one fresh deck per case
  none      for every property whose docstring promises that None *removes* the explicit setting:
            [value, None] compared (part XML, empty containers pruned) with [None] alone
  pairs     every ordered pair of assignments (p1,v1),(p2,v2) on the same object over the reduced alphabet
            (same property: last wins; same group: only the last one is held to its value; different
            groups: both read their assigned values)
  points    ordered pairs (both orders) across different points of one series (data label, its font, marker,
            format.line of points 0/1/2): the per-point c:dLbl / c:dPt elements are kept in idx order
  stored    the same singles/pairs on the 'bench-pp' variant, where a few objects are harness-rewritten (bare
  forms     lxml) into the alternative forms PowerPoint writes (edge-mode legend layout, pre-existing c:dLbl /
            c:dPt of a later point, schemeClr+lumMod, sysClr, normAutofit, spcPct "90%", placeholder a:xfrm)
  thorough  + ordered pairs across the objects of CROSS_OBJECT_GROUPS (shape x its fill x its line; text
            frame x paragraph x run font), + ordered triples within the text objects, + larger reduced
            alphabets, + more corpus decks
  corpus    singles on the same kinds of object located in decks of the repository corpus

Oracle per transition (reference model = {property: expected reading}):
  valid value    no exception; the reading through the same proxy and through a freshly located proxy
                 equals the expected reading within the storage quantum (circular for angles)
  None           reads the documented None-reading
  invalid value  TypeError/ValueError, and the c14n of the part that holds the object is unchanged
  'either' value (range not documented): a clean TypeError/ValueError rejection or acceptance
  siblings       every other catalogued reading of the object(s) of the case that the assigned property is
                 not allowed to disturb (same independence group / documented side effect) is unchanged
  re-open        after the last step: save to bytes, re-open, locate, every property still held by the
                 model reads its expected value

Observations used for verdicts: public getters/setters and exceptions, `part.blob` parsed with bare lxml,
the saved bytes re-opened through the public API.

Signatures: `C09|<rule>|<Class>.<property>|<value class>[|in-sequence]`, rule in {readback, readback-reopen, none,
reject, reject-mutated, interferes(<other reading>), raised}. <Class> is the declaring class (runtime class for
the BaseShape and _BasePlot properties, whose element classes differ per kind); <value class> is the alphabet
label, coarsened to 'out-of-domain' / 'out-of-domain(xml-only)' for reject-mutated (one finding per setter;
xml-only = part XML changed but no catalogued reading did) and to 'value' / 'None' for interferes.
`|in-sequence` marks a failure at step >= 2 of a history whose single-assignment history passes. The witness
kept per signature is the smallest history (independent of VERIF_SEED).

Deviations from DESIGN.md: the save/re-open is done per case (not batched per sweep: assignments to one
object conflict); the "attribute/element is gone" check compares [v, None] with [None] after pruning empty
attribute-less elements instead of demanding a byte-identical restoration of the initial XML (the docs
promise removal of the setting, not of a container element such as `a:pPr`); out-of-schema-range values of
properties whose docstring states no range are 'either' (weaker reading), not 'invalid'.
"""

from __future__ import annotations

import hashlib
import io
import itertools
import os

from mc.core.parallel import fanout
from mc.core.run import HarnessError
from mc.props import c09_catalog as cat

LEVEL = "model_checking"
RULE = ("histories = assignment sequences over the catalogue (every single assignment of every alphabet value; "
        "every ordered pair on one object over the reduced alphabet; thorough: cross-object pairs and triples "
        "within text objects; singles on corpus decks). states = distinct c14n of the XML part holding the "
        "object after a transition; transitions = assignments executed; traces_validated = transitions whose "
        "outcome (reading / rejection / sibling readings) was compared with the reference model. Non-trivial = "
        "histories in which at least one assignment changed the part XML or was rejected, distinct by history.")
ASSUMPTIONS = [
    "catalogue-bounded: only the properties, objects and value alphabets of mc/props/c09_catalog.py; settable "
    "properties outside the catalogue are listed under 'uncovered'/'excluded' in the evidence",
    "domains come from the docstrings; where a docstring states no range, out-of-schema values may be either "
    "rejected cleanly or accepted (weaker reading)",
    "independence groups (rgb/theme colour/brightness, fill kinds, number_format -> is_linked, crosses/crosses_at) "
    "are taken from the docstrings; members of one group are not required to survive each other",
    "history length <= 2 (quick) / <= 3 for text objects (thorough); one workbench deck plus corpus decks",
    "trusted: lxml c14n, zipfile, the workbench builder (public API only)",
]

_DECKS = {}


def _deck_bytes(deck):
    if deck not in _DECKS:
        if deck.startswith("bench"):
            _DECKS[deck] = cat.bench_bytes(deck)
        else:
            from mc.drivers import fixtures
            with open(os.path.join(fixtures.REPO, deck), "rb") as f:
                _DECKS[deck] = f.read()
    return _DECKS[deck]


def _open(blob):
    from pptx import Presentation
    return Presentation(io.BytesIO(blob))


def _c14n(blob):
    from lxml import etree
    return etree.tostring(etree.fromstring(blob), method="c14n")


def _pruned_c14n(blob):
    """c14n after removing, bottom-up, elements that have no attributes, no children and no text."""
    from lxml import etree
    root = etree.fromstring(blob)
    changed = True
    while changed:
        changed = False
        for el in list(root.iter()):
            if el is root or not isinstance(el.tag, str):
                continue
            if len(el) == 0 and not el.attrib and not (el.text or "").strip():
                parent = el.getparent()
                if parent is not None:
                    parent.remove(el)
                    changed = True
    return etree.tostring(root, method="c14n")


# ---- reading / writing through the catalogue --------------------------------------------------------

def _read(obj, prop):
    try:
        if prop.getter:
            v = cat.ACCESSORS[prop.getter][0](obj)
        else:
            v = getattr(obj, prop.name)
    except Exception as e:  # a getter documented to raise (fill kinds) is a reading like any other
        return {"raises": type(e).__name__}
    return prop.normfn(v)


def _write(obj, prop, value):
    if prop.setter:
        cat.ACCESSORS[prop.setter][1](obj, value)
    else:
        setattr(obj, prop.name, value)


def _read_all(obj, kind):
    return {p.name: _read(obj, p) for p in kind.props}


def _isnum(x):
    return isinstance(x, (int, float)) and not isinstance(x, bool)


def _match1(got, exp, prop):
    if isinstance(got, str) and isinstance(exp, str) and got.startswith("len:") and exp.startswith("len:"):
        q = prop.quantum["len"] if isinstance(prop.quantum, dict) else prop.quantum
        return abs(int(got[4:]) - int(exp[4:])) <= q
    if _isnum(got) and _isnum(exp):
        q = prop.quantum["float"] if isinstance(prop.quantum, dict) else prop.quantum
        d = abs(got - exp)
        if prop.circular:
            # the documented reading is normalised to [0, full turn): only the wrap at 0 is circular
            if not (0 <= got < prop.circular) or not (0 <= exp <= prop.circular):
                return False
            d = min(d, prop.circular - d)
        return d <= q * (1 + 1e-9) + 1e-12 * max(1.0, abs(exp)) * (1 if q else 0)
    if isinstance(got, bool) or isinstance(exp, bool):
        return isinstance(got, bool) and isinstance(exp, bool) and got == exp
    return got == exp


def _match(got, exp, prop):
    if isinstance(exp, dict) and "any_of" in exp:
        return any(_match1(got, e, prop) for e in exp["any_of"])
    return _match1(got, exp, prop)


def _allowed(kind, prop):
    """Sibling property names an assignment to `prop` may change."""
    if prop.disturbs is not None:
        return set(prop.disturbs)
    if prop.group is None:
        return set()
    return {p.name for p in kind.props if p.group == prop.group and p.name != prop.name}


# ---- one history --------------------------------------------------------------------------------------

def _sigclass(obj, prop):
    """Class named in signatures: the declaring class, except for the BaseShape properties, where the
    runtime class tells the shape kinds (different element classes) apart."""
    return type(obj).__name__ if prop.owner in ("BaseShape", "_BasePlot", "-") else prop.owner


class _Out:
    """Collects what one case produced."""

    def __init__(self):
        self.violations = []     # (signature base, in_sequence, what)
        self.transitions = 0
        self.validated = 0
        self.states = []
        self.changed = False
        self.outcomes = []       # (op, label)

    def v(self, rule, cname, pname, label, step_index, what, extra="", rank=0):
        """Value class in the signature: the alphabet label, except that a mutation by a rejected
        assignment is one finding per property ('out-of-domain') and an interference is one finding per
        (property, disturbed reading) and kind of value ('value' / 'None'). 'out-of-domain(xml-only)': the
        rejected assignment changed the part XML but no catalogued reading of the object."""
        if rule == "reject-mutated":
            if rank != 0:
                # the rejected assignment changed the part XML but no reading of the object: the C09 statement
                # only speaks about readings, so this is counted, not reported (C03/C11 judge the XML)
                self.xml_only = getattr(self, "xml_only", 0) + 1
                return
            label = "out-of-domain"
        elif rule.startswith("interferes("):
            label = "None" if label == "None" else "value"
        base = "C09|%s|%s.%s|%s%s" % (rule, cname, pname, label, extra)
        self.violations.append((base, step_index > 0, what, rank))


def _objs_of(case):
    """kind name -> (Kind, path, part_path)."""
    out = {}
    over = case.get("objs") or {}
    for st in case["steps"]:
        kn = st[0]
        if kn in out:
            continue
        K = cat.kind(kn)
        if kn in over:
            out[kn] = (K, over[kn][0], over[kn][1])
        else:
            out[kn] = (K, K.path, K.part)
    return out


def _hist(case, upto):
    parts = ["%s.%s = <%s>" % (s[0], s[1], s[2]) for s in case["steps"][:upto + 1]]
    k = case.get("reopen_at")
    if k is not None and k < len(parts):
        parts.insert(k, "<save, re-open, continue on the re-opened deck>")
    return " ; ".join(parts)


def run_seq(case, out):
    from mc.drivers.fixtures import save_bytes
    prs = _open(_deck_bytes(case["deck"]))
    objs = _objs_of(case)
    readings = {kn: _read_all(cat.resolve(prs, path), K) for kn, (K, path, _) in objs.items()}
    model = {}  # (kind name, prop name) -> (expected, label, class name)
    for i, (kn, pn, label) in enumerate(case["steps"]):
        K, path, ppath = objs[kn]
        P = K.prop(pn)
        V = P.value(label)
        if case.get("reopen_at") == i:
            # second editing session: the rest of the history runs on the saved and re-opened deck
            try:
                prs = _open(save_bytes(prs))
                readings = {k2: _read_all(cat.resolve(prs, p2), K2) for k2, (K2, p2, _) in objs.items()}
            except Exception as e:
                out.v("readback-reopen", K.name, pn, label, i,
                      "deck=%s history: %s: save/re-open between the steps raised %s: %s"
                      % (case["deck"], _hist(case, i), type(e).__name__, e), "|raised=" + type(e).__name__)
                return
        obj = cat.resolve(prs, path)
        cname = _sigclass(obj, P)
        op = "%s.%s" % (cname, pn)
        before = _c14n(cat.part_blob(prs, ppath))
        value = cat.mk(V.spec, prs)
        exc = None
        try:
            _write(obj, P, value)
        except Exception as e:
            exc = e
        out.transitions += 1
        after = _c14n(cat.part_blob(prs, ppath))
        out.states.append(hashlib.blake2b(after, digest_size=8).hexdigest())
        if after != before:
            out.changed = True
        where = "deck=%s history: %s" % (case["deck"], _hist(case, i))
        check_siblings = True

        if V.cls in ("invalid", "either"):
            out.validated += 1
            if exc is None:
                out.outcomes.append((op, "out-of-domain accepted"))
                if V.cls == "invalid":
                    out.v("reject", cname, pn, label, i,
                          "%s: value %r is outside the documented domain but was accepted (now reads %r)"
                          % (where, V.spec, _read(obj, P)))
                check_siblings = V.cls == "either"
                if V.cls == "either":
                    model.pop((kn, pn), None)
                    for s in _allowed(K, P):
                        model.pop((kn, s), None)
            else:
                out.changed = True
                out.outcomes.append((op, "rejected:" + type(exc).__name__))
                if not isinstance(exc, (TypeError, ValueError)):
                    out.v("reject", cname, pn, label, i,
                          "%s: out-of-domain value %r raised %s (%s), not TypeError/ValueError"
                          % (where, V.spec, type(exc).__name__, exc), "|raised=" + type(exc).__name__)
        else:
            out.validated += 1
            if exc is not None:
                out.outcomes.append((op, "raised:" + type(exc).__name__))
                out.v("raised", cname, pn, label, i,
                      "%s: in-domain value %r raised %s: %s" % (where, V.spec, type(exc).__name__, exc))
                check_siblings = False
                model.pop((kn, pn), None)
            else:
                if V.cls == "none" and V.expect is cat._SAME:
                    expected = P.normfn(cat.mk(P.none_reading, prs))
                else:
                    expected = V.expected(prs, P.normfn)
                got = _read(obj, P)
                got2 = _read(cat.resolve(prs, path), P)
                out.outcomes.append((op, "none" if V.cls == "none" else "accepted"))
                rule = "none" if V.cls == "none" else "readback"
                model[(kn, pn)] = (expected, label, cname)
                if not _match(got, expected, P):
                    out.v(rule, cname, pn, label, i, "%s: assigned %r, expected to read %r, read %r"
                          % (where, V.spec, expected, got))
                    model.pop((kn, pn))          # reported once; not again after the re-open
                elif not _match(got2, expected, P):
                    out.v(rule, cname, pn, label, i, "%s: assigned %r, a freshly located proxy reads %r, expected %r"
                          % (where, V.spec, got2, expected))
                    model.pop((kn, pn))
                for s in _allowed(K, P):
                    model.pop((kn, s), None)

        new = {k2: _read_all(cat.resolve(prs, p2), K2) for k2, (K2, p2, _) in objs.items()}
        if exc is not None and V.cls in ("invalid", "either"):
            moved = ["%s: %r -> %r" % (sname if k2 == kn else "%s.%s" % (k2, sname), readings[k2][sname], val)
                     for k2, rd in sorted(new.items()) for sname, val in sorted(rd.items()) if val != readings[k2][sname]]
            if after != before or moved:
                out.v("reject-mutated", cname, pn, label, i,
                      "%s: value %r was rejected with %s but the object was modified: part XML %s; readings changed: %s"
                      % (where, V.spec, type(exc).__name__, "changed" if after != before else "unchanged",
                         "; ".join(moved) or "none"), rank=0 if moved else 1)
        elif check_siblings:
            allowed = _allowed(K, P)
            for k2, rd in new.items():
                for sname, val in rd.items():
                    if k2 == kn and (sname == pn or sname in allowed):
                        continue
                    old = readings[k2][sname]
                    if val != old:
                        other = sname if k2 == kn else "%s.%s" % (k2, sname)
                        out.v("interferes(%s)" % other, cname, pn, label, i,
                              "%s: the reading of %s changed from %r to %r" % (where, other, old, val))
                        model.pop((k2, sname), None)  # reported once; not again after the re-open
        readings = new

    if not model:
        return
    try:
        prs2 = _open(save_bytes(prs))
    except Exception as e:
        (kn, pn), (expected, label, cname) = sorted(model.items())[0]
        out.v("readback-reopen", cname, pn, label, len(case["steps"]) - 1,
              "deck=%s history: %s: save/re-open raised %s: %s" % (case["deck"], _hist(case, 99), type(e).__name__, e),
              "|raised=" + type(e).__name__)
        return
    for (kn, pn), (expected, label, cname) in sorted(model.items()):
        K, path, _ = objs[kn]
        P = K.prop(pn)
        try:
            got = _read(cat.resolve(prs2, path), P)
        except Exception as e:
            got = {"locate-raised": type(e).__name__}
        if not _match(got, expected, P):
            out.v("readback-reopen", cname, pn, label, len(case["steps"]) - 1,
                  "deck=%s history: %s: after save and re-open %s.%s reads %r, expected %r"
                  % (case["deck"], _hist(case, 99), kn, pn, got, expected))


def run_none_removed(case, out):
    """[v, None] must leave the same (pruned) part XML as [None] alone."""
    K = cat.kind(case["kind"])
    P = K.prop(case["prop"])
    V = P.value(case["label"])
    blobs = []
    cname = "?"
    for seq in ((V, P.value("None")), (P.value("None"),)):
        prs = _open(_deck_bytes(case["deck"]))
        for val in seq:
            obj = cat.resolve(prs, K.path)
            cname = _sigclass(obj, P)
            try:
                _write(obj, P, cat.mk(val.spec, prs))
            except Exception:
                return  # reported by the single-assignment histories
            out.transitions += 1
            st = _c14n(cat.part_blob(prs, K.part))
            out.states.append(hashlib.blake2b(st, digest_size=8).hexdigest())
        blobs.append(_pruned_c14n(cat.part_blob(prs, K.part)))
    out.validated += 1
    out.changed = True
    if blobs[0] != blobs[1]:
        out.v("none", cname, P.name, "value-then-None", 0,
              "deck=%s %s.%s = <%s> then None: the docstring promises that None removes the explicit setting, "
              "but the part XML differs from assigning None alone: %s"
              % (case["deck"], K.name, P.name, V.label, _xml_diff(blobs[0], blobs[1])))


def _xml_diff(a, b):
    from lxml import etree

    def lines(x):
        return etree.tostring(etree.fromstring(x), pretty_print=True).decode().splitlines()
    la, lb = lines(a), lines(b)
    sb, sa = set(lb), set(la)
    extra = [l.strip() for l in la if l not in sb][:4]
    missing = [l.strip() for l in lb if l not in sa][:4]
    return "left over %r / missing %r" % (extra, missing)


def run_case(case):
    out = _Out()
    if case["t"] == "seq":
        run_seq(case, out)
    elif case["t"] == "none_removed":
        run_none_removed(case, out)
    else:
        raise ValueError(case["t"])
    return out


def _case_key(case):
    if case["t"] == "seq":
        return (len(case["steps"]), 0 if case.get("reopen_at") is None else 1,
                0 if case["deck"].startswith("bench") else 1, case["deck"], repr(case["steps"]))
    return (0, 0, case["deck"], repr((case["kind"], case["prop"], case["label"])))


_SUPPRESS = frozenset()


def _worker(part, chunk):
    for case in chunk:
        out = run_case(case)
        part.count("cases")
        part.count("transitions", out.transitions)
        part.count("traces_validated_against_impl", out.validated)
        for s in out.states:
            part.add("states", s)
        if out.changed:
            part.count("nontrivial_count")
        for op, lab in out.outcomes:
            part.outcome(op, lab)
        if case["t"] == "seq" and len(case["steps"]) == 2 and part.counters["cases"] % 997 == 1:
            part.sample({"deck": case["deck"], "history": case["steps"]})
        for base, in_seq, what, rank in out.violations:
            if in_seq and base in _SUPPRESS:
                continue
            sig = base + ("|in-sequence" if in_seq else "")
            part.results.append((sig, (rank,) + _case_key(case), what, case))


def _flush(ctx, start=0):
    """Deterministic witness per signature: the smallest case key, whatever the walk order was."""
    best = {}
    for sig, key, what, case in ctx.results[start:]:
        if sig not in best or key < best[sig][0]:
            best[sig] = (key, what, case)
    for sig in sorted(best):
        key, what, case = best[sig]
        ctx.violation(sig, what, {"case": case, "sig": sig})
    return {sig.rsplit("|in-sequence", 1)[0] for sig in best}


# ---- enumeration ------------------------------------------------------------------------------------------

def singles(thorough, deck_of=None):
    cases = []
    for K in cat.kinds():
        for P in K.settable:
            for V in P.alphabet(thorough):
                cases.append({"t": "seq", "deck": K.deck, "steps": [[K.name, P.name, V.label]]})
    return cases


def none_removed_cases(thorough):
    cases = []
    for K in cat.kinds():
        for P in K.settable:
            if not P.none_removes:
                continue
            vals = [v for v in P.alphabet(thorough) if v.cls == "valid"]
            vals = vals if thorough else [v for v in vals if v.pair][:2] or vals[:1]
            for V in vals:
                cases.append({"t": "none_removed", "deck": K.deck, "kind": K.name, "prop": P.name, "label": V.label})
    return cases


def _reduced(K, thorough):
    return [(K.name, P.name, V.label) for P in K.settable for V in P.pair_alphabet(thorough)]


def pairs(thorough):
    cases = []
    for K in cat.kinds():
        if not K.pairs:
            continue
        red = _reduced(K, thorough)
        for a in red:
            for b in red:
                cases.append({"t": "seq", "deck": K.deck, "steps": [list(a), list(b)]})
    return cases


def session_pairs(thorough):
    """Every pair history again as TWO editing sessions: first assignment, save, re-open, second assignment on the
    re-opened deck (then the usual final save/re-open)."""
    return [dict(c, reopen_at=1) for c in pairs(thorough)]


def twin_pairs(thorough):
    """Ordered pairs (both orders) across two objects of ONE kind in the same deck. Quick: one value per property (the
    first of its pair alphabet); thorough: the whole reduced alphabet."""
    cat.kinds()
    if thorough:
        return cross_pairs(cat.TWIN_GROUPS, True)
    cases = []
    for ka, kb in cat.TWIN_GROUPS:
        K = cat.kind(ka)
        red = [(P.name, P.pair_alphabet(False)[0].label) for P in K.settable if P.pair_alphabet(False)]
        if len(K.settable) == 1:
            red = [(P.name, V.label) for P in K.settable for V in P.pair_alphabet(False)]
        for x, y in ((ka, kb), (kb, ka)):
            for a in red:
                for b in red:
                    cases.append({"t": "seq", "deck": K.deck, "steps": [[x, a[0], a[1]], [y, b[0], b[1]]]})
    return cases


def cross_pairs(groups, thorough=False):
    cases = []
    for grp in groups:
        decks = {cat.kind(k).deck for k in grp}
        if len(decks) != 1:
            raise HarnessError("cross-object group %r spans decks %r" % (grp, decks))
        for ka, kb in itertools.permutations(grp, 2):
            for a in _reduced(cat.kind(ka), thorough):
                for b in _reduced(cat.kind(kb), thorough):
                    cases.append({"t": "seq", "deck": cat.kind(ka).deck, "steps": [list(a), list(b)]})
    return cases


def triples():
    cases = []
    for kn in cat.TRIPLE_KINDS:
        red = _reduced(cat.kind(kn), False)
        for a in red:
            for b in red:
                for c in red:
                    cases.append({"t": "seq", "deck": "bench", "steps": [list(a), list(b), list(c)]})
    return cases


def corpus_cases(thorough):
    """Singles on the objects of each corpus-enabled kind in the first N corpus decks that have one."""
    from mc.drivers import fixtures
    per_kind = 5 if thorough else 2
    want = {K.name for K in cat.kinds() if K.corpus}
    taken = {k: 0 for k in want}
    cases, used = [], []
    for path in fixtures.corpus():
        if all(taken[k] >= per_kind for k in want):
            break
        rel = fixtures.corpus_name(path)
        try:
            prs = _open(fixtures.read_bytes(path))
            found = cat.discover(prs)
        except Exception as e:
            raise HarnessError("corpus discovery failed on %s: %r" % (rel, e))
        here = []
        for kn in sorted(found):
            if kn not in want or taken[kn] >= per_kind:
                continue
            if kn in ("presentation", "slide") and taken[kn] >= 1:
                continue
            taken[kn] += 1
            here.append(kn)
            K = cat.kind(kn)
            for P in K.settable:
                for V in P.alphabet(False):
                    cases.append({"t": "seq", "deck": rel, "objs": {kn: list(found[kn])}, "steps": [[kn, P.name, V.label]]})
        if here:
            used.append({"deck": rel, "kinds": here})
    return cases, used, {k: v for k, v in taken.items()}


# ---- run / replay -------------------------------------------------------------------------------------------

def _preflight(ctx):
    denom, covered, excluded, uncovered = cat.coverage()
    if len(denom) < 130:
        raise HarnessError("reflection found only %d settable properties (floor 130)" % len(denom))
    if len(covered) < 95:
        raise HarnessError("catalogue covers only %d reflected properties (floor 95)" % len(covered))
    ctx.extra["settable_properties_reflected"] = len(denom)
    ctx.extra["covered"] = len(covered)
    ctx.extra["excluded_decided_elsewhere"] = {k: ["%s.%s" % x for x in v] for k, v in cat.EXCLUDED.items()}
    ctx.extra["uncovered"] = uncovered
    # every kind resolves on its deck, and every catalogued name is an attribute of the located object
    n = 0
    for K in cat.kinds():
        prs = _open(_deck_bytes(K.deck))
        try:
            obj = cat.resolve(prs, K.path)
            cat.part_blob(prs, K.part)
        except Exception as e:
            raise HarnessError("kind %s does not resolve on %s: %r" % (K.name, K.deck, e))
        for P in K.props:
            if not P.getter and not isinstance(getattr(type(obj), P.name, None), property):
                raise HarnessError("%s: %s has no property %s" % (K.name, type(obj).__name__, P.name))
            labels = [v.label for v in P.values]
            if len(labels) != len(set(labels)):
                raise HarnessError("%s.%s: duplicate value labels" % (K.name, P.name))
            n += 1
    ctx.extra["kinds"] = len(cat.kinds())
    ctx.extra["catalogue_entries"] = n


def run(ctx):
    global _SUPPRESS
    thorough = ctx.thorough
    _preflight(ctx)
    for d in sorted({K.deck for K in cat.kinds()}):
        _deck_bytes(d)

    # phase 1: single assignments (+ None-removal), bench then corpus
    p1 = singles(thorough) + none_removed_cases(thorough)
    ccases, used, taken = corpus_cases(thorough)
    for c in ccases:
        _deck_bytes(c["deck"])
    ctx.extra["corpus_decks_used"] = used
    ctx.extra["single_histories"] = len(p1)
    ctx.extra["corpus_histories"] = len(ccases)
    exp_singles = sum(len(P.alphabet(thorough)) for K in cat.kinds() for P in K.settable)
    if len(singles(thorough)) != exp_singles:
        raise HarnessError("single enumeration %d != closed form %d" % (len(singles(thorough)), exp_singles))
    fanout(ctx, _worker, ctx.rotate(p1 + ccases))
    failing = _flush(ctx)
    mark = len(ctx.results)

    # phase 2: sequences; a step failure already reported for the single assignment is not repeated
    _SUPPRESS = frozenset(failing)
    p2 = pairs(thorough)
    exp_pairs = sum(len(_reduced(K, thorough)) ** 2 for K in cat.kinds() if K.pairs)
    if len(p2) != exp_pairs:
        raise HarnessError("pair enumeration %d != closed form %d" % (len(p2), exp_pairs))
    ctx.extra["pair_histories"] = len(p2)
    cq = cross_pairs(cat.CROSS_OBJECT_GROUPS_QUICK, thorough)
    ctx.extra["cross_point_pair_histories"] = len(cq)
    sp = session_pairs(thorough)
    ctx.extra["two_session_pair_histories"] = len(sp)
    tw = twin_pairs(thorough)
    ctx.extra["twin_object_pair_histories"] = len(tw)
    p2 = p2 + cq + sp + tw
    if thorough:
        cp, tr = cross_pairs(cat.CROSS_OBJECT_GROUPS), triples()
        ctx.extra["cross_object_pair_histories"] = len(cp)
        ctx.extra["triple_histories"] = len(tr)
        p2 = p2 + cp + tr
    fanout(ctx, _worker, ctx.rotate(p2))
    _flush(ctx, mark)
    _SUPPRESS = frozenset()
    ctx.results = []

    # phase 3: adjustment sweep over every preset auto-shape type (c09_adj)
    from mc.props import c09_adj
    names = c09_adj.presets()
    fanout(ctx, c09_adj.work, ctx.rotate(names), chunk_size=4, min_parallel=8)
    n_adj_cases = ctx.counters.get("adj_sweep_cases", 0)
    ctx.extra["adjustment_sweep"] = {"presets": len(names), "values": [l for l, _ in c09_adj.VALUES], "cases": n_adj_cases}
    if ctx.counters.get("adj_sweep_presets") != len(names) or n_adj_cases < 4 * 100:
        raise HarnessError("adjustment sweep covered %r presets / %d cases" % (ctx.counters.get("adj_sweep_presets"), n_adj_cases))

    total = len(p1) + len(ccases) + len(p2) + n_adj_cases
    if ctx.counters.get("cases", 0) != total:
        raise HarnessError("executed %s cases, enumerated %d" % (ctx.counters.get("cases"), total))
    ctx.counters["states"] = len(ctx.sets.get("states", ()))
    ctx.sample({"deck": "bench", "history": p1[0]["steps"]})


def replay(data):
    if data.get("kind") == "adj-sweep":
        from mc.props import c09_adj
        return c09_adj.replay(data)
    case, sig = data["case"], data["sig"]
    out = run_case(case)
    for base, in_seq, what, _rank in out.violations:
        if base + ("|in-sequence" if in_seq else "") == sig or base == sig.rsplit("|in-sequence", 1)[0]:
            return what
    return None
