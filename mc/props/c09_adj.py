"""C09, adjustment sweep: `shape.adjustments[i] = v` on EVERY preset auto-shape type that has adjustments, for every
index i and a small value set, on a fresh shape of that type.

The catalogue (c09_catalog) assigns adjustments[0] on one shape type; which adjustments a shape has, their defaults
and the guide formulas written for the ones that are NOT assigned differ per preset (the library re-writes all guides
when one is assigned), so the non-interference and save/re-open clauses are decided here per (preset, index, value):

    before  = readings of all adjustments of a fresh shape                 (no expectation from any table)
    assign  adjustments[i] = v
    rule readback      adjustments[i] reads v to within the quantum 1/100000 (same proxy, a second proxy obtained
                       from slide.shapes, and after save + re-open)
    rule interferes    every other adjustments[k] reads exactly what it read before (same three places)
    rule count         the number of adjustments is unchanged

The preset list is discovered by reflection over MSO_AUTO_SHAPE_TYPE (a member that cannot be added or has no
adjustments is counted, not judged). One deck per preset holds one shape per (i, v); one save per preset.
"""

from __future__ import annotations

import io

QUANTUM = 1.0 / 100000
VALUES = [("half", 0.5), ("zero", 0.0), ("negative", -0.25), ("above-one", 1.5)]


def presets():
    from pptx.enum.shapes import MSO_SHAPE
    return sorted(m.name for m in MSO_SHAPE)


def _read(sh):
    adj = sh.adjustments
    return [adj[k] for k in range(len(adj))]


def eval_preset(name):
    """-> (n_adjustments, n_cases, [(signature, what, case)])"""
    from pptx import Presentation
    from pptx.enum.shapes import MSO_SHAPE
    m = getattr(MSO_SHAPE, name)
    prs = Presentation()
    slide = prs.slides.add_slide(prs.slide_layouts[6])
    try:
        probe = slide.shapes.add_shape(m, 0, 0, 914400, 914400)
        n = len(probe.adjustments)
    except Exception:  # noqa: BLE001   (whether every type can be added is C20's business)
        return 0, 0, []
    if n == 0:
        return 0, 0, []
    out, cases = [], []
    for i in range(n):
        for label, v in VALUES:
            sh = slide.shapes.add_shape(m, 0, 0, 914400, 914400)
            before = _read(sh)
            case = {"preset": name, "index": i, "value": label}
            try:
                sh.adjustments[i] = v
            except Exception as e:  # noqa: BLE001
                out.append(("C09|adj-sweep|raised|%s|%s" % (type(e).__name__, label),
                            "MSO_SHAPE.%s: adjustments[%d] = %r raised %r" % (name, i, v, e), case))
                continue
            cases.append((case, len(slide.shapes) - 1, before, i, v))
            for where, got in (("same proxy", _read(sh)), ("second proxy", _read(list(slide.shapes)[-1]))):
                out.extend(_judge(name, case, where, before, i, v, got))
    buf = io.BytesIO()
    prs.save(buf)
    p2 = Presentation(io.BytesIO(buf.getvalue()))
    shapes = list(p2.slides[0].shapes)
    for case, pos, before, i, v in cases:
        out.extend(_judge(name, case, "after save and re-open", before, i, v, _read(shapes[pos])))
    # one signature per (rule, preset, index, moved index): keep the first message of each
    seen, uniq = set(), []
    for sig, what, case in out:
        if sig not in seen:
            seen.add(sig)
            uniq.append((sig, what, case))
    return n, n * len(VALUES), uniq


def _judge(name, case, where, before, i, v, got):
    out = []
    if len(got) != len(before):
        out.append(("C09|adj-sweep|count|MSO_SHAPE.%s" % name,
                    "MSO_SHAPE.%s: %d adjustments before adjustments[%d] = %r, %d %s" % (name, len(before), i, v, len(got), where), case))
        return out
    if abs(got[i] - v) > QUANTUM * 1.0000001:
        out.append(("C09|adj-sweep|readback|MSO_SHAPE.%s|index=%d|value=%s" % (name, i, case["value"]),
                    "MSO_SHAPE.%s: adjustments[%d] = %r reads %r (%s)" % (name, i, v, got[i], where), case))
    for k, (b, g) in enumerate(zip(before, got)):
        if k != i and b != g:
            out.append(("C09|adj-sweep|interferes|MSO_SHAPE.%s|set=%d|moved=%d" % (name, i, k),
                        "MSO_SHAPE.%s: after adjustments[%d] = %r, adjustments[%d] reads %r, was %r (%s)" % (name, i, v, k, g, b, where), case))
    return out


def work(part, chunk):
    for name in chunk:
        n, ncases, viol = eval_preset(name)
        part.count("adj_sweep_presets")
        part.count("cases", ncases)
        part.count("adj_sweep_cases", ncases)
        part.count("transitions", ncases)
        part.count("traces_validated_against_impl", ncases)
        part.count("nontrivial_count", ncases)
        part.outcome("adjustment-sweep", "no-adjustments" if n == 0 else ("ok" if not viol else "violation"))
        for sig, what, case in viol:
            part.violation(sig, what, {"kind": "adj-sweep", "case": case, "sig": sig})


def replay(data):
    _n, _c, viol = eval_preset(data["case"]["preset"])
    for sig, what, _case in viol:
        if sig == data["sig"]:
            return what
    return None
