"""C20 — enumerations and the preset-shape table agree with the standard.

Bounded-exhaustive enumeration (engine E2, depth 1): the space is finite and is walked completely in
both tiers.

1. ENUM MEMBERS.  Every member of every `BaseXmlEnum` subclass defined in `pptx/enum/*.py` is read
   twice: at run time (`Enum.__members__`) and from the module AST (the literal
   `NAME = (int, xml_value, doc)` assignments).  A name declared in the source that is only an *alias*
   at run time (duplicated integer: `enum` silently folds it into the first member) is a violation
   when the token it declares differs from the token of the member it was folded into (its token
   became unreachable); an alias that declares the same integer AND the same token (KYRGYZ/KIRGHIZ,
   SUTU/SESOTHO: intended synonyms of the MS API) is the same member and is only counted.
   For every run-time member with an xml_value: `to_xml(member)` -> token -> `from_xml(token)` must be
   the very same member (this implies the tokens are pairwise distinct; token sharing is still
   checked separately), and the token must belong to the corresponding XSD simple type: member of its
   `xsd:enumeration` list (mc.oracles.xsd.Index) and, independently, accepted by libxml2
   (SchemaSet.value_ok).  Members without an xml_value (MIXED, CUSTOM ...) are exempt.
   The enum -> ST_* table below is cross-checked against the code: every
   `RequiredAttribute/OptionalAttribute(attr, Enum)` declaration is located (property closures of all
   element classes), the tags the class is registered for are looked up in the XSD index and the
   attribute's declared simple type must be the one in the table (mismatch = harness error, exit 2).
   MSO_CONNECTOR_TYPE has no attribute declaration; its destination is established behaviourally
   (add_connector, bare-lxml parse of the saved slide: the token lands in a:prstGeom/@prst).
   Deviation/weak reading: `a:rPr/@lang` is `s:ST_Lang` = `xsd:string` with no enumeration, so for
   MSO_LANGUAGE_ID "belongs to the simple type" can only mean "is a valid ST_Lang lexical value".

2. PRESET TABLE.  For every MSO_AUTO_SHAPE_TYPE member: it has a row in `pptx.spec.autoshape_types`,
   its prst token names a definition in the standard's presetShapeDefinitions.xml (parsed with bare
   lxml), and the row's avLst (names, order, integer defaults) equals the definition's
   `avLst/gd[@fmla="val N"]`.  Tolerance for the erratum in the standard's own file (two
   `<upDownArrow>`, no `<upArrow>`): a name defined more than once matches ANY same-named definition;
   a name in ST_ShapeType with no definition matches any of the surplus (multiply-defined) ones.

3. ADD/READ BACK.  Every auto-shape type is added to a slide of a fresh deck; `auto_shape_type` must
   be the member and `adjustments` must read the table's defaults / 100000, both on the live shape and
   after save + re-open; the saved slide (bare lxml) must carry the member's token in
   a:prstGeom/@prst.  Every XL_CHART_TYPE member is offered to `add_chart` with data of the matching
   kind (Category / Xy / Bubble) for series counts 1..3 x point counts 1..3; types for which the
   writer raises NotImplementedError are outside the claim (counted); every other one must read back
   the same `chart.chart_type` live and after save + re-open.

4. ADJUSTMENT-DEFAULT HISTORIES (depth 2, run in ONE process — the parent — so that class-level caches would
   show).  For every auto-shape type with adjustments and every adjustment index i:
   (set)    shape 1 of type T is added and gets adjustments[i] = one non-default value; afterwards shape 2 of
            type T is added to the same slide and shape 3 of type T to another, long-lived presentation;
   (loaded) a deck whose slide holds shapes of type T with explicit a:gd guides (written into the saved slide
            XML by this harness with bare lxml; index i non-default) is opened and .adjustments of shape i is
            read; afterwards fresh shapes of type T are added to that deck and to the other presentation.
   Every freshly added shape (empty a:avLst) must still read the table's defaults / 100000.  A final sweep adds
   every auto-shape type once more after all histories (leaks across types).

Signatures: C20|<rule>|<Enum>.<MEMBER>|...
"""

from __future__ import annotations

import ast
import importlib
import io
import os
import pkgutil
import zipfile

from lxml import etree

from mc.core.parallel import fanout
from mc.core.run import HarnessError
from mc.oracles import xsd

LEVEL = "exploration"
RULE = ("every member of every BaseXmlEnum subclass in pptx/enum/*.py (run-time __members__ and module AST, "
        "aliases included); every MSO_AUTO_SHAPE_TYPE member against autoshape_types, presetShapeDefinitions.xml "
        "and an add_shape/save/re-open read-back; every MSO_CONNECTOR_TYPE member through add_connector; every "
        "XL_CHART_TYPE member x series count 1..3 x point count 1..3 through add_chart/save/re-open; every "
        "two-shape history (first shape of type T with adjustment i set / loaded with explicit guides, then a fresh "
        "shape of type T) for every type T and every adjustment index i, all in one process. A case is "
        "non-trivial when it exercises a member that has an xml token (enum cases), a distinct shape type (preset "
        "and shape cases), a chart type the writer accepts (chart cases) or a (type, index, first-shape kind) history whose "
        "first shape really shows the non-default value; distinct by (kind, enum, member[, n, m]).")
ASSUMPTIONS = [
    "the standard is the copy shipped in $VERIF_REPO/spec: transitional XSDs (ISO-IEC-29500-4/xsd) and "
    "ISO-IEC-29500-1 presetShapeDefinitions.xml, read with bare lxml",
    "erratum tolerance: presetShapeDefinitions.xml defines upDownArrow twice and upArrow never; a multiply-defined "
    "name matches any of its definitions, an undefined ST_ShapeType name matches any surplus definition",
    "a:rPr/@lang is s:ST_Lang (xsd:string, no enumeration): language tokens are only checked for lexical validity",
    "source-declared members are read from literal `NAME = (int, token, doc)` assignments in the class body; an "
    "alias that repeats both integer and token of an earlier member is the same member (intended synonym)",
    "chart read-back is demanded only with >= 1 series and >= 1 point per series, data kind matching the chart kind",
]

REPO = xsd.REPO
PRESET_FILE = os.path.join(REPO, "spec", "ISO-IEC-29500-1", "schemas", "dml-geometries",
                           "OfficeOpenXML-DrawingMLGeometries", "presetShapeDefinitions.xml")
NS_A, NS_C, NS_P, NS_S = xsd.NS_A, xsd.NS_C, xsd.NS_P, xsd.NS_S

# enum class name -> XSD simple type of the attribute that carries its tokens
ENUM_ST = {
    "XL_AXIS_CROSSES": (NS_C, "ST_Crosses"),
    "XL_DATA_LABEL_POSITION": (NS_C, "ST_DLblPos"),
    "XL_LEGEND_POSITION": (NS_C, "ST_LegendPos"),
    "XL_MARKER_STYLE": (NS_C, "ST_MarkerStyle"),
    "XL_TICK_MARK": (NS_C, "ST_TickMark"),
    "XL_TICK_LABEL_POSITION": (NS_C, "ST_TickLblPos"),
    "MSO_LINE_DASH_STYLE": (NS_A, "ST_PresetLineDashVal"),
    "MSO_PATTERN_TYPE": (NS_A, "ST_PresetPatternVal"),
    "MSO_THEME_COLOR_INDEX": (NS_A, "ST_SchemeColorVal"),
    "MSO_LANGUAGE_ID": (NS_S, "ST_Lang"),
    "MSO_AUTO_SHAPE_TYPE": (NS_A, "ST_ShapeType"),
    "MSO_CONNECTOR_TYPE": (NS_A, "ST_ShapeType"),
    "PP_PLACEHOLDER_TYPE": (NS_P, "ST_PlaceholderType"),
    "MSO_TEXT_UNDERLINE_TYPE": (NS_A, "ST_TextUnderlineType"),
    "MSO_VERTICAL_ANCHOR": (NS_A, "ST_TextAnchoringType"),
    "PP_PARAGRAPH_ALIGNMENT": (NS_A, "ST_TextAlignType"),
}

FLOOR_ENUMS = 14          # 16 on the pinned tree
FLOOR_XML_MEMBERS = 500   # 553 on the pinned tree
FLOOR_DECLS = 12          # 16 on the pinned tree
FLOOR_SHAPES = 150        # 182
FLOOR_PRESET_DEFS = 150   # 186
FLOOR_CHART_WRITABLE = 20  # 29

SERIES_COUNTS = (1, 2, 3)
POINT_COUNTS = (1, 2, 3)


# ---- discovery --------------------------------------------------------------------------------------

def _enum_modules():
    import pptx.enum as pkg
    names = sorted(mi.name for mi in pkgutil.iter_modules(pkg.__path__))
    return [importlib.import_module("pptx.enum." + n) for n in names]


def xml_enums():
    """[(module name, class)] for every BaseXmlEnum subclass defined (not merely imported/aliased) in pptx.enum.*"""
    from pptx.enum.base import BaseXmlEnum
    out = []
    for m in _enum_modules():
        for k, v in sorted(vars(m).items()):
            if (isinstance(v, type) and issubclass(v, BaseXmlEnum) and v is not BaseXmlEnum
                    and v.__module__ == m.__name__ and v.__name__ == k):
                out.append((m.__name__, v))
    return out


def _enum_by_name(modname, clsname):
    return getattr(importlib.import_module(modname), clsname)


def ast_members(modname, clsname):
    """Members as written in the source: [(name, int, xml_value)], in source order."""
    mod = importlib.import_module(modname)
    with open(mod.__file__, "rb") as f:
        tree = ast.parse(f.read())
    for node in tree.body:
        if isinstance(node, ast.ClassDef) and node.name == clsname:
            out = []
            for st in node.body:
                if not (isinstance(st, ast.Assign) and len(st.targets) == 1 and isinstance(st.targets[0], ast.Name)):
                    continue
                name = st.targets[0].id
                if name.startswith("_"):
                    continue
                try:
                    val = ast.literal_eval(st.value)
                except Exception:
                    raise HarnessError("non-literal member %s.%s in %s" % (clsname, name, mod.__file__))
                if not (isinstance(val, tuple) and len(val) == 3 and isinstance(val[0], int)
                        and (val[1] is None or isinstance(val[1], str))):
                    raise HarnessError("unexpected member literal %s.%s = %r" % (clsname, name, val))
                out.append((name, val[0], val[1]))
            return out
    raise HarnessError("class %s not found in AST of %s" % (clsname, modname))


def attr_declarations():
    """[(element class name, attr name, enum class name, [clark tags])] for every enum-typed attribute declaration."""
    import pptx.oxml as ox
    from pptx.enum.base import BaseXmlEnum
    from pptx.oxml.ns import _nsmap
    from pptx.oxml.xmlchemy import BaseAttribute, BaseOxmlElement

    reg = {}
    for uri in sorted(set(_nsmap.values())):
        ns = ox.element_class_lookup.get_namespace(uri)
        for k, cls in ns.items():
            if k is None:
                continue
            k = k.decode() if isinstance(k, bytes) else k
            reg.setdefault(cls, set()).add("{%s}%s" % (uri, k))

    def subs(c):
        for s in c.__subclasses__():
            yield s
            for t in subs(s):
                yield t

    out, seen = [], set()
    for cls in subs(BaseOxmlElement):
        if cls in seen:
            continue
        seen.add(cls)
        for name, val in sorted(vars(cls).items()):
            if not (isinstance(val, property) and val.fget is not None and val.fget.__closure__):
                continue
            for cell in val.fget.__closure__:
                try:
                    c = cell.cell_contents
                except ValueError:
                    continue
                if (isinstance(c, BaseAttribute) and isinstance(c._simple_type, type)
                        and issubclass(c._simple_type, BaseXmlEnum)):
                    out.append((cls.__name__, c._attr_name, c._simple_type.__name__, sorted(reg.get(cls, ()))))
    return sorted(out)


# ---- the standard ---------------------------------------------------------------------------------------

_STD = {}


def std():
    """Lazily built view of the standard: XSD index, libxml2 schema, preset definitions."""
    if not _STD:
        ix = xsd.Index()
        root = etree.parse(PRESET_FILE).getroot()
        defs = {}
        for el in root:
            if not isinstance(el.tag, str):
                continue
            av = []
            for lst in el.findall("{%s}avLst" % NS_A):
                for gd in lst.findall("{%s}gd" % NS_A):
                    fm = (gd.get("fmla") or "")
                    parts = fm.split()
                    if len(parts) == 2 and parts[0] == "val":
                        try:
                            av.append((gd.get("name"), int(parts[1])))
                            continue
                        except ValueError:
                            pass
                    av.append((gd.get("name"), fm))
            defs.setdefault(etree.QName(el).localname, []).append(tuple(av))
        _STD["ix"] = ix
        _STD["defs"] = defs
        _STD["shape_tokens"] = list(ix.enumeration((NS_A, "ST_ShapeType")) or ())
        _STD["surplus"] = [d for n, ds in sorted(defs.items()) if len(ds) > 1 for d in ds]
        _STD["schema"] = xsd.SchemaSet.get()
    return _STD


def token_in_type(st, tok):
    """(ok, how) — is `tok` a value of simple type st? enumeration list when there is one, else libxml2."""
    s = std()
    enum = s["ix"].enumeration(st)
    lib = bool(s["schema"].value_ok(st, tok))
    if enum is not None:
        ok = tok in enum
        if ok != lib:
            raise HarnessError("XSD index and libxml2 disagree on %r in %s: index=%s libxml2=%s" % (tok, st[1], ok, lib))
        return ok, "enumeration"
    return lib, "lexical"


def _fmt_av(av):
    return ",".join("%s:%s" % (n, v) for n, v in av)


# ---- case functions: each returns [(signature, what)] — shared by run() and replay() -------------------

def case_enum_member(modname, clsname, name):
    """Round trip and schema membership of one run-time member (by canonical name)."""
    E = _enum_by_name(modname, clsname)
    m = E.__members__[name]
    q = "%s.%s" % (clsname, name)
    out = []
    if not m.xml_value:
        return out
    try:
        tok = E.to_xml(m)
    except Exception as e:
        return [("C20|to_xml-raised|%s|%s" % (q, type(e).__name__), "%s.to_xml(%s) raised %r" % (clsname, q, e))]
    if not isinstance(tok, str) or not tok:
        return [("C20|to_xml-not-a-token|%s" % q, "%s.to_xml(%s) = %r" % (clsname, q, tok))]
    try:
        back = E.from_xml(tok)
    except Exception as e:
        out.append(("C20|from_xml-raised|%s|token=%s|%s" % (q, tok, type(e).__name__),
                    "%s.from_xml(%r) raised %r (token of %s)" % (clsname, tok, e, q)))
        back = m
    if back is not m:
        sharers = [x.name for x in E if x.xml_value == m.xml_value]
        out.append(("C20|roundtrip|%s|token=%s|back=%s.%s" % (q, tok, clsname, getattr(back, "name", back)),
                    "%s -> to_xml %r -> from_xml -> %s.%s, not the same member; members carrying this token: %s"
                    % (q, tok, clsname, getattr(back, "name", back), sharers)))
    st = ENUM_ST.get(clsname)
    if st is not None:
        ok, how = token_in_type(st, tok)
        if not ok:
            out.append(("C20|token-not-in-schema|%s|token=%s|%s" % (q, tok, st[1]),
                        "token %r of %s is not a value of %s (%s check); schema values: %s"
                        % (tok, q, st[1], how, std()["ix"].enumeration(st))))
    return out


def case_enum_tokens(modname, clsname):
    """Pairwise distinct tokens (reported only for sharers whose own round trip passes: others are already reported)."""
    E = _enum_by_name(modname, clsname)
    first, out = {}, []
    for m in E:
        if not m.xml_value:
            continue
        if m.xml_value in first:
            try:
                rt = E.from_xml(E.to_xml(m)) is m
            except Exception:
                rt = False
            if rt:
                out.append(("C20|token-shared|%s.%s|token=%s|with=%s" % (clsname, m.name, m.xml_value, first[m.xml_value]),
                            "%s.%s and %s.%s share token %r" % (clsname, m.name, clsname, first[m.xml_value], m.xml_value)))
        else:
            first[m.xml_value] = m.name
    return out


def case_enum_source(modname, clsname):
    """Source-declared members vs run-time members: silent aliases that lose their token."""
    E = _enum_by_name(modname, clsname)
    decl = ast_members(modname, clsname)
    rt = E.__members__
    dn = [d[0] for d in decl]
    if sorted(dn) != sorted(rt):
        raise HarnessError("%s: AST names and run-time names differ: %s" % (
            clsname, sorted(set(dn) ^ set(rt))))
    out = []
    for name, ival, xml in decl:
        m = rt[name]
        if m.name == name:
            if int(m) != ival or (m.xml_value or None) != (xml or None):
                raise HarnessError("%s.%s: AST literal (%r, %r) != run-time (%r, %r)" % (
                    clsname, name, ival, xml, int(m), m.xml_value))
            continue
        # alias
        if xml and xml != m.xml_value:
            try:
                got = E.to_xml(rt[name])
            except Exception as e:
                got = "raised %s" % type(e).__name__
            try:
                bk = E.from_xml(xml).name
            except Exception as e:
                bk = "raised %s" % type(e).__name__
            out.append(("C20|alias-loses-token|%s.%s|token=%s|folded-into=%s.%s" % (clsname, name, xml, clsname, m.name),
                        "%s.%s is declared as (%d, %r) but %d is already %s.%s: at run time it is an alias; "
                        "to_xml gives %r, from_xml(%r) gives %s" % (clsname, name, ival, xml, ival, clsname, m.name,
                                                                   got, xml, bk)))
    return out


def _match_std(prst, table_av):
    """(ok, description of what the standard has)"""
    s = std()
    defs = s["defs"].get(prst)
    if defs:
        return (tuple(table_av) in defs), " / ".join(sorted({_fmt_av(d) for d in defs}))
    if prst in s["shape_tokens"]:
        pool = s["surplus"]
        return (tuple(table_av) in pool), "no <%s> definition; surplus definitions: %s" % (
            prst, " / ".join(sorted({_fmt_av(d) for d in pool})))
    return None, None


def case_preset(name):
    from pptx.enum.shapes import MSO_AUTO_SHAPE_TYPE as E
    from pptx.spec import autoshape_types
    m = E.__members__[name]
    q = "MSO_AUTO_SHAPE_TYPE.%s" % name
    try:
        prst = E.to_xml(m)
    except Exception as e:
        return [("C20|preset-no-token|%s" % q, "%s has no prst token: %r" % (q, e))]
    out = []
    if m not in autoshape_types:
        out.append(("C20|preset-table-missing|%s" % q, "%s has no row in pptx.spec.autoshape_types" % q))
        return out
    row = autoshape_types[m]
    try:
        av = tuple((str(n), int(v)) for n, v in row["avLst"])
    except Exception as e:
        return [("C20|preset-table-malformed|%s" % q, "autoshape_types[%s]['avLst'] = %r (%r)" % (q, row.get("avLst"), e))]
    ok, desc = _match_std(prst, av)
    if ok is None:
        out.append(("C20|prst-not-in-standard|%s|prst=%s" % (q, prst),
                    "prst %r of %s is neither defined in presetShapeDefinitions.xml nor in ST_ShapeType" % (prst, q)))
    elif not ok:
        out.append(("C20|avLst|%s|table=%s|std=%s" % (q, _fmt_av(av), desc),
                    "autoshape_types[%s]['avLst'] = (%s) but the standard's <%s> has (%s)" % (q, _fmt_av(av), prst, desc)))
    return out


def _slide_prsts(blob, shape_tag):
    """prst attribute values of a:prstGeom under every p:<shape_tag> of slide1.xml (bare lxml)."""
    with zipfile.ZipFile(io.BytesIO(blob)) as z:
        names = sorted(n for n in z.namelist() if n.startswith("ppt/slides/slide") and n.endswith(".xml"))
        root = etree.fromstring(z.read(names[0]))
    return [g.get("prst") for sp in root.iter("{%s}%s" % (NS_P, shape_tag)) for g in sp.iter("{%s}prstGeom" % NS_A)]


def _new_slide():
    from pptx import Presentation
    prs = Presentation()
    slide = prs.slides.add_slide(prs.slide_layouts[6])
    return prs, slide


def case_shape(name, part=None):
    from pptx import Presentation
    from pptx.enum.shapes import MSO_AUTO_SHAPE_TYPE as E
    from pptx.spec import autoshape_types
    m = E.__members__[name]
    q = "MSO_AUTO_SHAPE_TYPE.%s" % name
    prs, slide = _new_slide()
    try:
        shape = slide.shapes.add_shape(m, 914400, 914400, 914400, 914400)
    except Exception as e:
        return [("C20|add_shape-raised|%s|%s" % (q, type(e).__name__), "add_shape(%s) raised %r" % (q, e))]
    row = autoshape_types.get(m)
    exp_adj = [v / 100000.0 for _, v in row["avLst"]] if row is not None else None
    out = []

    def look(shape, stage, seen):
        """`seen`: failure signatures of the live stage; the re-opened stage reports only what is new."""
        sfx = "" if stage == "live" else "|after-reopen"
        found = []
        try:
            got = shape.auto_shape_type
        except Exception as e:
            found.append(("C20|shape-readback-raised|%s|%s" % (q, type(e).__name__),
                          "auto_shape_type of a %s added by add_shape raised %r (%s)" % (q, e, stage)))
            got = None
        else:
            if got is not m:
                found.append(("C20|shape-readback|%s|got=%s" % (q, getattr(got, "name", got)),
                              "add_shape(%s) reads back auto_shape_type %r (%s)" % (q, got, stage)))
        if exp_adj is not None:
            try:
                adj = [shape.adjustments[i] for i in range(len(shape.adjustments))]
            except Exception as e:
                found.append(("C20|adj-readback-raised|%s|%s" % (q, type(e).__name__),
                              "adjustments of a fresh %s raised %r (%s)" % (q, e, stage)))
            else:
                if adj != exp_adj:
                    found.append(("C20|adj-readback|%s|got=%s|table=%s" % (q, adj, exp_adj),
                                  "fresh %s: adjustments %r, table defaults normalised %r (%s)" % (q, adj, exp_adj, stage)))
                if part is not None:
                    part.outcome("add_shape.len(adjustments)", str(len(adj)))
        for sig, what in found:
            if sig not in seen:
                out.append((sig + sfx, what))
        return {sig for sig, _ in found}

    live = look(shape, "live", set())
    buf = io.BytesIO()
    prs.save(buf)
    blob = buf.getvalue()
    prsts = _slide_prsts(blob, "sp")
    if prsts != [m.xml_value]:
        out.append(("C20|shape-saved-prst|%s|got=%s" % (q, prsts),
                    "saved slide carries prst %r for %s (token %r)" % (prsts, q, m.xml_value)))
    prs2 = Presentation(io.BytesIO(blob))
    shapes2 = list(prs2.slides[0].shapes)
    if len(shapes2) != 1:
        out.append(("C20|shape-reopen-count|%s" % q, "%d shapes after re-open" % len(shapes2)))
    else:
        look(shapes2[0], "reopened", live)
    return out


def case_connector(name):
    from pptx.enum.shapes import MSO_CONNECTOR_TYPE as E
    m = E.__members__[name]
    q = "MSO_CONNECTOR_TYPE.%s" % name
    prs, slide = _new_slide()
    try:
        slide.shapes.add_connector(m, 0, 0, 914400, 914400)
    except Exception as e:
        return [("C20|add_connector-raised|%s|%s" % (q, type(e).__name__), "add_connector(%s) raised %r" % (q, e))]
    buf = io.BytesIO()
    prs.save(buf)
    prsts = _slide_prsts(buf.getvalue(), "cxnSp")
    out = []
    if prsts != [m.xml_value]:
        out.append(("C20|connector-saved-prst|%s|got=%s" % (q, prsts),
                    "saved connector carries prst %r for %s (token %r)" % (prsts, q, m.xml_value)))
    for p in prsts:
        if p not in std()["shape_tokens"]:
            out.append(("C20|token-not-in-schema|%s|token=%s|ST_ShapeType" % (q, p),
                        "connector prst %r written for %s is not in ST_ShapeType" % (p, q)))
    return out


def _chart_data(name, nser, npts):
    from pptx.chart.data import BubbleChartData, CategoryChartData, XyChartData
    if name.startswith("BUBBLE"):
        cd = BubbleChartData()
        for s in range(nser):
            ser = cd.add_series("S%d" % (s + 1))
            for p in range(npts):
                ser.add_data_point(1.0 + p, 2.0 + s + p, 3.0 + p)
        return cd, "bubble"
    if name.startswith("XY_"):
        cd = XyChartData()
        for s in range(nser):
            ser = cd.add_series("S%d" % (s + 1))
            for p in range(npts):
                ser.add_data_point(1.0 + p, 2.0 + s + p)
        return cd, "xy"
    cd = CategoryChartData()
    cd.categories = ["c%d" % (p + 1) for p in range(npts)]
    for s in range(nser):
        cd.add_series("S%d" % (s + 1), [1.5 + s + p for p in range(npts)])
    return cd, "category"


def case_chart(name, nser, npts, part=None):
    """Returns (status, failures): status 'unsupported' | 'ok'."""
    from pptx import Presentation
    from pptx.enum.chart import XL_CHART_TYPE as E
    m = E.__members__[name]
    q = "XL_CHART_TYPE.%s" % name
    tag = q  # the (series, points) witness is in the message and the replay record, smallest first
    cd, kind = _chart_data(name, nser, npts)
    prs, slide = _new_slide()
    try:
        gf = slide.shapes.add_chart(m, 0, 0, 4000000, 3000000, cd)
    except NotImplementedError:
        return "unsupported", []
    except Exception as e:
        return "ok", [("C20|add_chart-raised|%s|%s" % (tag, type(e).__name__),
                       "add_chart(%s, %s data, %d series x %d points) raised %r" % (q, kind, nser, npts, e))]
    out = []

    def look(chart, stage, seen):
        sfx = "" if stage == "live" else "|after-reopen"
        found = []
        try:
            got = chart.chart_type
        except Exception as e:
            found.append(("C20|chart-readback-raised|%s|%s" % (tag, type(e).__name__),
                          "chart_type of a fresh %s chart raised %r (%s)" % (q, e, stage)))
        else:
            if part is not None:
                part.outcome("chart_type", getattr(got, "name", str(got)))
            if got is not m:
                found.append(("C20|chart-readback|%s|got=%s" % (tag, getattr(got, "name", got)),
                              "add_chart(%s) with %d series x %d points reads back chart_type %r (%s)"
                              % (q, nser, npts, got, stage)))
        for sig, what in found:
            if sig not in seen:
                out.append((sig + sfx, what))
        return {sig for sig, _ in found}

    live = look(gf.chart, "live", set())
    buf = io.BytesIO()
    prs.save(buf)
    prs2 = Presentation(io.BytesIO(buf.getvalue()))
    charts = [s.chart for s in prs2.slides[0].shapes if getattr(s, "has_chart", False)]
    if len(charts) != 1:
        out.append(("C20|chart-reopen-count|%s" % tag, "%d charts after re-open" % len(charts)))
    else:
        look(charts[0], "reopened", live)

    # Formatting ONE data point does not make the chart another type: hide the marker of a point, give it a line
    # width (point-level c:dPt content, public API only), then read the type again, live and after re-open.
    edited = False
    try:
        from pptx.enum.chart import XL_MARKER_STYLE
        from pptx.util import Pt
        for plot in gf.chart.plots:
            for ser in list(plot.series)[:1]:
                pts = ser.points
                if len(pts):
                    pt = pts[len(pts) - 1]
                    pt.marker.style = XL_MARKER_STYLE.NONE
                    pt.format.line.width = Pt(1)
                    edited = True
                # ... nor does the OUTLINE of the series' markers (it is not the series' line)
                if hasattr(ser, "marker"):
                    ser.marker.format.line.fill.background()
    except Exception as e:  # noqa: BLE001   (what point formatting accepts is C09's business)
        if part is not None:
            part.outcome("chart_type.point-edit", "raised:%s" % type(e).__name__)
        edited = False
    if edited:
        if part is not None:
            part.outcome("chart_type.point-edit", "applied")
        seen0 = set(live)
        n0 = len(out)
        after = look(gf.chart, "after formatting one point", seen0)
        buf = io.BytesIO()
        prs.save(buf)
        prs3 = Presentation(io.BytesIO(buf.getvalue()))
        charts = [s.chart for s in prs3.slides[0].shapes if getattr(s, "has_chart", False)]
        if len(charts) == 1:
            look(charts[0], "after formatting one point, re-opened", seen0 | after)
        out[n0:] = [(sig.replace("|after-reopen", "") + "|after-point-format", what) for sig, what in out[n0:]]

    # The enumeration is an int enumeration: its plain integer value is EQUAL to the member (same hash). A call that
    # accepts the integer (stored configurations, `int(chart.chart_type)`) must make the same type of chart; a refusal
    # is fine (only members are documented).
    try:
        cd2, _ = _chart_data(name, nser, npts)
        gf2 = _other_slide_of(prs).shapes.add_chart(int(m), 0, 0, 4000000, 3000000, cd2)
        got = gf2.chart.chart_type
    except Exception as e:  # noqa: BLE001
        if part is not None:
            part.outcome("add_chart(int value)", "refused:%s" % type(e).__name__)
    else:
        if part is not None:
            part.outcome("add_chart(int value)", "accepted")
        if got is not m and not live:
            out.append(("C20|chart-readback|%s|given-by-int-value|got=%s" % (tag, getattr(got, "name", got)),
                        "add_chart(%d) - the integer value of %s, equal to the member - with %d series x %d points "
                        "reads back chart_type %r" % (int(m), q, nser, npts, got)))
    return "ok", out


def _other_slide_of(prs):
    return prs.slides.add_slide(prs.slide_layouts[6])


# ---- adjustment-default histories (class-level caches) ------------------------------------------------

NONDEFAULT_DELTA = 1234   # raw units added to the default of the adjustment under test

_OTHER = {}


def _other_slide():
    """A long-lived second presentation of this process: fresh shapes are also added here."""
    if "slide" not in _OTHER or _OTHER.get("pid") != os.getpid():
        prs, slide = _new_slide()
        _OTHER.update(prs=prs, slide=slide, pid=os.getpid())
    return _OTHER["slide"]


def _table_row(name):
    from pptx.enum.shapes import MSO_AUTO_SHAPE_TYPE as E
    from pptx.spec import autoshape_types
    m = E.__members__[name]
    row = autoshape_types.get(m)
    return m, (tuple((str(n), int(v)) for n, v in row["avLst"]) if row is not None else ())


def _fresh_reads_defaults(slide, m, av, where):
    """Add a fresh shape of type m to `slide`; return a failure description or None."""
    exp = [v / 100000.0 for _, v in av]
    sh = slide.shapes.add_shape(m, 914400, 914400, 914400, 914400)
    got = [sh.adjustments[i] for i in range(len(sh.adjustments))]
    if got != exp:
        return "fresh shape added to %s reads adjustments %r, table defaults normalised %r" % (where, got, exp)
    return None


def _deck_with_guides(m, av, form="full"):
    """Bytes of a deck whose only slide holds len(av) shapes of type m; shape k carries explicit a:gd guides for
    all adjustments, the k-th one non-default. The guides are written by this harness (bare lxml + own zip writer)."""
    from mc.drivers.fixtures import write_zip, zip_members
    prs, slide = _new_slide()
    for _ in av:
        slide.shapes.add_shape(m, 914400, 914400, 914400, 914400)
    buf = io.BytesIO()
    prs.save(buf)
    members = zip_members(buf.getvalue())
    sname = sorted(n for n in members if n.startswith("ppt/slides/slide") and n.endswith(".xml"))[0]
    root = etree.fromstring(members[sname])
    sps = list(root.iter("{%s}sp" % NS_P))
    if len(sps) != len(av):
        raise HarnessError("guides deck: %d p:sp for %d shapes" % (len(sps), len(av)))
    for k, sp in enumerate(sps):
        geom = next(sp.iter("{%s}prstGeom" % NS_A))
        avl = geom.find("{%s}avLst" % NS_A)
        if avl is None:
            avl = etree.SubElement(geom, "{%s}avLst" % NS_A)
        listed = list(enumerate(av))
        if form == "reversed":      # a guide is identified by its NAME; the order of a:gd in a:avLst is free
            listed.reverse()
        elif form == "partial":     # only the adjusted guide is stored; the others keep the definition's default
            listed = [(j, x) for j, x in listed if j == k]
        for j, (gname, val) in listed:
            gd = etree.SubElement(avl, "{%s}gd" % NS_A)
            gd.set("name", gname)
            gd.set("fmla", "val %d" % (val + NONDEFAULT_DELTA if j == k else val))
    order = list(members)
    members[sname] = etree.tostring(root, xml_declaration=True, encoding="UTF-8", standalone=True)
    return write_zip(members, order)


def case_history_set(name, i, part=None):
    """Shape 1 of the type gets adjustments[i] = non-default; fresh shapes added afterwards read the defaults."""
    m, av = _table_row(name)
    q = "MSO_AUTO_SHAPE_TYPE.%s" % name
    prs, slide = _new_slide()
    first = slide.shapes.add_shape(m, 914400, 914400, 914400, 914400)
    v = (av[i][1] + NONDEFAULT_DELTA) / 100000.0
    first.adjustments[i] = v
    took = first.adjustments[i] != av[i][1] / 100000.0
    if part is not None:
        part.outcome("history.first-shape-shows-nondefault", "set:%s" % took)
        if took:
            part.add("nontrivial", ("history", "set", name, i))
    for sl, where in ((slide, "the same slide"), (_other_slide(), "another presentation")):
        msg = _fresh_reads_defaults(sl, m, av, where)
        if msg:
            return [("C20|adj-history|%s|first=set" % q,
                     "after a %s had adjustments[%d] set to %r: %s" % (q, i, v, msg))]
    return []


def case_history_loaded(name, i, part=None, deck=None, form="full"):
    """Shape i of a loaded deck carries explicit guides (index i non-default); fresh shapes added after its
    .adjustments were read still read the defaults."""
    from pptx import Presentation
    m, av = _table_row(name)
    q = "MSO_AUTO_SHAPE_TYPE.%s" % name
    blob = deck if deck is not None else _deck_with_guides(m, av, form)
    prs = Presentation(io.BytesIO(blob))
    slide = prs.slides[0]
    loaded = list(slide.shapes)[i]
    got = [loaded.adjustments[k] for k in range(len(loaded.adjustments))]
    took = len(got) > i and got[i] == (av[i][1] + NONDEFAULT_DELTA) / 100000.0
    if form != "full":
        # the guide named like the i-th adjustment of the definition IS that adjustment, wherever it stands in a:avLst
        want = [(v + (NONDEFAULT_DELTA if j == i else 0)) / 100000.0 for j, (_, v) in enumerate(av)]
        if got != want:
            return [("C20|adj-stored-guides|%s|form=%s" % (q, form),
                     "a loaded %s whose a:avLst is %s (guide %s = %d) reads adjustments %r, by name %r"
                     % (q, "in reverse order" if form == "reversed" else "partial: only the adjusted guide",
                        av[i][0], av[i][1] + NONDEFAULT_DELTA, got, want))]
    if part is not None:
        part.outcome("history.first-shape-shows-nondefault", "loaded:%s" % took)
        if took:
            part.add("nontrivial", ("history", "loaded", name, i))
    for sl, where in ((slide, "the loaded slide"), (_other_slide(), "another presentation")):
        msg = _fresh_reads_defaults(sl, m, av, where)
        if msg:
            return [("C20|adj-history|%s|first=loaded" % q,
                     "after a loaded %s with explicit guides (adjustment %d = %d) had its adjustments read (%r): %s"
                     % (q, i, av[i][1] + NONDEFAULT_DELTA, got, msg))]
    return []


def case_history_sweep(name):
    m, av = _table_row(name)
    msg = _fresh_reads_defaults(_other_slide(), m, av, "another presentation")
    if msg:
        return [("C20|adj-history|MSO_AUTO_SHAPE_TYPE.%s|first=other-types" % name,
                 "after the histories of all auto-shape types: %s" % msg)]
    return []


def run_histories(part, names, emit=True):
    """The whole family, in this process, fixed order inside a type (set 0..n-1, loaded 0..n-1). Returns the
    names that failed their own history."""
    failed = set()
    for name in names:
        m, av = _table_row(name)
        if not av:
            continue
        deck = None
        decks = {}
        kinds = ("set", "loaded") + (("loaded-reversed", "loaded-partial") if len(av) >= 2 else ())
        for kind in kinds:
            for i in range(len(av)):
                part.count("evaluations")
                part.count("adjustment_history_cases")
                try:
                    if kind == "set":
                        fails = case_history_set(name, i, part)
                    elif kind != "loaded":
                        form = kind.split("-")[1]
                        if form not in decks:
                            decks[form] = _deck_with_guides(m, av, form)
                        fails = case_history_loaded(name, i, part, decks[form], form)
                    else:
                        if deck is None:
                            deck = _deck_with_guides(m, av)
                        fails = case_history_loaded(name, i, part, deck)
                except HarnessError:
                    raise
                except Exception as e:  # noqa: BLE001   the library raised inside a plain add_shape / adjustment history
                    fails = [("C20|adj-history-raised|MSO_AUTO_SHAPE_TYPE.%s|first=%s|%s" % (name, kind, type(e).__name__),
                              "the %s history of adjustment %d of %s raised %r" % (kind, i, name, e))]
                if fails:
                    failed.add(name)
                if emit:
                    _emit(part, fails, {"kind": "history", "first": kind, "member": name, "index": i})
    return failed


# ---- workers ------------------------------------------------------------------------------------------

def _emit(part, fails, data):
    for sig, what in fails:
        d = dict(data)
        d["sig"] = sig
        part.violation(sig, what, d)


def _w_shapes(part, chunk):
    for name in chunk:
        part.count("evaluations")
        part.count("shape_readbacks")
        _emit(part, case_shape(name, part), {"kind": "shape", "member": name})
        part.add("nontrivial", ("shape", name))


def _w_one_slide(part, chunk):
    n, fails = case_charts_on_one_slide()
    part.count("evaluations")
    part.count("charts_on_one_slide", n)
    part.outcome("charts-on-one-slide", "ok" if not fails else "violation")
    _emit(part, fails, {"kind": "charts-on-one-slide"})


def _w_charts(part, chunk):
    # one item = one chart type; its (series, points) grid is walked smallest first so that the witness kept
    # for a signature is the minimal one whatever the seed
    for name in chunk:
        for nser in SERIES_COUNTS:
            for npts in POINT_COUNTS:
                part.count("evaluations")
                part.count("chart_cases")
                status, fails = case_chart(name, nser, npts, part)
                part.outcome("add_chart", status)
                if status == "unsupported":
                    part.add("chart_types_unsupported", name)
                    continue
                part.add("chart_types_writable", name)
                part.count("chart_readbacks")
                part.add("nontrivial", ("chart", name, nser, npts))
                _emit(part, fails, {"kind": "chart", "member": name, "nser": nser, "npts": npts})


def case_charts_on_one_slide():
    """Every writable chart type added to ONE slide; then each chart, the earlier ones included, is read back (live
    and after re-open): a chart is found through its own graphic frame, whatever other charts the slide holds."""
    from pptx import Presentation
    from pptx.enum.chart import XL_CHART_TYPE as E
    prs, slide = _new_slide()
    added = []
    for name in sorted(E.__members__):
        cd, _kind = _chart_data(name, 2, 3)
        try:
            slide.shapes.add_chart(E.__members__[name], 0, 0, 4000000, 3000000, cd)
        except NotImplementedError:
            continue
        except Exception:  # noqa: BLE001   (reported by the per-type cases)
            continue
        added.append(name)
    out = []

    def look(sl, stage):
        frames = [s for s in sl.shapes if getattr(s, "has_chart", False)]
        if len(frames) != len(added):
            out.append(("C20|charts-on-one-slide|count", "%d charts added to one slide, %d found (%s)" % (len(added), len(frames), stage)))
            return
        for name, fr in zip(added, frames):
            try:
                got = fr.chart.chart_type
            except Exception as e:  # noqa: BLE001
                out.append(("C20|charts-on-one-slide|raised|XL_CHART_TYPE.%s|%s" % (name, type(e).__name__),
                            "chart_type of the %s chart on a slide with %d charts raised %r (%s)" % (name, len(added), e, stage)))
                continue
            if got is not E.__members__[name]:
                out.append(("C20|charts-on-one-slide|XL_CHART_TYPE.%s|got=%s" % (name, getattr(got, "name", got)),
                            "the chart added as %s on a slide holding %d charts reads back %r (%s)" % (name, len(added), got, stage)))
    look(slide, "live")
    buf = io.BytesIO()
    prs.save(buf)
    look(Presentation(io.BytesIO(buf.getvalue())).slides[0], "re-opened")
    seen, uniq = set(), []
    for sig, what in out:
        if sig not in seen:
            seen.add(sig)
            uniq.append((sig, what))
    return len(added), uniq


# ---- run ------------------------------------------------------------------------------------------------

def run(ctx):
    s = std()
    if len(s["defs"]) < FLOOR_PRESET_DEFS or len(s["shape_tokens"]) < FLOOR_PRESET_DEFS:
        raise HarnessError("standard not read: %d preset definitions, %d ST_ShapeType tokens" % (
            len(s["defs"]), len(s["shape_tokens"])))
    for cname, st in sorted(ENUM_ST.items()):
        if st not in s["ix"].stypes:
            raise HarnessError("simple type %s (for %s) not in the XSD index" % (st[1], cname))

    enums = xml_enums()
    if len(enums) < FLOOR_ENUMS:
        raise HarnessError("only %d BaseXmlEnum subclasses discovered" % len(enums))
    unmapped = [c.__name__ for _, c in enums if c.__name__ not in ENUM_ST]
    if unmapped:
        raise HarnessError("enum(s) without an ST_* mapping in this check: %s" % unmapped)

    # -- the enum -> ST_* table against the code's attribute declarations and the XSD index ------------
    decls = attr_declarations()
    if len(decls) < FLOOR_DECLS:
        raise HarnessError("only %d enum-typed attribute declarations discovered" % len(decls))
    seen_decl = set()
    for ecls, attr, enum_name, tags in decls:
        ctx.count("attr_declarations_crosschecked")
        if not tags:
            continue
        found = set()
        for tag in tags:
            for t in sorted(s["ix"].tag_types.get(tag, ())):
                a = s["ix"].attrs(t).get(attr)
                if a is not None and a[0] is not None:
                    found.add(a[0])
        if not found:
            raise HarnessError("%s.%s (%s): attribute not found in the schema for tags %s" % (ecls, attr, enum_name, tags))
        if found != {ENUM_ST.get(enum_name)}:
            raise HarnessError("%s.%s uses %s; schema says %s, table says %s" % (
                ecls, attr, enum_name, sorted(found), ENUM_ST.get(enum_name)))
        seen_decl.add(enum_name)
    ctx.extra["enums_crosschecked_by_declaration"] = sorted(seen_decl)
    ctx.extra["enums_without_declaration"] = sorted(set(c.__name__ for _, c in enums) - seen_decl)

    # -- 1. enum members --------------------------------------------------------------------------------
    n_xml = n_exempt = n_alias = n_decl = 0
    per_enum, samples = {}, {}
    for modname, E in ctx.rotate(enums):
        cname = E.__name__
        ctx.count("evaluations")
        ctx.count("enum_source_checks")
        _emit(ctx, case_enum_source(modname, cname), {"kind": "enum_source", "module": modname, "enum": cname})
        n_decl += len(ast_members(modname, cname))
        n_alias += sum(1 for k, m in E.__members__.items() if m.name != k)
        ctx.count("evaluations")
        ctx.count("enum_token_set_checks")
        _emit(ctx, case_enum_tokens(modname, cname), {"kind": "enum_tokens", "module": modname, "enum": cname})
        members = ctx.rotate(list(E))
        per_enum[cname] = [len(members), sum(1 for m in members if m.xml_value)]
        for m in members:
            ctx.count("evaluations")
            ctx.count("enum_member_checks")
            if not m.xml_value:
                n_exempt += 1
                continue
            n_xml += 1
            ctx.outcome("to_xml:" + cname, m.xml_value)
            _emit(ctx, case_enum_member(modname, cname, m.name),
                  {"kind": "enum", "module": modname, "enum": cname, "member": m.name})
            ctx.add("nontrivial", ("enum", cname, m.name))
        first = next((m for m in E if m.xml_value), None)
        samples[cname] = {"enum": cname, "members": len(members), "member": first and first.name,
                          "token": first and first.xml_value, "simple_type": ENUM_ST[cname][1]}
    for cname in sorted(samples)[:5]:
        ctx.sample(samples[cname])
    if n_xml < FLOOR_XML_MEMBERS:
        raise HarnessError("only %d members with an xml token" % n_xml)
    ctx.extra.update(enums=len(enums), members_with_token=n_xml, members_exempt_no_token=n_exempt,
                     source_declared_members=n_decl, runtime_aliases=n_alias, per_enum_members_tokens=per_enum)
    if n_decl != n_xml + n_exempt + n_alias:
        raise HarnessError("declared %d != canonical %d + aliases %d" % (n_decl, n_xml + n_exempt, n_alias))

    # -- 2. preset table --------------------------------------------------------------------------------
    from pptx.enum.chart import XL_CHART_TYPE
    from pptx.enum.shapes import MSO_AUTO_SHAPE_TYPE, MSO_CONNECTOR_TYPE
    shapes = [m.name for m in MSO_AUTO_SHAPE_TYPE]
    if len(shapes) < FLOOR_SHAPES:
        raise HarnessError("only %d auto shape types" % len(shapes))
    for name in ctx.rotate(shapes):
        ctx.count("evaluations")
        ctx.count("preset_table_checks")
        _emit(ctx, case_preset(name), {"kind": "preset", "member": name})
        ctx.add("nontrivial", ("preset", name))
    from pptx.spec import autoshape_types
    extra_rows = [str(k) for k in autoshape_types if not isinstance(k, MSO_AUTO_SHAPE_TYPE)]
    if extra_rows:
        raise HarnessError("autoshape_types has keys that are not MSO_AUTO_SHAPE_TYPE members: %s" % extra_rows)
    ctx.sample({"preset": "ROUNDED_RECTANGLE", "table": _fmt_av(autoshape_types[MSO_AUTO_SHAPE_TYPE.ROUNDED_RECTANGLE]["avLst"]),
                "standard": [_fmt_av(d) for d in s["defs"].get("roundRect", [])]})
    multi = sorted(n for n, d in s["defs"].items() if len(d) > 1)
    ctx.extra.update(preset_definitions=sum(len(d) for d in s["defs"].values()), preset_names_defined_twice=multi,
                     shape_tokens_without_definition=sorted(t for t in s["shape_tokens"] if t not in s["defs"]),
                     shape_tokens_without_member=sorted(
                         t for t in s["shape_tokens"] if t not in {m.xml_value for m in MSO_AUTO_SHAPE_TYPE}))

    # -- 3. add / read back -----------------------------------------------------------------------------
    fanout(ctx, _w_shapes, ctx.rotate(shapes), min_parallel=8)
    for m in ctx.rotate(list(MSO_CONNECTOR_TYPE)):
        if not m.xml_value:
            continue
        ctx.count("evaluations")
        ctx.count("connector_checks")
        _emit(ctx, case_connector(m.name), {"kind": "connector", "member": m.name})
        ctx.add("nontrivial", ("connector", m.name))

    chart_names = [m.name for m in XL_CHART_TYPE]
    n_chart_cases = len(chart_names) * len(SERIES_COUNTS) * len(POINT_COUNTS)
    fanout(ctx, _w_charts, ctx.rotate(chart_names), chunk_size=2, min_parallel=8)
    fanout(ctx, _w_one_slide, ["all"], chunk_size=1, min_parallel=1)
    writable = ctx.sets.get("chart_types_writable", set())
    unsupported = ctx.sets.get("chart_types_unsupported", set())
    if writable & unsupported:
        raise HarnessError("chart types both writable and unsupported: %s" % sorted(writable & unsupported))
    if len(writable) < FLOOR_CHART_WRITABLE:
        raise HarnessError("only %d writable chart types" % len(writable))
    ctx.extra.update(chart_types=len(chart_names), chart_types_writable_names=sorted(writable))
    ctx.sample({"chart": "PIE", "series": 2, "points": 3, "expected_chart_type": "PIE"})

    # -- 4. two-shape histories, all in this (parent) process ---------------------------------------------
    failed = run_histories(ctx, ctx.rotate(shapes))
    for name in sorted(shapes):
        ctx.count("evaluations")
        ctx.count("adjustment_history_sweep")
        fails = case_history_sweep(name)
        if name not in failed:   # a type that failed its own history is already reported (and stays polluted)
            _emit(ctx, fails, {"kind": "history", "first": "other-types", "member": name, "index": -1})
    n_hist = sum((4 if len(_table_row(n)[1]) >= 2 else 2) * len(_table_row(n)[1]) for n in shapes)
    shown = ctx.outcomes.get("history.first-shape-shows-nondefault", set())
    if not {"set:True", "loaded:True"} <= shown:
        raise HarnessError("history family vacuous: first shapes never showed the non-default value (%s)" % sorted(shown))
    ctx.extra.update(adjustment_history_types=sum(1 for n in shapes if _table_row(n)[1]),
                     adjustment_history_cases_closed_form=n_hist)
    ctx.sample({"history": "set", "type": "ROUNDED_RECTANGLE", "index": 0,
                "first_shape_value": (16667 + NONDEFAULT_DELTA) / 100000.0, "fresh_shape_must_read": [0.16667]})

    # -- 5. PowerPoint-authored charts whose type the repository's acceptance spec documents ------------------
    acc = acceptance_chart_types()
    if len(acc) < 25:
        raise HarnessError("only %d documented chart types parsed from features/" % len(acc))
    for lab, ((si, hi), expected) in sorted(acc.items()):
        ctx.count("evaluations")
        ctx.count("authored_chart_cases")
        _emit(ctx, case_acceptance_chart(lab, si, hi, expected), {"kind": "authored-chart", "label": lab, "slide": si, "shape": hi, "expected": expected})
        ctx.add("nontrivial", ("authored-chart", expected))
    ctx.extra["authored_chart_types"] = sorted(v[1] for v in acc.values())

    # -- closed form ------------------------------------------------------------------------------------
    n_conn = sum(1 for m in MSO_CONNECTOR_TYPE if m.xml_value)
    expect = (2 * len(enums) + n_xml + n_exempt) + 2 * len(shapes) + n_conn + n_chart_cases + 1 + n_hist + len(shapes) + len(acc)   # + 1: all writable charts on one slide
    if ctx.counters["evaluations"] != expect:
        raise HarnessError("evaluations %d != closed form %d" % (ctx.counters["evaluations"], expect))
    ctx.extra["closed_form_size"] = expect


# ---- 5. PowerPoint-authored charts of documented type (incl. the chart types the library cannot write) --------

def acceptance_chart_types():
    """(label -> expected XL_CHART_TYPE member name) from features/cht-chart.feature and (label -> (slide, shape))
    from features/steps/chart.py: the repository's own acceptance specification of what each chart of the
    PowerPoint-authored deck cht-chart-type.pptx is. Parsed as text; nothing is imported from features/."""
    import os
    import re
    repo = os.environ.get("VERIF_REPO", "/repo")
    feat = open(os.path.join(repo, "features", "cht-chart.feature")).read()
    steps = open(os.path.join(repo, "features", "steps", "chart.py")).read()
    exp = {}
    m = re.search(r"Examples: chart types\n(.*?)\n\s*\n", feat, re.S)
    if m:
        for line in m.group(1).splitlines():
            cells = [c.strip() for c in line.strip().strip("|").split("|")]
            if len(cells) == 2 and cells[0] != "chart-type":
                exp[cells[0]] = cells[1]
    loc = {}
    m = re.search(r"def given_a_chart_of_type_chart_type.*?\{(.*?)\}\[chart_type\]", steps, re.S)
    if m:
        for lab, a, b in re.findall(r'"([^"]+)":\s*\((\d+),\s*(\d+)\)', m.group(1)):
            loc[lab] = (int(a), int(b))
    return {lab: (loc[lab], exp[lab]) for lab in exp if lab in loc}


def case_acceptance_chart(label, slide_idx, shape_idx, expected):
    import os
    from pptx import Presentation
    repo = os.environ.get("VERIF_REPO", "/repo")
    prs = Presentation(os.path.join(repo, "features", "steps", "test_files", "cht-chart-type.pptx"))
    try:
        got = prs.slides[slide_idx].shapes[shape_idx].chart.chart_type
    except Exception as e:  # noqa: BLE001
        return [("C20|authored-chart-readback-raised|%s|%s" % (expected, type(e).__name__),
                 "cht-chart-type.pptx slide %d shape %d (%s): chart_type raised %r" % (slide_idx, shape_idx, label, e))]
    name = getattr(got, "name", str(got))
    if name != expected:
        return [("C20|authored-chart-readback|XL_CHART_TYPE.%s|got=%s" % (expected, name),
                 "cht-chart-type.pptx slide %d shape %d is documented as '%s' (%s) but reads chart_type %s" % (
                     slide_idx, shape_idx, label, expected, name))]
    return []


# ---- replay ---------------------------------------------------------------------------------------------

def replay(data):
    k = data["kind"]
    if k == "enum":
        fails = case_enum_member(data["module"], data["enum"], data["member"])
    elif k == "enum_tokens":
        fails = case_enum_tokens(data["module"], data["enum"])
    elif k == "enum_source":
        fails = case_enum_source(data["module"], data["enum"])
    elif k == "preset":
        fails = case_preset(data["member"])
    elif k == "shape":
        fails = case_shape(data["member"])
    elif k == "connector":
        fails = case_connector(data["member"])
    elif k == "chart":
        fails = case_chart(data["member"], data["nser"], data["npts"])[1]
    elif k == "charts-on-one-slide":
        fails = case_charts_on_one_slide()[1]
    elif k == "authored-chart":
        fails = case_acceptance_chart(data["label"], data["slide"], data["shape"], data["expected"])
    elif k == "history":
        if data["first"] == "set":
            fails = case_history_set(data["member"], data["index"])
        elif data["first"] == "loaded":
            fails = case_history_loaded(data["member"], data["index"])
        elif data["first"].startswith("loaded-"):
            fails = case_history_loaded(data["member"], data["index"], form=data["first"].split("-")[1])
        else:
            # a leak across types needs the whole family as its history
            from pptx.enum.shapes import MSO_AUTO_SHAPE_TYPE
            from mc.core.run import Partial
            run_histories(Partial(), [m.name for m in MSO_AUTO_SHAPE_TYPE], emit=False)
            fails = case_history_sweep(data["member"])
    else:
        raise ValueError(k)
    want = data.get("sig")
    for sig, what in fails:
        if want is None or sig == want:
            return what
    return None
