"""C09 catalogue — declarative description of the read/write properties of the python-pptx object model.

Written from the DOCSTRINGS of /repo/src/pptx (and DESIGN.md Appendix A), not from the implementation.
Reusable by other checks: everything here is data plus three small interpreters

    bench_bytes(variant)            deterministic "workbench" deck, built once through the public API
    resolve(prs, path)              follow a JSON path from a Presentation to an object
    mk(spec, prs) / norm(value)     JSON value spec -> python value / python reading -> JSON-able reading

Vocabulary
----------
Kind      an object kind with a `path` (how to find the object from a freshly opened Presentation), a
          `part` path (an object whose `.part.blob` is the XML part that holds the object; the check
          observes only that blob) and a list of `Prop`.
Prop      one settable property: the class that declares it (`owner`, for the coverage denominator),
          a value alphabet (`Val` list), the storage quantum in units of the value read, the independence
          group, and `disturbs` (the sibling properties an assignment is *allowed* to change; default:
          the other members of the group).
Val       one alphabet entry: stable `label`, JSON `spec`, class
              valid    documented in-domain: must be accepted and read back (expect = non-identity reading)
              none     None where the documentation says None may be assigned: reads `Prop.none_reading`;
                       `Prop.none_removes` when the documentation promises that the explicit setting is removed
              invalid  documented out-of-domain (range or type stated in the docstring): TypeError/ValueError
                       and the part XML unchanged
              either   outside the range of the schema type or of a loosely documented type ("EMU", "float"):
                       the documentation states no domain, so the weaker reading applies: EITHER a clean
                       TypeError/ValueError rejection (XML unchanged) OR acceptance (then nothing is demanded
                       of the reading); any other exception type is reported
          `pair` marks the members of the reduced alphabet used for pair/triple histories.
"""

from __future__ import annotations

import enum
import importlib
import io

# ---------------------------------------------------------------------------------------------------
# value specs


def E(enum_path, member):
    """Enum member spec, e.g. E('pptx.enum.text:MSO_ANCHOR', 'TOP')."""
    return {"e": enum_path, "m": member}


def _enum_cls(enum_path):
    mod, name = enum_path.split(":")
    return getattr(importlib.import_module(mod), name)


def mk(spec, prs=None):
    """JSON value spec -> python value."""
    if isinstance(spec, dict):
        if "e" in spec:
            return getattr(_enum_cls(spec["e"]), spec["m"])
        if "emu" in spec:
            from pptx.util import Emu
            return Emu(spec["emu"])
        if "pt" in spec:
            from pptx.util import Pt
            return Pt(spec["pt"])
        if "rgb" in spec:
            from pptx.dml.color import RGBColor
            return RGBColor.from_string(spec["rgb"])
        if "slide" in spec:
            return prs.slides[spec["slide"]]
        if "list" in spec:
            return list(spec["list"])
        if "tuple" in spec:
            return tuple(spec["tuple"])
        if "fillkind" in spec:
            return spec["fillkind"]
        raise ValueError("bad value spec %r" % (spec,))
    return spec


def norm(v):
    """Reading -> JSON-able, comparable value."""
    from pptx.util import Length
    if v is None or isinstance(v, (bool, str)):
        return v
    if isinstance(v, enum.Enum):
        return "%s.%s" % (type(v).__name__, v.name)
    if isinstance(v, Length):
        return int(v)
    if isinstance(v, int):
        return int(v)
    if isinstance(v, float):
        return float(v)
    try:
        from pptx.dml.color import RGBColor
        if isinstance(v, RGBColor):
            return "rgb:" + str(v)
    except Exception:  # pragma: no cover
        pass
    sid = getattr(v, "slide_id", None)
    if isinstance(sid, int):
        return "slide_id:%d" % sid
    return "obj:" + type(v).__name__


def norm_len_or_float(v):
    """line_spacing: a Length (fixed height) must stay distinguishable from a float (lines)."""
    from pptx.util import Length
    if isinstance(v, Length):
        return "len:%d" % int(v)
    return norm(v)


NORMS = {"len_or_float": norm_len_or_float}

# ---------------------------------------------------------------------------------------------------
# declarative records

_SAME = "__same__"


class Val:
    __slots__ = ("label", "spec", "cls", "expect", "pair", "thorough_only")

    def __init__(self, label, spec, cls="valid", expect=_SAME, pair=False, thorough_only=False):
        self.label, self.spec, self.cls, self.expect, self.pair = label, spec, cls, expect, pair
        self.thorough_only = thorough_only

    def expected(self, prs=None, normfn=norm):
        """Normalised expected reading (or {'any_of': [...]}), for valid values."""
        if self.expect is _SAME:
            return normfn(mk(self.spec, prs))
        if isinstance(self.expect, dict) and "any_of" in self.expect:
            return {"any_of": [normfn(mk(s, prs)) for s in self.expect["any_of"]]}
        return normfn(mk(self.expect, prs))


class Prop:
    def __init__(self, owner, name, values, quantum=0, group=None, disturbs=None, none_reading=None,
                 none_removes=False, circular=None, getter=None, setter=None, normname=None, covers=None,
                 observer=False):
        self.owner = owner            # declaring class (coverage denominator key is (owner, name))
        self.name = name
        self.values = values
        self.quantum = quantum        # tolerance in units of the reading (0 = exact)
        self.group = group
        self.disturbs = disturbs      # None -> other members of `group`
        self.none_reading = none_reading
        self.none_removes = none_removes
        self.circular = circular      # 360.0 for angles read back modulo a full turn
        self.getter = getter          # name in ACCESSORS (pseudo-properties), else getattr
        self.setter = setter
        self.normname = normname
        self.covers = covers if covers is not None else [(owner, name)]
        self.observer = observer      # read-only reading observed for non-interference only

    @property
    def normfn(self):
        return NORMS.get(self.normname, norm)

    def value(self, label):
        for v in self.values:
            if v.label == label:
                return v
        raise KeyError("%s.%s has no value labelled %r" % (self.owner, self.name, label))

    def alphabet(self, thorough):
        # every value (every enumeration member included) is assigned on its own in BOTH tiers: single assignments
        # are cheap, and a defect confined to one member (seed C09-w3-3: Font.underline = WORDS) is otherwise seen
        # only by the thorough tier. `thorough_only` now only keeps a value out of the quick pair alphabets.
        return list(self.values)

    def pair_alphabet(self, thorough):
        out = [v for v in self.values if v.pair]
        if thorough:
            extra = [v for v in self.values if not v.pair and v.cls == "valid" and not v.thorough_only
                     and v.label in ("lower-bound", "upper-bound", "schema-upper", "zero")]
            out = out + extra[:2]
        return out


class Kind:
    def __init__(self, name, path, part, props, deck="bench", corpus=False, observers=(), pairs=True):
        self.name, self.path, self.part, self.deck, self.corpus = name, path, part, deck, corpus
        self.pairs = pairs            # False: a second instance of a kind; single assignments only
        self.props = list(props) + [Prop("-", o, [], observer=True) for o in observers]

    def prop(self, name):
        for p in self.props:
            if p.name == name:
                return p
        raise KeyError("%s has no property %s" % (self.name, name))

    @property
    def settable(self):
        return [p for p in self.props if not p.observer]


# ---------------------------------------------------------------------------------------------------
# pseudo-property accessors (things that are not plain attributes)

def _get_adj0(o):
    return o.adjustments[0]


def _set_adj0(o, v):
    o.adjustments[0] = v


def _get_fill_type(o):
    return o.type


def _set_fill_type(o, v):
    if v not in ("solid", "gradient", "patterned", "background"):
        raise ValueError("not a fill kind")
    getattr(o, v)()


ACCESSORS = {"adj0": (_get_adj0, _set_adj0), "fill_type": (_get_fill_type, _set_fill_type)}

# ---------------------------------------------------------------------------------------------------
# alphabets

WT_STR = Val("wrong-type:str", "abc", "invalid")
WT_LIST = Val("wrong-type:list", {"list": [1]}, "invalid")
WT_INT = Val("wrong-type:int", 7, "invalid")


def wrong(cls="invalid", strval="abc"):
    return [Val("wrong-type:str", strval, cls), Val("wrong-type:list", {"list": [1]}, cls)]


ST_COORD_LO, ST_COORD_HI = -27273042329600, 27273042316900
INT32_HI = 2147483647


def emu_position():
    """left/top: 'Integer distance ... EMU' (Appendix A: range of ST_Coordinate)."""
    return [
        Val("zero", 0, pair=True), Val("1q", 1), Val("interior-a", 914400, pair=True), Val("interior-b", 6858000),
        Val("negative", -914400), Val("schema-lower", ST_COORD_LO), Val("schema-lower+1q", ST_COORD_LO + 1),
        Val("schema-upper-1q", ST_COORD_HI - 1), Val("schema-upper", ST_COORD_HI),
        Val("schema-lower-1q", ST_COORD_LO - 1, "either"), Val("schema-upper+1q", ST_COORD_HI + 1, "either"),
        Val("wrong-type:float", 1.5, "either"),
    ] + wrong()


def emu_extent():
    """width/height: a distance in EMU, >= 0 (Appendix A: ST_PositiveCoordinate)."""
    return [
        Val("zero", 0), Val("1q", 1), Val("interior-a", 914400, pair=True), Val("interior-b", 6858000, pair=True),
        Val("schema-upper-1q", ST_COORD_HI - 1), Val("schema-upper", ST_COORD_HI),
        Val("lower-bound-1q", -1, "either"), Val("schema-upper+1q", ST_COORD_HI + 1, "either"),
        Val("wrong-type:float", 1.5, "either"),
    ] + wrong()


def rotation():
    """'Read/write float. Negative values can be assigned ... -45.0 will change setting to 315.0'."""
    return [
        Val("zero", 0.0), Val("interior-a", 45.0, pair=True), Val("interior-b", 270.5, pair=True),
        Val("int", 90, expect=90.0), Val("negative", -45.0, expect=315.0), Val("full-turn", 360.0, expect=0.0),
        Val("multi-turn", 720.5, expect=0.5), Val("below-full-turn", 359.99),
        Val("below-full-turn-1q/60", 359.999999),           # within one quantum of 0 on the circle
        Val("quantum-threshold-a", 90.00001), Val("quantum-threshold-b", 10.0 + 0.5 / 60000),
        Val("quantum-threshold-c", 10.0 + 0.49 / 60000), Val("large", 1000000.25, expect=1000000.25 % 360),
    ] + wrong()


NAMES = [
    Val("ascii", "Shape name 7", pair=True), Val("unicode", "Näme ✓ 名前", pair=True),
    Val("markup-chars", "a&b<c>\"d'e"), Val("long-255", "x" * 255), Val("empty", ""),
    Val("wrong-type:int", 7, "invalid"), Val("wrong-type:list", {"list": ["a"]}, "invalid"),
]


def fraction(documented_range=None, extra_outside=True):
    """Floats stored in 1/100000ths. documented_range=(lo, hi) when the docstring states the bounds."""
    vals = [Val("zero", 0.0), Val("interior-a", 0.25, pair=True), Val("interior-b", 0.4, pair=True),
            Val("quantum-threshold-a", 0.123456), Val("quantum-threshold-b", 0.333335),
            Val("quantum-threshold-c", 0.000005), Val("int", 1, expect=1.0)]
    if documented_range:
        lo, hi = documented_range
        vals += [Val("lower-bound", float(lo)), Val("lower-bound+1q", lo + 0.00001), Val("upper-bound-1q", hi - 0.00001),
                 Val("upper-bound", float(hi)),
                 Val("lower-bound-1q", lo - 0.00001, "invalid"), Val("upper-bound+1q", hi + 0.00001, "invalid"),
                 Val("far-outside", hi + 1.5, "invalid")]
        if lo < 0:
            vals += [Val("negative", -0.25)]
    else:
        vals += [Val("one", 1.0), Val("negative", -0.1), Val("above-one", 1.5)]
    return vals + wrong()


def tri_bool():
    return [Val("True", True, pair=True), Val("False", False, pair=True), Val("None", None, "none", pair=True)] + wrong("invalid", "yes")


def two_bool(wrong_cls=None):
    """Plain booleans. Wrong-typed values are only listed when `wrong_cls` is given: python truthiness is
    the conventional boolean domain and the docstrings say no more than 'boolean'."""
    out = [Val("True", True, pair=True), Val("False", False, pair=True)]
    if wrong_cls:
        out += wrong(wrong_cls, "yes")
    return out


_READONLY_WORDS = ("read-only", "return value only", "not supported")


def enum_members(enum_path, exclude=()):
    cls = _enum_cls(enum_path)
    out = []
    for m in cls:
        doc = (getattr(m, "__doc__", "") or "").lower()
        if m.name in exclude or any(w in doc for w in _READONLY_WORDS):
            continue
        out.append(m.name)
    return out


def enum_vals(enum_path, none=None, quick=4, exclude=(), expect_map=None, wrong_cls="invalid"):
    """All assignable members of an enumeration; the first `quick` and the last one in the quick tier."""
    names = enum_members(enum_path, exclude)
    cls = _enum_cls(enum_path)
    by_xml = {}
    for m in cls:   # members the file format cannot tell apart (one XML token for two MS-API members)
        xv = getattr(m, "xml_value", None)
        if xv:
            by_xml.setdefault(xv, []).append(m.name)
    out = []
    for i, n in enumerate(names):
        exp = (expect_map or {}).get(n, _SAME)
        same = by_xml.get(getattr(getattr(cls, n), "xml_value", None) or "", [n])
        if exp is _SAME and len(same) > 1:
            exp = {"any_of": [E(enum_path, x) for x in same]}
        out.append(Val("member:" + n, E(enum_path, n), expect=exp, pair=(i < 2),
                       thorough_only=not (i < quick or i == len(names) - 1)))
    if none:
        out.append(Val("None", None, "none", pair=True))
    out += [Val("wrong-type:str", "bogus", wrong_cls), Val("wrong-type:list", {"list": [1]}, wrong_cls)]
    return out


def length_vals(lo, hi, interior, none=False, schema_bounds=True, quantum_probe=None):
    """Length properties (EMU ints). lo/hi: schema bounds (valid per Appendix A; one quantum outside is
    'either' because the docstrings state no range)."""
    vals = [Val("interior-a", {"emu": interior[0]}, pair=True), Val("interior-b", {"emu": interior[1]}, pair=True)]
    if schema_bounds:
        vals += [Val("schema-lower", {"emu": lo}), Val("schema-upper", {"emu": hi}),
                 Val("schema-lower-1q", {"emu": lo - 1}, "either"), Val("schema-upper+1q", {"emu": hi + 1}, "either")]
    for i, q in enumerate(quantum_probe or ()):
        vals.append(Val("quantum-threshold-%s" % "abc"[i], {"emu": q}))
    if none:
        vals.append(Val("None", None, "none", pair=True))
    return vals + wrong()


def float_vals(positive=False, none=True):
    vals = [Val("interior-a", 10.0, pair=True), Val("interior-b", 2.5, pair=True), Val("int", 7, expect=7.0),
            Val("small", 0.001), Val("large", 1000000.0), Val("many-digits", 123456.789012)]
    if not positive:
        vals += [Val("zero", 0.0), Val("negative", -5.5)]
    if none:
        vals.append(Val("None", None, "none", pair=True))
    return vals + wrong()


def int_range(lo, hi, interior, none=False, documented=True, extra=()):
    out_cls = "invalid" if documented else "either"
    vals = [Val("lower-bound", lo), Val("lower-bound+1q", lo + 1), Val("interior-a", interior[0], pair=True),
            Val("interior-b", interior[1], pair=True), Val("upper-bound-1q", hi - 1), Val("upper-bound", hi),
            Val("lower-bound-1q", lo - 1, out_cls), Val("upper-bound+1q", hi + 1, out_cls)]
    vals += list(extra)
    if none:
        vals.append(Val("None", None, "none", pair=True))
    return vals + [Val("wrong-type:float", interior[0] + 0.5, "either")] + wrong()


def strings(samples, none=False):
    vals = [Val("str-%s" % "abcdef"[i], s, pair=(i < 2)) for i, s in enumerate(samples)]
    if none:
        vals.append(Val("None", None, "none", pair=True))
    return vals + [Val("wrong-type:int", 7, "invalid"), Val("wrong-type:list", {"list": ["a"]}, "invalid")]


# ---------------------------------------------------------------------------------------------------
# property sets

ENUM_TEXT = "pptx.enum.text"
ENUM_DML = "pptx.enum.dml"
ENUM_CHART = "pptx.enum.chart"
ENUM_SHAPES = "pptx.enum.shapes"
ENUM_LANG = "pptx.enum.lang"


def base_shape_props(owner_dims="BaseShape", with_rotation=True):
    props = [
        Prop(owner_dims, "left", emu_position()),
        Prop(owner_dims, "top", emu_position()),
        Prop(owner_dims, "width", emu_extent()),
        Prop(owner_dims, "height", emu_extent()),
    ]
    if with_rotation:
        props.append(Prop("BaseShape", "rotation", rotation(), quantum=1.0 / 60000, circular=360.0))
    props.append(Prop("BaseShape", "name", NAMES))
    return props


def placeholder_props():
    """`_InheritsDimensions`: 'its directly-applied <dim> if it has one, otherwise the <dim> of its parent
    layout placeholder' — the four are four properties; an assignment to one leaves the (inherited)
    reading of the others unchanged."""
    def lim(vals):   # interior values only; the bounds are exercised on the other shapes
        return [v for v in vals if v.label in ("zero", "1q", "interior-a", "interior-b", "wrong-type:str")]
    return [
        Prop("_InheritsDimensions", "left", lim(emu_position())),
        Prop("_InheritsDimensions", "top", lim(emu_position())),
        Prop("_InheritsDimensions", "width", lim(emu_extent())),
        Prop("_InheritsDimensions", "height", lim(emu_extent())),
        Prop("BaseShape", "rotation", [v for v in rotation() if v.label in ("interior-a", "interior-b", "negative")],
             quantum=1.0 / 60000, circular=360.0),
        Prop("BaseShape", "name", NAMES[:2]),
    ]


def picture_props():
    crops = [Prop("_BasePicture", n, fraction(), quantum=1e-5) for n in ("crop_left", "crop_right", "crop_top", "crop_bottom")]
    ast = Prop("Picture", "auto_shape_type",
               enum_vals(ENUM_SHAPES + ":MSO_SHAPE", quick=5))
    return base_shape_props() + crops + [ast]


def autoshape_props():
    adj = Prop("Adjustment", "effective_value", [
        Val("zero", 0.0), Val("one", 1.0), Val("interior-a", 0.5, pair=True), Val("interior-b", 0.25, pair=True),
        Val("negative", -0.5), Val("above-one", 1.5), Val("quantum-threshold-a", 0.123456),
        Val("quantum-threshold-b", 0.000005), Val("int", 1, expect=1.0),
        Val("wrong-type:str", "abc", "invalid"), Val("wrong-type:list", {"list": [1]}, "invalid")],
        quantum=1e-5, getter="adj0", setter="adj0")
    adj.name = "adjustments[0]"
    return base_shape_props() + [adj]


def text_frame_props():
    m = lambda n: Prop("TextFrame", n, length_vals(-INT32_HI - 1, INT32_HI, (45720, 914400)) + [Val("zero", {"emu": 0}), Val("1q", {"emu": 1}),
                                                                                              Val("default-0.1in", {"emu": 91440})])
    return [
        m("margin_left"), m("margin_right"), m("margin_top"), m("margin_bottom"),
        Prop("TextFrame", "word_wrap", tri_bool(), none_reading=None, none_removes=True),
        Prop("TextFrame", "auto_size", enum_vals(ENUM_TEXT + ":MSO_AUTO_SIZE", none=True), none_reading=None),
        Prop("TextFrame", "vertical_anchor", enum_vals(ENUM_TEXT + ":MSO_ANCHOR", none=True), none_reading=None),
    ]


def paragraph_props():
    spacing = lambda n: Prop("_Paragraph", n, [
        Val("zero", {"pt": 0}), Val("interior-a", {"pt": 6}, pair=True), Val("interior-b", {"pt": 12.5}, pair=True),
        Val("schema-upper", {"pt": 1584}), Val("schema-upper+1q", {"emu": 1584 * 12700 + 127}, "either"),
        Val("quantum-threshold-a", {"emu": 127063}), Val("quantum-threshold-b", {"emu": 127126}),
        Val("None", None, "none", pair=True), Val("wrong-type:str", "abc", "invalid"), WT_LIST],
        quantum=127, none_reading=None, none_removes=False)
    ls = Prop("_Paragraph", "line_spacing", [
        Val("lines-1.5", 1.5, pair=True), Val("lines-int", 2, expect=2.0), Val("lines-0.9", 0.9),
        Val("lines-quantum-threshold", 1.234567), Val("lines-one", 1.0),
        Val("length-12pt", {"pt": 12}, pair=True), Val("length-18.5pt", {"pt": 18.5}), Val("length-zero", {"pt": 0}),
        Val("length-schema-upper", {"pt": 1584}), Val("length-quantum-threshold", {"emu": 156781}),
        Val("None", None, "none", pair=True), Val("wrong-type:str", "abc", "invalid"), WT_LIST],
        quantum={"float": 1e-5, "len": 127}, none_reading=None, normname="len_or_float")
    return [
        Prop("_Paragraph", "alignment", enum_vals(ENUM_TEXT + ":PP_ALIGN", none=True), none_reading=None, none_removes=True),
        Prop("_Paragraph", "level", int_range(0, 8, (1, 4), documented=True)),
        ls, spacing("space_before"), spacing("space_after"),
    ]


def font_props():
    U = ENUM_TEXT + ":MSO_UNDERLINE"
    underline = [Val("True", True, pair=True), Val("False", False, pair=True), Val("None", None, "none", pair=True)]
    for i, n in enumerate(enum_members(U)):
        exp = _SAME
        if n == "SINGLE_LINE":     # 'True indicates single underline'
            exp = {"any_of": [True, E(U, n)]}
        if n == "NONE":            # 'False indicates no underline'
            exp = {"any_of": [False, E(U, n)]}
        underline.append(Val("member:" + n, E(U, n), expect=exp, thorough_only=(i >= 5)))
    underline += wrong("invalid", "bogus")
    L = ENUM_LANG + ":MSO_LANGUAGE_ID"
    lang = enum_vals(L, quick=5)
    lang.append(Val("None", None, "none", pair=True))
    return [
        Prop("Font", "bold", tri_bool(), none_reading=None, none_removes=True),
        Prop("Font", "italic", tri_bool(), none_reading=None, none_removes=True),
        Prop("Font", "underline", underline, none_reading=None),
        Prop("Font", "size", [
            Val("schema-lower", {"pt": 1}), Val("schema-lower+1q", {"emu": 12700 + 127}), Val("interior-a", {"pt": 24}, pair=True),
            Val("interior-b", {"pt": 10.5}, pair=True), Val("schema-upper-1q", {"emu": 4000 * 12700 - 127}),
            Val("schema-upper", {"pt": 4000}), Val("schema-lower-1q", {"emu": 12700 - 127}, "either"),
            Val("schema-upper+1q", {"emu": 4000 * 12700 + 127}, "either"),
            Val("quantum-threshold-a", {"emu": 127063}), Val("quantum-threshold-b", {"emu": 127126}),
            Val("quantum-threshold-c", {"emu": 127001}),
            Val("None", None, "none", pair=True), Val("wrong-type:str", "abc", "invalid"), WT_LIST],
            quantum=127, none_reading=None),
        Prop("Font", "name", strings(["Arial", "Noto Sans CJK JP", "Tïmes ✓"], none=True), none_reading=None,
             none_removes=True),
        Prop("Font", "language_id", lang, none_reading=E(L, "NONE")),
    ]


def color_props(with_brightness=True):
    T = ENUM_DML + ":MSO_THEME_COLOR"
    theme = enum_vals(T, quick=4, exclude=("NOT_THEME_COLOR",))
    props = [
        Prop("ColorFormat", "rgb", [
            Val("black", {"rgb": "000000"}), Val("white", {"rgb": "FFFFFF"}), Val("interior-a", {"rgb": "3C2F80"}, pair=True),
            Val("interior-b", {"rgb": "0A0B0C"}, pair=True), Val("wrong-type:str", "FF0000", "invalid"),
            Val("wrong-type:tuple", {"tuple": [255, 0, 0]}, "invalid")],
            group="color", disturbs=["theme_color", "brightness", "type"], covers=[("ColorFormat", "rgb"), ("_SRgbColor", "rgb")]),
        Prop("ColorFormat", "theme_color", theme, group="color", disturbs=["rgb", "brightness", "type"],
             covers=[("ColorFormat", "theme_color"), ("_SchemeColor", "theme_color")]),
    ]
    if with_brightness:
        props.append(Prop("ColorFormat", "brightness", fraction((-1.0, 1.0)), quantum=1e-5, group="color", disturbs=[],
                          covers=[("ColorFormat", "brightness"), ("_Color", "brightness")]))
    return props


def line_props():
    return [
        Prop("LineFormat", "width", [
            Val("zero", {"emu": 0}), Val("1q", {"emu": 1}), Val("interior-a", {"pt": 1}, pair=True), Val("interior-b", {"emu": 9525}, pair=True),
            Val("schema-upper-1q", {"emu": 20116799}), Val("schema-upper", {"emu": 20116800}),
            Val("lower-bound-1q", {"emu": -1}, "either"), Val("schema-upper+1q", {"emu": 20116801}, "either"),
            Val("wrong-type:str", "abc", "invalid"), WT_LIST]),
        Prop("LineFormat", "dash_style", enum_vals(ENUM_DML + ":MSO_LINE", none=True), none_reading=None, none_removes=True),
    ]


def axis_props():
    TM = ENUM_CHART + ":XL_TICK_MARK"
    return [
        Prop("_BaseAxis", "visible", two_bool("invalid")),
        Prop("_BaseAxis", "reverse_order", two_bool()),
        Prop("_BaseAxis", "has_major_gridlines", two_bool()),
        Prop("_BaseAxis", "has_minor_gridlines", two_bool()),
        Prop("_BaseAxis", "has_title", two_bool()),
        Prop("_BaseAxis", "major_tick_mark", enum_vals(TM)),
        Prop("_BaseAxis", "minor_tick_mark", enum_vals(TM)),
        Prop("_BaseAxis", "tick_label_position", enum_vals(ENUM_CHART + ":XL_TICK_LABEL_POSITION")),
        Prop("_BaseAxis", "maximum_scale", float_vals(), none_reading=None),
        Prop("_BaseAxis", "minimum_scale", float_vals(), none_reading=None),
    ]


def value_axis_props():
    return axis_props() + [
        Prop("ValueAxis", "major_unit", float_vals(positive=True), none_reading=None),
        Prop("ValueAxis", "minor_unit", float_vals(positive=True), none_reading=None),
        Prop("ValueAxis", "crosses", enum_vals(ENUM_CHART + ":XL_AXIS_CROSSES", exclude=("CUSTOM",)), group="crosses"),
        Prop("ValueAxis", "crosses_at", float_vals(), none_reading=None, group="crosses"),
    ]


NUMBER_FORMATS = ["0.00", "#,##0", "0.0%", "General", "$#,##0.00;[Red]-$#,##0.00"]


def tick_label_props(with_offset=True):
    props = [
        Prop("TickLabels", "number_format", strings(NUMBER_FORMATS), group="number-format", disturbs=["number_format_is_linked"]),
        Prop("TickLabels", "number_format_is_linked", two_bool(), group="number-format", disturbs=[]),
    ]
    if with_offset:
        props.append(Prop("TickLabels", "offset", int_range(0, 1000, (100, 500), documented=True)))
    return props


def data_labels_props():
    return [
        Prop("DataLabels", "number_format", strings(NUMBER_FORMATS), group="number-format", disturbs=["number_format_is_linked"]),
        Prop("DataLabels", "number_format_is_linked", two_bool(), group="number-format", disturbs=[]),
        Prop("DataLabels", "position", enum_vals(ENUM_CHART + ":XL_LABEL_POSITION", none=True, quick=4), none_reading=None),
    ] + [Prop("DataLabels", n, two_bool()) for n in
         ("show_category_name", "show_legend_key", "show_percentage", "show_series_name", "show_value")]


def build_kinds():
    S0 = [["slide", 0]]

    def sh(name, *more):
        return S0 + [["shape", name]] + [list(m) for m in more]

    def chart(name, *more):
        return sh(name, ("a", "chart"), *more)

    A = lambda n: ("a", n)
    I = lambda i: ("idx", i)
    kinds = []
    add = kinds.append

    # --- presentation / slide ---------------------------------------------------------------------
    def slide_size(full=True):
        vals = [Val("schema-lower", 914400), Val("schema-lower+1q", 914401), Val("interior-a", 9144000, pair=True),
                Val("interior-b", 6858000, pair=True), Val("schema-upper-1q", 51206399), Val("schema-upper", 51206400),
                Val("schema-lower-1q", 914399, "either"), Val("schema-upper+1q", 51206401, "either"),
                Val("wrong-type:float", 9144000.5, "either")] + wrong()
        return vals if full else [v for v in vals if v.label.startswith("interior")]
    add(Kind("presentation", [], [], [Prop("Presentation", "slide_width", slide_size()),
                                      Prop("Presentation", "slide_height", slide_size())], corpus=True))
    add(Kind("presentation_no_sldSz", [], [], [Prop("Presentation", "slide_width", slide_size(False)),
                                               Prop("Presentation", "slide_height", slide_size(False))], deck="bench-nosldsz"))
    add(Kind("slide", S0, S0, [Prop("_BaseSlide", "name", [
        Val("ascii", "My slide", pair=True), Val("unicode", "Folïe ✓", pair=True), Val("markup-chars", "a&b<c>\"d"),
        Val("empty", "", pair=True), Val("None", None, "none", pair=True), Val("wrong-type:int", 7, "invalid"),
        Val("wrong-type:list", {"list": ["a"]}, "invalid")], none_reading="", none_removes=True)], corpus=True))

    # --- shapes ---------------------------------------------------------------------------------------
    add(Kind("autoshape", sh("AS"), S0, autoshape_props(), corpus=True))
    add(Kind("textbox", sh("TB"), S0, base_shape_props(), corpus=True))
    add(Kind("picture", sh("PIC"), S0, picture_props(), corpus=True))
    add(Kind("connector", sh("CX"), S0, base_shape_props(), corpus=True))
    add(Kind("group", sh("GRP"), S0, base_shape_props(), corpus=True))
    add(Kind("group_member", sh("GRP", ("a", "shapes"), I(0)), S0, base_shape_props()))
    add(Kind("table_frame", sh("TBL"), S0, base_shape_props(with_rotation=False), corpus=True))
    add(Kind("chart_frame", sh("CH-bar"), S0, base_shape_props(with_rotation=False), corpus=True))
    add(Kind("placeholder", S0 + [["a", "shapes"], ["a", "title"]], S0, placeholder_props(), corpus=True))

    # --- click action / hyperlinks ------------------------------------------------------------------
    urls = ["https://example.com/a?b=c&d=e", "mailto:someone@example.org", "file:///tmp/x%20y.txt"]
    add(Kind("click_hyperlink", sh("AS", A("click_action"), A("hyperlink")), S0, [
        Prop("Hyperlink", "address", strings(urls, none=True), none_reading=None, none_removes=True)]))
    add(Kind("click_action", sh("AS", A("click_action")), S0, [
        Prop("ActionSetting", "target_slide", [Val("slide-2", {"slide": 1}, pair=True), Val("slide-1", {"slide": 0}, pair=True),
                                               Val("None", None, "none", pair=True)], none_reading=None, none_removes=True)]))
    add(Kind("run_hyperlink", sh("AS", A("text_frame"), A("paragraphs"), I(0), A("runs"), I(0), A("hyperlink")), S0, [
        Prop("_Hyperlink", "address", [Val("str-a", urls[0], pair=True), Val("str-b", urls[1], pair=True), Val("str-c", urls[2])])]))

    # --- text -------------------------------------------------------------------------------------------
    add(Kind("text_frame", sh("AS", A("text_frame")), S0, text_frame_props(), corpus=True))
    add(Kind("textbox_text_frame", sh("TB", A("text_frame")), S0, text_frame_props(), pairs=False))
    add(Kind("paragraph", sh("AS", A("text_frame"), A("paragraphs"), I(0)), S0, paragraph_props(), corpus=True))
    add(Kind("run_font", sh("AS", A("text_frame"), A("paragraphs"), I(0), A("runs"), I(1), A("font")), S0, font_props(), corpus=True))
    add(Kind("paragraph_font", sh("AS", A("text_frame"), A("paragraphs"), I(1), A("font")), S0, font_props(), pairs=False))

    # --- fill / line / colour / effects -----------------------------------------------------------
    fill_type = Prop("FillFormat", "solid()|gradient()|patterned()|background()", [
        Val("solid", {"fillkind": "solid"}, expect=E(ENUM_DML + ":MSO_FILL", "SOLID"), pair=True),
        Val("gradient", {"fillkind": "gradient"}, expect=E(ENUM_DML + ":MSO_FILL", "GRADIENT"), pair=True),
        Val("patterned", {"fillkind": "patterned"}, expect=E(ENUM_DML + ":MSO_FILL", "PATTERNED")),
        Val("background", {"fillkind": "background"}, expect=E(ENUM_DML + ":MSO_FILL", "BACKGROUND"))],
        group="fill-kind", getter="fill_type", setter="fill_type", covers=[])
    add(Kind("fill", sh("AS", A("fill")), S0, [
        fill_type,
        Prop("FillFormat", "gradient_angle", [], group="fill-kind", observer=True),
        Prop("FillFormat", "pattern", [], group="fill-kind", observer=True)], corpus=True))
    add(Kind("fill_gradient", sh("AS-grad", A("fill")), S0, [
        Prop("FillFormat", "gradient_angle", [
            Val("zero", 0.0), Val("interior-a", 45.0, pair=True), Val("interior-b", 270.5, pair=True), Val("int", 90, expect=90.0),
            Val("below-full-turn", 359.99), Val("quantum-threshold-a", 12.34567), Val("quantum-threshold-b", 10.0 + 0.5 / 60000)]
            + wrong(), quantum=1.0 / 60000, circular=360.0, group="fill-kind",
            covers=[("FillFormat", "gradient_angle"), ("_GradFill", "gradient_angle")])], observers=("type",)))
    add(Kind("fill_pattern", sh("AS-patt", A("fill")), S0, [
        Prop("FillFormat", "pattern", enum_vals(ENUM_DML + ":MSO_PATTERN", none=True, quick=4), none_reading=None,
             none_removes=True, group="fill-kind", covers=[("FillFormat", "pattern"), ("_PattFill", "pattern")])],
        observers=("type",)))
    add(Kind("gradient_stop", sh("AS-grad", A("fill"), A("gradient_stops"), I(0)), S0, [
        Prop("_GradientStop", "position", fraction((0.0, 1.0)), quantum=1e-5)]))
    add(Kind("line", sh("AS", A("line")), S0, line_props(), corpus=True))
    add(Kind("connector_line", sh("CX", A("line")), S0, line_props()))
    add(Kind("color_rgb", sh("AS-solid", A("fill"), A("fore_color")), S0, color_props(), observers=("type",)))
    add(Kind("color_theme", sh("AS-theme", A("fill"), A("fore_color")), S0, color_props(), observers=("type",)))
    add(Kind("color_unset", sh("AS-nocolor", A("fill"), A("fore_color")), S0, color_props(with_brightness=False), observers=("type",)))
    add(Kind("line_color", sh("AS-solid", A("line"), A("color")), S0, color_props(), observers=("type",)))
    add(Kind("font_color", sh("AS-solid", A("text_frame"), A("paragraphs"), I(0), A("runs"), I(0), A("font"), A("color")), S0,
             color_props(), observers=("type",)))
    add(Kind("gradient_stop_color", sh("AS-grad", A("fill"), A("gradient_stops"), I(1), A("color")), S0, color_props(),
             observers=("type",)))
    add(Kind("shadow", sh("AS", A("shadow")), S0, [Prop("ShadowFormat", "inherit", two_bool())], corpus=True))

    # --- table ------------------------------------------------------------------------------------------
    TB = sh("TBL", A("table"))
    add(Kind("table", TB, S0, [Prop("Table", n, two_bool("either")) for n in
                               ("first_row", "first_col", "last_row", "last_col", "horz_banding", "vert_banding")], corpus=True))
    cm = lambda n, d: Prop("_Cell", n, [Val("zero", {"emu": 0}), Val("1q", {"emu": 1}), Val("interior-a", {"emu": 45721}, pair=True),
                                        Val("interior-b", {"emu": 914400}, pair=True), Val("schema-upper", {"emu": INT32_HI}),
                                        # the documented defaults of this margin and of its siblings are ordinary values too
                                        Val("default-0.1in", {"emu": 91440}), Val("default-0.05in", {"emu": 45720}),
                                        Val("schema-upper+1q", {"emu": INT32_HI + 1}, "either"),
                                        Val("None", None, "none", pair=True), Val("wrong-type:str", "abc", "invalid"), WT_LIST,
                                        Val("wrong-type:float", 1.5, "either")],
                          none_reading={"emu": d}, none_removes=False)
    add(Kind("cell", TB + [["call", "cell", [0, 1]]], S0, [
        cm("margin_left", 91440), cm("margin_right", 91440), cm("margin_top", 45720), cm("margin_bottom", 45720),
        Prop("_Cell", "vertical_anchor", enum_vals(ENUM_TEXT + ":MSO_ANCHOR", none=True), none_reading=None, none_removes=True)],
        corpus=True))
    dim = lambda: [Val("1q", {"emu": 1}), Val("interior-a", {"emu": 370840}, pair=True), Val("interior-b", {"emu": 914400}, pair=True),
                   Val("zero", {"emu": 0}), Val("large", {"emu": 91440000}),
                   Val("schema-upper+1q", {"emu": ST_COORD_HI + 1}, "either"), Val("lower-bound-1q", {"emu": -1}, "either"),
                   Val("wrong-type:str", "abc", "invalid"), WT_LIST]
    add(Kind("row", TB + [["a", "rows"], ["idx", 1]], S0, [Prop("_Row", "height", dim())], corpus=True))
    add(Kind("column", TB + [["a", "columns"], ["idx", 0]], S0, [Prop("_Column", "width", dim())], corpus=True))

    # --- charts -----------------------------------------------------------------------------------------
    def chart_kind(name, shape, more, props, corpus=False, observers=(), pairs=True, deck="bench"):
        add(Kind(name, chart(shape, *more), chart(shape), props, corpus=corpus, observers=observers, pairs=pairs, deck=deck))

    chart_kind("chart", "CH-bar", (), [
        Prop("Chart", "chart_style", int_range(1, 48, (10, 25), none=True, documented=True), none_reading=None, none_removes=True),
        Prop("Chart", "has_legend", two_bool()), Prop("Chart", "has_title", two_bool())], corpus=True)
    chart_kind("chart_title", "CH-line", (A("chart_title"),), [Prop("ChartTitle", "has_text_frame", two_bool())])
    chart_kind("axis_title", "CH-line", (A("category_axis"), A("axis_title")), [Prop("AxisTitle", "has_text_frame", two_bool())])
    chart_kind("category_axis", "CH-bar", (A("category_axis"),), axis_props(), corpus=True)
    chart_kind("value_axis", "CH-bar", (A("value_axis"),), value_axis_props(), corpus=True)
    chart_kind("xy_value_axis", "CH-xy", (A("value_axis"),), value_axis_props(), pairs=False)
    chart_kind("xy_category_axis", "CH-xy", (A("category_axis"),), value_axis_props(), pairs=False)
    chart_kind("tick_labels", "CH-bar", (A("category_axis"), A("tick_labels")), tick_label_props(), corpus=True)
    chart_kind("value_tick_labels", "CH-bar", (A("value_axis"), A("tick_labels")), tick_label_props(with_offset=False))
    LP = ENUM_CHART + ":XL_LEGEND_POSITION"
    chart_kind("legend", "CH-bar", (A("legend"),), [
        Prop("Legend", "position", enum_vals(LP, exclude=("CUSTOM",))),
        Prop("Legend", "include_in_layout", [Val("True", True, pair=True), Val("False", False, pair=True),
                                             Val("None", None, "none", expect=True, pair=True)],
             none_reading=True, none_removes=True),
        Prop("Legend", "horz_offset", fraction((-1.0, 1.0)), quantum=0)], corpus=True)
    P0 = (A("plots"), I(0))
    chart_kind("data_labels", "CH-bar", P0 + (A("data_labels"),), data_labels_props(), corpus=True)
    chart_kind("pie_data_labels", "CH-pie", P0 + (A("data_labels"),), data_labels_props(), pairs=False)
    chart_kind("point_data_label", "CH-bar", P0 + (A("series"), I(0), A("points"), I(1), A("data_label")), [
        Prop("DataLabel", "position", enum_vals(ENUM_CHART + ":XL_LABEL_POSITION", none=True, quick=4), none_reading=None),
        Prop("DataLabel", "has_text_frame", two_bool())])
    plot_common = lambda: [Prop("_BasePlot", "has_data_labels", two_bool()), Prop("_BasePlot", "vary_by_categories", two_bool())]
    chart_kind("bar_plot", "CH-bar", P0, [
        Prop("BarPlot", "gap_width", int_range(0, 500, (150, 219), documented=False)),
        Prop("BarPlot", "overlap", int_range(-100, 100, (50, -50), documented=True, extra=[Val("zero", 0)])),
    ] + plot_common(), corpus=True)
    chart_kind("bubble_plot", "CH-bubble", P0, [
        Prop("BubblePlot", "bubble_scale", int_range(0, 300, (100, 150), none=True, documented=True), none_reading=100),
    ] + plot_common(), corpus=True)
    chart_kind("line_plot", "CH-line", P0, plot_common())
    chart_kind("pie_plot", "CH-pie", P0, plot_common())
    chart_kind("xy_plot", "CH-xy", P0, plot_common())
    chart_kind("bar_series", "CH-bar", P0 + (A("series"), I(1)), [Prop("BarSeries", "invert_if_negative", two_bool())], corpus=True)
    chart_kind("line_series", "CH-line", P0 + (A("series"), I(0)), [Prop("LineSeries", "smooth", two_bool())], corpus=True)
    chart_kind("marker", "CH-line", P0 + (A("series"), I(1), A("marker")), [
        Prop("Marker", "size", int_range(2, 72, (9, 40), none=True, documented=True), none_reading=None, none_removes=True),
        Prop("Marker", "style", enum_vals(ENUM_CHART + ":XL_MARKER_STYLE", none=True, quick=4), none_reading=None)], corpus=True)
    chart_kind("xy_marker", "CH-xy", P0 + (A("series"), I(0), A("marker")), [
        Prop("Marker", "size", int_range(2, 72, (9, 40), none=True, documented=True), none_reading=None, none_removes=True),
        Prop("Marker", "style", enum_vals(ENUM_CHART + ":XL_MARKER_STYLE", none=True, quick=4), none_reading=None)])
    # --- several points of one series (histories across them: CROSS_OBJECT_GROUPS_QUICK) -------------
    def point_label_props():
        return [Prop("DataLabel", "position", enum_vals(ENUM_CHART + ":XL_LABEL_POSITION", none=True, quick=4), none_reading=None),
                Prop("DataLabel", "has_text_frame", two_bool())]

    def marker_props():
        return [Prop("Marker", "size", int_range(2, 72, (9, 40), none=True, documented=True), none_reading=None, none_removes=True),
                Prop("Marker", "style", enum_vals(ENUM_CHART + ":XL_MARKER_STYLE", none=True, quick=4), none_reading=None)]

    def label_font_props():
        """Font of a point's data label: these kinds exist for the ORDER histories across points, so only the
        in-domain values of four properties (the Font domain checks run on run_font / paragraph_font)."""
        out = []
        for P in font_props():
            if P.name in ("bold", "italic", "size", "name"):
                P.values = [v for v in P.values if v.cls in ("valid", "none")]
                out.append(P)
        return out

    BAR_S0 = P0 + (A("series"), I(0))
    LINE_S0 = P0 + (A("series"), I(0))
    for i in (0, 2):
        chart_kind("point_data_label_%d" % i, "CH-bar", BAR_S0 + (A("points"), I(i), A("data_label")), point_label_props(), pairs=False)
        chart_kind("point_marker_%d" % i, "CH-line", LINE_S0 + (A("points"), I(i), A("marker")), marker_props(), pairs=False)
        chart_kind("point_line_%d" % i, "CH-line", LINE_S0 + (A("points"), I(i), A("format"), A("line")), line_props(), pairs=False)
    chart_kind("point_label_font_0", "CH-bar", BAR_S0 + (A("points"), I(0), A("data_label"), A("font")), label_font_props(), pairs=False)
    chart_kind("point_label_font_2", "CH-bar", BAR_S0 + (A("points"), I(2), A("data_label"), A("font")), label_font_props(), pairs=False)

    # --- 'as PowerPoint writes it': objects whose stored form python-pptx never produces itself ----------
    PP = "bench-pp"
    chart_kind("legend_edge_layout", "CH-bar", (A("legend"),), [
        Prop("Legend", "position", enum_vals(LP, exclude=("CUSTOM",))),
        Prop("Legend", "include_in_layout", [Val("True", True, pair=True), Val("False", False, pair=True),
                                             Val("None", None, "none", expect=True, pair=True)],
             none_reading=True, none_removes=True),
        Prop("Legend", "horz_offset", fraction((-1.0, 1.0)), quantum=0)], deck=PP)
    chart_kind("point_data_label_before_existing", "CH-bar", BAR_S0 + (A("points"), I(0), A("data_label")),
               point_label_props(), deck=PP)
    chart_kind("point_label_font_before_existing", "CH-bar", BAR_S0 + (A("points"), I(0), A("data_label"), A("font")),
               label_font_props(), deck=PP, pairs=False)
    chart_kind("point_marker_before_existing", "CH-line", LINE_S0 + (A("points"), I(0), A("marker")), marker_props(), deck=PP)
    chart_kind("point_line_before_existing", "CH-line", LINE_S0 + (A("points"), I(0), A("format"), A("line")), line_props(),
               deck=PP, pairs=False)
    add(Kind("color_theme_lummod", sh("AS-theme", A("fill"), A("fore_color")), S0, color_props(), observers=("type",), deck=PP))
    add(Kind("color_system", sh("AS-nocolor", A("fill"), A("fore_color")), S0, color_props(), observers=("type",), deck=PP))
    add(Kind("text_frame_normautofit", sh("AS", A("text_frame")), S0, text_frame_props(), deck=PP, pairs=False))
    add(Kind("paragraph_spcPct_string", sh("AS", A("text_frame"), A("paragraphs"), I(0)), S0, paragraph_props(), deck=PP, pairs=False))
    add(Kind("placeholder_with_xfrm", S0 + [["a", "shapes"], ["idx", 1]], S0, placeholder_props(), deck=PP))

    # --- twins: a SECOND object of the same kind in the same deck (aliasing: a template element, default object or
    # cache shared between two objects of one kind shows only when both are touched in one session) ----------------
    by_name = {k.name: k for k in kinds}

    def twin(name, edit):
        K = by_name[name]
        path = edit([list(x) for x in K.path])
        add(Kind(name + "@twin", path, K.part, K.props, deck=K.deck, pairs=False))
        TWIN_GROUPS.append((name, name + "@twin"))

    def other_shape(new):
        def f(path):
            path[1] = ["shape", new]
            return path
        return f

    def other_index(pos, new):
        def f(path):
            path[pos] = new
            return path
        return f

    del TWIN_GROUPS[:]
    for n in ("autoshape", "click_hyperlink", "click_action", "run_hyperlink", "text_frame", "paragraph", "run_font",
              "fill", "line", "shadow"):
        twin(n, other_shape("AS-theme"))
    twin("cell", other_index(3, ["call", "cell", [1, 0]]))
    twin("row", other_index(4, ["idx", 0]))
    twin("column", other_index(4, ["idx", 1]))
    twin("gradient_stop", other_index(4, ["idx", 1]))
    twin("bar_series", other_index(6, ["idx", 0]))
    twin("marker", other_index(6, ["idx", 0]))
    twin("category_axis", other_shape("CH-line"))
    twin("value_axis", other_shape("CH-line"))
    twin("data_labels", other_shape("CH-pie"))
    # the fill of the shape whose OUTLINE and TEXT already carry a colour of their own (a:ln/a:solidFill and
    # a:rPr/a:solidFill are descendants of the same p:sp): changing the kind of the shape's fill must leave both alone
    K = by_name["fill"]
    add(Kind("fill@AS-solid", other_shape("AS-solid")([list(x) for x in K.path]), K.part, K.props, deck=K.deck, pairs=False))
    return kinds


TWIN_GROUPS = []


_KINDS = None


def kinds():
    global _KINDS
    if _KINDS is None:
        _KINDS = build_kinds()
    return _KINDS


def kind(name):
    for k in kinds():
        if k.name == name:
            return k
    raise KeyError(name)


# Histories across objects (thorough tier): objects that the documentation treats as independent of
# each other although they live in one shape / one text body.
CROSS_OBJECT_GROUPS = [("autoshape", "fill", "line"), ("text_frame", "paragraph", "run_font")]
# Both tiers: different points of ONE series (the per-point elements c:dLbl / c:dPt are kept in idx order, so the
# order of customisation matters); both orders are enumerated.
CROSS_OBJECT_GROUPS_QUICK = [("point_data_label_0", "point_data_label", "point_data_label_2"),
                             ("point_marker_0", "point_marker_2"), ("point_line_0", "point_line_2"),
                             ("point_label_font_0", "point_label_font_2"),
                             ("fill@AS-solid", "line_color", "font_color")]
TRIPLE_KINDS = ("text_frame", "paragraph", "run_font")

# ---------------------------------------------------------------------------------------------------
# coverage denominator bookkeeping

EXCLUDED = {
    "C18 (core properties)": [("CorePropertiesPart", n) for n in (
        "author", "category", "comments", "content_status", "created", "identifier", "keywords", "language",
        "last_modified_by", "last_printed", "modified", "revision", "subject", "title", "version")],
    "C04 (text setters)": [("Shape", "text"), ("TextFrame", "text"), ("_Paragraph", "text"), ("_Run", "text"), ("_Cell", "text")],
    "C17 (connector end points)": [("Connector", n) for n in ("begin_x", "begin_y", "end_x", "end_y")],
    "C06 (turbo-add)": [("_BaseShapes", "turbo_add_enabled")],
    "C08 (internal plumbing)": [("ChartWorkbook", "xlsx_part")],
}


def reflect_settable():
    """Every public settable property of the python-pptx object model: [(module, class, name)]."""
    import inspect
    import pkgutil
    import pptx
    out = []
    for m in pkgutil.walk_packages(pptx.__path__, "pptx."):
        if ".oxml" in m.name or m.name.startswith("pptx.opc") or "compat" in m.name:
            continue
        try:
            mod = importlib.import_module(m.name)
        except Exception:  # pragma: no cover
            continue
        for cname, cls in inspect.getmembers(mod, inspect.isclass):
            if cls.__module__ != mod.__name__:
                continue
            for an, d in vars(cls).items():
                if isinstance(d, property) and d.fset is not None and not an.startswith("_"):
                    out.append((mod.__name__, cname, an))
    return sorted(set(out))


def coverage():
    """(denominator, covered, excluded, uncovered) as sorted lists of 'Class.prop'."""
    denom = {(c, n) for _, c, n in reflect_settable()}
    covered = set()
    for k in kinds():
        for p in k.settable:
            covered.update(tuple(x) for x in p.covers)
    excluded = {x for lst in EXCLUDED.values() for x in lst}
    fmt = lambda s: sorted("%s.%s" % x for x in s)
    return fmt(denom), fmt(covered & denom), fmt(excluded & denom), fmt(denom - covered - excluded)


# ---------------------------------------------------------------------------------------------------
# path interpreter

def _shape_named(container, name):
    """Bench shapes are addressed by the name the builder gave them, resolved through the position the
    shape has in the bench deck (the name itself is one of the properties under test)."""
    bench_bytes()
    idx = _BENCH["index"].get(name)
    if idx is None:
        raise LookupError("no bench shape named %r" % name)
    return container.shapes[idx]


def resolve(prs, path):
    o = prs
    for step in path:
        op = step[0]
        if op == "slide":
            o = o.slides[step[1]]
        elif op == "shape":
            o = _shape_named(o, step[1])
        elif op == "a":
            o = getattr(o, step[1])
        elif op == "idx":
            o = o[step[1]]
        elif op == "call":
            o = getattr(o, step[1])(*step[2])
        else:
            raise ValueError("bad path step %r" % (step,))
    return o


def part_blob(prs, part_path):
    return resolve(prs, part_path).part.blob


# ---------------------------------------------------------------------------------------------------
# workbench deck

_BENCH = {}


def _build_bench():
    from pptx import Presentation
    from pptx.chart.data import BubbleChartData, CategoryChartData, XyChartData
    from pptx.dml.color import RGBColor
    from pptx.enum.chart import XL_CHART_TYPE
    from pptx.enum.dml import MSO_THEME_COLOR
    from pptx.enum.shapes import MSO_CONNECTOR, MSO_SHAPE
    from pptx.util import Inches, Pt

    from mc.drivers.fixtures import make_image

    prs = Presentation()
    s = prs.slides.add_slide(prs.slide_layouts[1])
    prs.slides.add_slide(prs.slide_layouts[6])
    sh = s.shapes
    s.shapes.title.text = "Bench"

    def rr(name, x, y):
        a = sh.add_shape(MSO_SHAPE.ROUNDED_RECTANGLE, Inches(x), Inches(y), Inches(2), Inches(1))
        a.name = name
        tf = a.text_frame
        tf.text = "first\nsecond"
        r = tf.paragraphs[0].add_run()
        r.text = " more"
        return a

    rr("AS", 1, 1)
    a = rr("AS-solid", 1, 2)
    a.fill.solid()
    a.fill.fore_color.rgb = RGBColor(0x12, 0x34, 0x56)
    a.line.color.rgb = RGBColor(0x65, 0x43, 0x21)
    a.text_frame.paragraphs[0].runs[0].font.color.rgb = RGBColor(0x11, 0x22, 0x33)
    a = rr("AS-theme", 1, 3)
    a.fill.solid()
    a.fill.fore_color.theme_color = MSO_THEME_COLOR.ACCENT_2
    a = rr("AS-nocolor", 1, 4)
    a.fill.solid()
    a = rr("AS-grad", 4, 2)
    a.fill.gradient()
    a = rr("AS-patt", 4, 3)
    a.fill.patterned()

    tb = sh.add_textbox(Inches(4), Inches(1), Inches(2), Inches(1))
    tb.name = "TB"
    tb.text_frame.text = "text box"
    pic = sh.add_picture(io.BytesIO(make_image(size=(8, 6))), Inches(7), Inches(1))
    pic.name = "PIC"
    cx = sh.add_connector(MSO_CONNECTOR.STRAIGHT, Inches(7), Inches(2), Inches(8), Inches(3))
    cx.name = "CX"
    g = sh.add_group_shape()
    g.name = "GRP"
    g.shapes.add_shape(MSO_SHAPE.RECTANGLE, Inches(7), Inches(3), Inches(1), Inches(1))
    g.shapes.add_textbox(Inches(8), Inches(4), Inches(1), Inches(1))
    t = sh.add_table(2, 2, Inches(1), Inches(5), Inches(3), Inches(1))
    t.name = "TBL"

    cd = CategoryChartData()
    cd.categories = ["a", "b", "c"]
    cd.add_series("s1", (1, -2, 3))
    cd.add_series("s2", (4, 5, 6))
    gf = sh.add_chart(XL_CHART_TYPE.BAR_CLUSTERED, Inches(5), Inches(5), Inches(3), Inches(2), cd)
    gf.name = "CH-bar"
    gf.chart.has_legend = True
    gf.chart.plots[0].has_data_labels = True
    xy = XyChartData()
    for n in ("x1", "x2"):
        ser = xy.add_series(n)
        for pt in ((1, 2), (2, 3), (3, 1)):
            ser.add_data_point(*pt)
    gf = sh.add_chart(XL_CHART_TYPE.XY_SCATTER, Inches(5), Inches(5), Inches(3), Inches(2), xy)
    gf.name = "CH-xy"
    gf = sh.add_chart(XL_CHART_TYPE.LINE_MARKERS, Inches(5), Inches(5), Inches(3), Inches(2), cd)
    gf.name = "CH-line"
    gf.chart.has_title = True
    gf.chart.category_axis.has_title = True
    gf = sh.add_chart(XL_CHART_TYPE.PIE, Inches(5), Inches(5), Inches(3), Inches(2), cd)
    gf.name = "CH-pie"
    gf.chart.plots[0].has_data_labels = True
    bd = BubbleChartData()
    for n in ("b1", "b2"):
        ser = bd.add_series(n)
        for pt in ((1, 2, 3), (2, 3, 4), (3, 1, 5)):
            ser.add_data_point(*pt)
    gf = sh.add_chart(XL_CHART_TYPE.BUBBLE, Inches(5), Inches(5), Inches(3), Inches(2), bd)
    gf.name = "CH-bubble"
    _BENCH["index"] = {shp.name: i for i, shp in enumerate(sh)}
    buf = io.BytesIO()
    prs.save(buf)
    return buf.getvalue()


def _strip_sldSz(blob):
    """Harness-side (bare zip + lxml): the same deck without p:sldSz (optional in CT_Presentation)."""
    from lxml import etree

    from mc.drivers.fixtures import write_zip, zip_members
    m = zip_members(blob)
    root = etree.fromstring(m["ppt/presentation.xml"])
    ns = "{http://schemas.openxmlformats.org/presentationml/2006/main}"
    n = 0
    for el in root.findall(ns + "sldSz"):
        root.remove(el)
        n += 1
    if n != 1:
        raise RuntimeError("expected one p:sldSz in the bench deck, found %d" % n)
    m["ppt/presentation.xml"] = etree.tostring(root, xml_declaration=True, encoding="UTF-8", standalone=True)
    return write_zip(m)


_A = "http://schemas.openxmlformats.org/drawingml/2006/main"
_P = "http://schemas.openxmlformats.org/presentationml/2006/main"
_C = "http://schemas.openxmlformats.org/drawingml/2006/chart"
_R = "http://schemas.openxmlformats.org/officeDocument/2006/relationships"
_NS = {"a": _A, "p": _P, "c": _C, "r": _R}


def _powerpoint_forms(blob):
    """Harness-side (bare zip + lxml): the bench deck with a few objects rewritten into the *alternative
    stored forms* PowerPoint (or another producer) writes and python-pptx itself never does:

      CH-bar legend       full c:legend with a manual layout in EDGE mode (a legend the user dragged)
      CH-bar series 1     a PowerPoint-written c:dLbl for point idx 2 (no label for points 0 and 1)
      CH-line series 1    a PowerPoint-written c:dPt for point idx 2
      AS-theme fill       a:schemeClr with a:lumMod (theme colour, 25 % darker)
      AS-nocolor fill     a:sysClr (system colour)
      AS text body        a:normAutofit with fontScale/lnSpcReduction; first paragraph a:spcPct val="90%"
                          (percent-string form of ST_TextSpacingPercentOrPercentString)
      body placeholder    a complete a:xfrm (a placeholder the user moved)
    """
    from lxml import etree

    from mc.drivers.fixtures import write_zip, zip_members
    m = zip_members(blob)
    sname = "ppt/slides/slide1.xml"
    slide = etree.fromstring(m[sname])
    rels = etree.fromstring(m["ppt/slides/_rels/slide1.xml.rels"])

    def frag(xml):
        return etree.fromstring('<x xmlns:a="%s" xmlns:c="%s" xmlns:p="%s">%s</x>' % (_A, _C, _P, xml))[0]

    def one(root, xp):
        r = root.xpath(xp, namespaces=_NS)
        if len(r) != 1:
            raise RuntimeError("bench-pp: %d matches for %s" % (len(r), xp))
        return r[0]

    def chart_member(name):
        rid = one(slide, "//p:graphicFrame[p:nvGraphicFramePr/p:cNvPr/@name='%s']//c:chart/@r:id" % name)
        tgt = [r.get("Target") for r in rels if r.get("Id") == rid][0]
        return "ppt/" + tgt.replace("../", "")

    # -- charts ---------------------------------------------------------------------------------
    bar = chart_member("CH-bar")
    root = etree.fromstring(m[bar])
    legend = one(root, "//c:legend")
    new_legend = frag('<c:legend><c:legendPos val="r"/><c:layout><c:manualLayout><c:xMode val="edge"/><c:yMode val="edge"/>'
                      '<c:x val="0.7"/><c:y val="0.1"/><c:w val="0.25"/><c:h val="0.3"/></c:manualLayout></c:layout>'
                      '<c:overlay val="0"/></c:legend>')
    legend.getparent().replace(legend, new_legend)
    ser = one(root, "(//c:barChart/c:ser)[1]")
    dl = frag('<c:dLbls><c:dLbl><c:idx val="2"/><c:dLblPos val="inEnd"/><c:showLegendKey val="0"/><c:showVal val="1"/>'
              '<c:showCatName val="0"/><c:showSerName val="0"/><c:showPercent val="0"/><c:showBubbleSize val="0"/></c:dLbl>'
              '<c:showLegendKey val="0"/><c:showVal val="0"/><c:showCatName val="0"/><c:showSerName val="0"/>'
              '<c:showPercent val="0"/><c:showBubbleSize val="0"/></c:dLbls>')
    if ser.xpath("c:dLbls|c:dPt", namespaces=_NS):
        raise RuntimeError("bench-pp: bar series already has point formatting")
    one(ser, "c:cat").addprevious(dl)
    m[bar] = etree.tostring(root, xml_declaration=True, encoding="UTF-8", standalone=True)

    line = chart_member("CH-line")
    root = etree.fromstring(m[line])
    ser = one(root, "(//c:lineChart/c:ser)[1]")
    if ser.xpath("c:dPt", namespaces=_NS):
        raise RuntimeError("bench-pp: line series already has c:dPt")
    dpt = frag('<c:dPt><c:idx val="2"/><c:marker><c:symbol val="diamond"/><c:size val="11"/></c:marker><c:bubble3D val="0"/>'
               '<c:spPr><a:ln w="25400"><a:prstDash val="dash"/></a:ln></c:spPr></c:dPt>')
    anchor = ser.xpath("c:dLbls|c:trendline|c:errBars|c:cat", namespaces=_NS)[0]
    anchor.addprevious(dpt)
    m[line] = etree.tostring(root, xml_declaration=True, encoding="UTF-8", standalone=True)

    # -- shapes -----------------------------------------------------------------------------------
    def sp(name):
        return one(slide, "//p:sp[p:nvSpPr/p:cNvPr/@name='%s']" % name)

    fill = one(sp("AS-theme"), "p:spPr/a:solidFill")
    fill.getparent().replace(fill, frag('<a:solidFill><a:schemeClr val="accent2"><a:lumMod val="75000"/></a:schemeClr></a:solidFill>'))
    fill = one(sp("AS-nocolor"), "p:spPr/a:solidFill")
    fill.getparent().replace(fill, frag('<a:solidFill><a:sysClr val="windowText" lastClr="000000"/></a:solidFill>'))
    body = one(sp("AS"), "p:txBody/a:bodyPr")
    for ch in list(body):
        body.remove(ch)
    body.append(frag('<a:normAutofit fontScale="62500" lnSpcReduction="20000"/>'))
    para = one(sp("AS"), "p:txBody/a:p[1]")
    ppr = para.find("{%s}pPr" % _A)
    if ppr is None:
        ppr = etree.SubElement(para, "{%s}pPr" % _A)
        para.insert(0, ppr)
    ppr.insert(0, frag('<a:lnSpc><a:spcPct val="90%"/></a:lnSpc>'))
    ph = one(slide, "(//p:sp[p:nvSpPr/p:nvPr/p:ph])[2]")
    sppr = one(ph, "p:spPr")
    if sppr.find("{%s}xfrm" % _A) is not None:
        raise RuntimeError("bench-pp: body placeholder already has a:xfrm")
    sppr.insert(0, frag('<a:xfrm><a:off x="685800" y="1905000"/><a:ext cx="7772400" cy="3886200"/></a:xfrm>'))
    m[sname] = etree.tostring(slide, xml_declaration=True, encoding="UTF-8", standalone=True)
    return write_zip(m)


def bench_bytes(variant="bench"):
    """Deterministic workbench deck. variant: 'bench' | 'bench-nosldsz' | 'bench-pp'."""
    if "bench" not in _BENCH:
        _BENCH["bench"] = _build_bench()
    if variant == "bench":
        return _BENCH["bench"]
    if variant == "bench-nosldsz":
        if variant not in _BENCH:
            _BENCH[variant] = _strip_sldSz(_BENCH["bench"])
        return _BENCH[variant]
    if variant == "bench-pp":
        if variant not in _BENCH:
            _BENCH[variant] = _powerpoint_forms(_BENCH["bench"])
        return _BENCH[variant]
    raise KeyError(variant)


# ---------------------------------------------------------------------------------------------------
# locating the same kinds of object in an arbitrary (corpus) deck

def discover(prs, max_slides=6):
    """{kind name: (path, part_path)} for the first object of each corpus-enabled kind found in `prs`.
    Index-based paths; uses only the public API."""
    from pptx.enum.shapes import MSO_SHAPE_TYPE as T
    found = {}

    def put(kname, path, part):
        if kname not in found:
            found[kname] = (path, part)

    put("presentation", [], [])
    slides = list(prs.slides)[:max_slides]
    for si, slide in enumerate(slides):
        S = [["slide", si]]
        put("slide", S, S)
        for xi, shp in enumerate(slide.shapes):
            P = S + [["a", "shapes"], ["idx", xi]]
            try:
                st = shp.shape_type
            except Exception:
                st = None
            cname = type(shp).__name__
            if shp.is_placeholder:
                if cname == "SlidePlaceholder":
                    put("placeholder", P, S)
            elif cname == "Shape" and st == T.AUTO_SHAPE:
                put("autoshape", P, S)
                put("line", P + [["a", "line"]], S)
                put("fill", P + [["a", "fill"]], S)
                put("shadow", P + [["a", "shadow"]], S)
            elif cname == "Shape" and st == T.TEXT_BOX:
                put("textbox", P, S)
            elif cname == "Picture":
                put("picture", P, S)
            elif cname == "Connector":
                put("connector", P, S)
            elif cname == "GroupShape":
                put("group", P, S)
            elif cname == "GraphicFrame" and getattr(shp, "has_table", False):
                put("table_frame", P, S)
                TB = P + [["a", "table"]]
                put("table", TB, S)
                put("cell", TB + [["call", "cell", [0, 0]]], S)
                put("row", TB + [["a", "rows"], ["idx", 0]], S)
                put("column", TB + [["a", "columns"], ["idx", 0]], S)
            elif cname == "GraphicFrame" and getattr(shp, "has_chart", False):
                put("chart_frame", P, S)
                _discover_chart(shp.chart, P + [["a", "chart"]], put)
            if cname in ("Shape", "SlidePlaceholder") and getattr(shp, "has_text_frame", False) and "run_font" not in found:
                tf = shp.text_frame
                for pi, para in enumerate(tf.paragraphs):
                    if para.runs:
                        TF = P + [["a", "text_frame"]]
                        put("text_frame", TF, S)
                        put("paragraph", TF + [["a", "paragraphs"], ["idx", pi]], S)
                        put("run_font", TF + [["a", "paragraphs"], ["idx", pi], ["a", "runs"], ["idx", 0], ["a", "font"]], S)
                        break
    return found


def _discover_chart(chart, C, put):
    put("chart", C, C)
    cnames = lambda o: [c.__name__ for c in type(o).__mro__]
    for attr in ("category_axis", "value_axis"):
        try:
            ax = getattr(chart, attr)
        except Exception:
            continue
        names = cnames(ax)
        if "ValueAxis" in names and attr == "value_axis":
            put("value_axis", C + [["a", attr]], C)
        elif attr == "category_axis" and "ValueAxis" not in names:
            put("category_axis", C + [["a", attr]], C)
            if type(ax).__name__ == "CategoryAxis":   # 'only a category axis has an offset' (not a date axis)
                put("tick_labels", C + [["a", attr], ["a", "tick_labels"]], C)
    try:
        if chart.has_legend:
            put("legend", C + [["a", "legend"]], C)
    except Exception:
        pass
    try:
        plots = list(chart.plots)
    except Exception:
        plots = []
    for pi, plot in enumerate(plots):
        PL = C + [["a", "plots"], ["idx", pi]]
        pn = type(plot).__name__
        if pn == "BarPlot":
            put("bar_plot", PL, C)
        elif pn == "BubblePlot":
            put("bubble_plot", PL, C)
        try:
            if plot.has_data_labels:
                put("data_labels", PL + [["a", "data_labels"]], C)
        except Exception:
            pass
        try:
            sers = list(plot.series)
        except Exception:   # plot types whose series class is not implemented
            sers = []
        for xi, ser in enumerate(sers[:1]):
            sn = type(ser).__name__
            SP = PL + [["a", "series"], ["idx", xi]]
            if sn == "BarSeries":
                put("bar_series", SP, C)
            elif sn == "LineSeries":
                put("line_series", SP, C)
                put("marker", SP + [["a", "marker"]], C)
