"""C03 — every XML part stays valid against the ISO/IEC 29500 transitional schemas under any operations.

Histories of public-API operations (creator, then one / two / three formatting operations on the created
object; slide-level operations; documented rejections) are enumerated exhaustively from the operation catalogue
in c03_ops.py, on the default template, and every formatting operation is applied to shapes of every corpus deck
("siblings python-pptx never writes but PowerPoint does"). After EVERY history each XML part (p:, a:, c: roots)
is serialised through the public `part.blob`, parsed with bare lxml, markup-compatibility preprocessed and
validated with libxml2 against the strict schemas shipped in /repo/spec. Oracle = error-set monotonicity: the
normalised error set of a part must be a subset of the error set that part had in the initial deck (new parts start
from the empty set) — "leaves every part as valid as it was".
"""

from __future__ import annotations

import hashlib
import re

from lxml import etree

from mc.core.parallel import fanout
from mc.core.run import HarnessError
from mc.drivers import fixtures as F
from mc.drivers import prs_ops
from mc.oracles import xsd
from mc.props import c03_ops as O

LEVEL = "model_checking"
RULE = ("histories = creator > formatting op [> formatting op [> formatting op]] from the catalogue (all singles, all "
        "ordered pairs per object kind; thorough: pairs for every chart type and triples over text operations), slide-level "
        "operations, documented rejections, and every catalogue operation on shapes of every corpus deck; a history is "
        "non-trivial when it changed at least one XML part (distinct by (initial deck, history)); states = distinct "
        "(part name, part blob) pairs validated")
ASSUMPTIONS = [
    "operation catalogue mc/props/c03_ops.py (about 400 operations incl. per-chart-type variants); argument values are those listed there",
    "strict transitional XSDs from /repo/spec after MCE preprocessing (AlternateContent -> Fallback, Ignorable namespaces dropped)",
    "error-set monotonicity per part: pre-existing errors of PowerPoint-authored parts (negative c:axId) are tolerated, new ones are not",
    "in-domain operations that raise on a corpus shape are counted as inapplicable there, not as violations of this property",
]

_bare = etree.XMLParser(resolve_entities=False, remove_blank_text=False)
NSS = (xsd.NS_P, xsd.NS_A, xsd.NS_C)
_MEMO = {}


def part_errors(blob):
    k = hashlib.sha1(blob).digest()
    if k in _MEMO:
        return _MEMO[k]
    try:
        root = etree.fromstring(blob, _bare)
    except etree.XMLSyntaxError as e:
        res = frozenset({("", "NOT WELL-FORMED: %s" % e)})
        _MEMO[k] = res
        return res
    if etree.QName(root).namespace not in NSS:
        res = None
    else:
        S = xsd.SchemaSet.get(False)
        errs = S.errors(xsd.mce_preprocess(root))
        res = frozenset(xsd.normalise_errors(errs))
    _MEMO[k] = res
    return res


def xml_parts(prs):
    out = {}
    for p in prs.part.package.iter_parts():
        ct = p.content_type
        if ct.endswith("+xml") or ct.endswith("/xml"):
            out[str(p.partname)] = p.blob
    return out


_BASE = {}


def _blob(init):
    if init.startswith("bench:"):
        from mc.props import c09_catalog as cat
        return cat.bench_bytes(init[len("bench:"):])
    return prs_ops.initial_blob(init)


def base_errors(init):
    """dict partname -> (sha1, error set) of the initial deck, through the same pipeline."""
    if init not in _BASE:
        prs = F.open_prs(_blob(init))
        d = {}
        for pn, blob in xml_parts(prs).items():
            d[pn] = (hashlib.sha1(blob).digest(), part_errors(blob))
        _BASE[init] = d
    return _BASE[init]


def _norm_msg(m):
    m = re.sub(r"\{[^}]*\}", "", m)
    return re.sub(r"-?\d+(\.\d+)?", "N", m)


def _part_kind(pn):
    return re.sub(r"\d+", "N", pn.rsplit("/", 1)[-1])


# ---- locating targets --------------------------------------------------------------------------------------

def _kind_of(sh):
    from pptx.enum.shapes import MSO_SHAPE_TYPE as T
    try:
        st = sh.shape_type
    except Exception:  # noqa: BLE001
        return None
    if getattr(sh, "has_chart", False):
        return "chart"
    if getattr(sh, "has_table", False):
        return "table"
    if st == T.GROUP:
        return "group"
    if st in (T.PICTURE, T.MEDIA):
        return "picture"
    if st == T.LINE:
        return "connector"
    if st in (T.AUTO_SHAPE, T.TEXT_BOX, T.FREEFORM):
        return "autoshape"
    if st == T.PLACEHOLDER:
        if hasattr(sh, "image") and sh._element.tag.endswith("}pic"):
            return "picture"
        if sh._element.tag.endswith("}sp"):
            return "autoshape"
        return "frame"
    if st in (T.EMBEDDED_OLE_OBJECT, T.LINKED_OLE_OBJECT):
        return "frame"
    return None


def run_case(case):
    """case: {"init":..., "layout": int|None, "slide": int|None, "shape": int|None, "steps": [[tag, name], ...]}
    Returns (outcome label, prs, changed flag) — executes on the real implementation."""
    prs = F.open_prs(_blob(case["init"]))
    if case.get("cat"):
        return _run_cat(prs, case), prs
    if case.get("layout") is not None:
        slide = prs.slides.add_slide(prs.slide_layouts[case["layout"]])
    else:
        slide = prs.slides[case["slide"]]
    target, kind, creator = None, None, ""
    if case.get("shape") is not None:
        target = list(slide.shapes)[case["shape"]]
        kind = _kind_of(target)
    label = "ok"
    for tag, name in case["steps"]:
        if tag == "create":
            cname, ckind, fn = next(c for c in O.CREATE if c[0] == name)
            target, kind, creator = fn(slide), ckind, cname
        elif tag == "fmt":
            ctn = creator
            if kind == "chart" and not creator:
                ctn = "add_chart:" + target.chart.chart_type.name
            fn = dict(O.format_ops(kind, ctn)).get(name)
            if fn is None:
                return "inapplicable", prs
            try:
                fn(target)
            except Exception as e:  # noqa: BLE001
                return "raised:%s" % type(e).__name__, prs
        elif tag == "slide":
            fn = dict(O.slide_ops())[name]
            try:
                fn(slide)
            except Exception as e:  # noqa: BLE001
                return "raised:%s" % type(e).__name__, prs
        elif tag == "reject":
            ent = next(r for r in O.reject_ops(kind) if r[0] == name)
            try:
                ent[1](target)
                label = "not-rejected"
            except ent[2]:
                label = "rejected"
            except Exception as e:  # noqa: BLE001
                label = "rejected-with:%s" % type(e).__name__
    return label, prs


def _run_cat(prs, case):
    """Steps from the C09 property catalogue: [[kind, property, value label], ...] on the workbench deck. Every
    value class is applied (valid, None, out-of-domain, loosely documented); a rejection is a legal outcome."""
    from mc.props import c09_catalog as cat
    label = "ok"
    for kn, pn, vl in case["cat"]:
        K = cat.kind(kn)
        P = K.prop(pn)
        V = P.value(vl)
        try:
            obj = cat.resolve(prs, K.path)
            value = cat.mk(V.spec, prs)
            if P.setter:
                cat.ACCESSORS[P.setter][1](obj, value)
            else:
                setattr(obj, P.name, value)
            label = "accepted"
        except (TypeError, ValueError):
            label = "rejected"
        except Exception as e:  # noqa: BLE001
            label = "raised:%s" % type(e).__name__
    return label


def cat_cases(thorough):
    from mc.props import c09_catalog as cat
    cases = []
    for K in cat.kinds():
        if not str(K.deck).startswith("bench"):
            continue
        init = "bench:" + K.deck
        singles = [(P.name, V.label) for P in K.settable for V in P.alphabet(thorough)]
        for pn, vl in singles:
            cases.append({"init": init, "cat": [[K.name, pn, vl]], "steps": [["cat", "%s.%s=%s" % (K.name, pn, vl)]]})
        if not K.pairs:
            continue
        pa = [(P.name, V.label) for P in K.settable for V in P.pair_alphabet(thorough)]
        inv = [(P.name, V.label) for P in K.settable for V in P.alphabet(thorough) if V.cls in ("invalid", "either")]
        # rejected call first, then a valid assignment (and vice versa): a rejection must not leave debris that a
        # later operation turns into an invalid part
        for a in pa + inv:
            for b in pa:
                cases.append({"init": init, "cat": [[K.name, a[0], a[1]], [K.name, b[0], b[1]]],
                              "steps": [["cat", "%s.%s=%s" % (K.name, a[0], a[1])], ["cat", "%s.%s=%s" % (K.name, b[0], b[1])]]})
    return cases


def check_case(part, case):
    label, prs = run_case(case)
    steps = ">".join(n for _, n in case["steps"])
    part.count("transitions", len(case["steps"]))
    part.count("traces_validated_against_impl", len(case["steps"]))
    part.count("histories")
    part.outcome(case["steps"][-1][1] if case["steps"] else "-", label)
    if label == "inapplicable":
        part.count("inapplicable")
        return
    base = base_errors(case["init"])
    changed = False
    try:
        parts_now = xml_parts(prs)
    except Exception as e:  # noqa: BLE001  the package can no longer be walked / serialised at all
        # a twin kind of the catalogue ("<kind>@<other object>") is the same operation on a second object of the kind:
        # the same defect keeps the signature it has on the first object
        import re as _re
        sig = "C03|parts-unreadable|%s|after=%s" % (type(e).__name__, _re.sub(r"@[^.=]*", "", case["steps"][-1][1]))
        part.violation(sig, "init=%s %s steps=%s (%s): iterating/serialising the parts raised %r" % (case["init"], _loc(case), steps, label, e),
                       dict(case, signature=sig))
        return
    for pn, blob in parts_now.items():
        h = hashlib.sha1(blob).digest()
        b = base.get(pn)
        if b is not None and b[0] == h:
            continue
        changed = True
        part.add("states", (pn, h))
        errs = part_errors(blob)
        if errs is None:
            continue
        allowed = b[1] if (b is not None and b[1] is not None) else frozenset()
        for path, msg in sorted(errs - allowed):
            # signature: part kind + the offending element with its parent (not the whole path: the same defect
            # shows under p:sp, p:pic, a:tc ... alike) + normalised message
            sig = "C03|xsd|%s|%s|%s" % (_part_kind(pn), "/".join(path.split("/")[-2:]), _norm_msg(msg))
            part.violation(sig, "init=%s %s steps=%s (%s): %s: %s @ %s" % (
                case["init"], _loc(case), steps, label, pn, msg, path), dict(case, signature=sig))
    if changed:
        part.count("nontrivial_count")
    if label.startswith("raised"):
        part.count("raised_in_domain")


def _loc(case):
    if case.get("cat"):
        return "workbench"
    if case.get("layout") is not None:
        return "new-slide(layout=%d)" % case["layout"]
    return "slide=%s shape=%s" % (case.get("slide"), case.get("shape"))


def _chunk(part, cases):
    for c in cases:
        check_case(part, c)


# ---- enumeration -----------------------------------------------------------------------------------------

PAIR_KINDS_QUICK = {"add_shape", "add_table", "add_chart:BAR_CLUSTERED", "add_picture", "add_connector", "add_group"}
TEXT_PREFIXES = ("tf.", "p.", "r.")


def default_cases(thorough):
    cases = []
    for cname, kind, _fn in O.CREATE:
        base = {"init": "default", "layout": 6, "steps": [["create", cname]]}
        cases.append(base)
        fops = [n for n, _ in O.format_ops(kind, cname)]
        for f in fops:
            cases.append({"init": "default", "layout": 6, "steps": [["create", cname], ["fmt", f]]})
        if thorough or cname in PAIR_KINDS_QUICK or (cname.startswith("add_chart:") and cname.split(":")[1] in ("LINE_MARKERS", "PIE", "XY_SCATTER")):
            pair_ops = fops
            if cname.startswith("add_chart:") and cname not in PAIR_KINDS_QUICK and not thorough:
                # other chart types in quick: pairs over the type-specific operations x all operations
                generic = {n for n, _ in O._chart_ops()} | {n for n, _ in O._common()}
                pair_ops = [f for f in fops if f not in generic]
            for f1 in pair_ops:
                for f2 in fops:
                    cases.append({"init": "default", "layout": 6, "steps": [["create", cname], ["fmt", f1], ["fmt", f2]]})
        for r in O.reject_ops(kind):
            cases.append({"init": "default", "layout": 6, "steps": [["create", cname], ["reject", r[0]]]})
            for f in fops[:: max(1, len(fops) // 12)]:
                cases.append({"init": "default", "layout": 6, "steps": [["create", cname], ["fmt", f], ["reject", r[0]]]})
    if thorough:
        tops = [n for n, _ in O.format_ops("autoshape", "add_shape") if n.startswith(TEXT_PREFIXES)]
        for a in tops:
            for b in tops:
                for c in tops[::3]:
                    cases.append({"init": "default", "layout": 6, "steps": [["create", "add_shape"], ["fmt", a], ["fmt", b], ["fmt", c]]})
    sops = [n for n, _ in O.slide_ops()]
    for layout in (0, 1, 6, 8):
        for a in sops:
            cases.append({"init": "default", "layout": layout, "steps": [["slide", a]]})
            for b in sops:
                cases.append({"init": "default", "layout": layout, "steps": [["slide", a], ["slide", b]]})
    return cases


def corpus_cases(thorough):
    """every catalogue operation on shapes of every corpus deck (quick: first 2 shapes of each kind per slide)."""
    cases = []
    for path in F.corpus():
        init = "corpus:" + F.corpus_name(path)
        try:
            prs = F.open_prs(prs_ops.initial_blob(init))
        except Exception:  # noqa: BLE001
            continue
        for si, slide in enumerate(prs.slides):
            seen = {}
            for hi, sh in enumerate(slide.shapes):
                kind = _kind_of(sh)
                if kind is None:
                    continue
                seen[kind] = seen.get(kind, 0) + 1
                if not thorough and seen[kind] > 2:
                    continue
                ctn = ""
                if kind == "chart":
                    try:
                        ctn = "add_chart:" + sh.chart.chart_type.name
                    except Exception:  # noqa: BLE001
                        ctn = "add_chart:BAR_CLUSTERED"
                for f, _ in O.format_ops(kind, ctn):
                    cases.append({"init": init, "slide": si, "shape": hi, "steps": [["fmt", f]]})
            for a, _ in O.slide_ops():
                cases.append({"init": init, "slide": si, "steps": [["slide", a]]})
    return cases


def run(ctx):
    xsd.SchemaSet.get(False)  # compile before forking
    d = default_cases(ctx.thorough) + cat_cases(ctx.thorough)
    c = corpus_cases(ctx.thorough)
    ctx.extra["histories_default_deck"] = len(d)
    ctx.extra["histories_corpus"] = len(c)
    ctx.extra["catalogue"] = {"creators": len(O.CREATE), "format_ops": {k: len(O.format_ops(k, "add_chart:BAR_CLUSTERED")) for k in list(O.FORMAT) + ["chart"]},
                              "slide_ops": len(O.slide_ops())}
    ctx.sample(d[len(d) // 3])
    ctx.sample(d[-1])
    ctx.sample(c[len(c) // 2])
    fanout(ctx, _chunk, ctx.rotate(d + c))
    if ctx.counters.get("histories", 0) != len(d) + len(c):
        raise HarnessError("histories executed %s != enumerated %s" % (ctx.counters.get("histories"), len(d) + len(c)))
    ctx.counters["states"] = len(ctx.sets.pop("states", ()))
    raised = {op: sorted(s) for op, s in ctx.outcomes.items() if any(x.startswith("raised") for x in s)}
    ctx.extra["operations_that_raised_somewhere"] = len(raised)


def replay(data):
    from mc.core.run import Partial
    part = Partial()
    case = {k: v for k, v in data.items() if k != "signature"}
    check_case(part, case)
    for sig, what, _ in part.violations:
        if sig == data.get("signature"):
            return what
    return None
