"""C06 — shape ids, slide ids, relationship ids and part names are unique and stable.

Engine E1, replay mode, over decks with seeded id populations (harness-side XML patching of a saved deck:
gaps, ids of 2^31 and 2^32-2, PowerPoint-style non-numeric creationId GUIDs in extension lists, pre-existing
duplicates, leading zeros; slide-id lists with gaps, the upper bound 2147483647 and duplicates).

Every transition records, through part blobs parsed with bare lxml and the package's relationship
collections, the observation BEFORE and AFTER the operation, and checks the statement on the difference:
new shape ids are positive integers not previously used in that part; numeric p:cNvPr ids pairwise distinct
(except ids already duplicated in the initial deck); slide ids distinct, in 256..2147483647, unchanged for
existing slides; an rId still referenced by an r:* attribute keeps its target; part names distinct; handles
(shape id -> element kind and name; slide id -> first-shape text) still designate the same content. In every
state, after the slide collection is touched, slide parts are named slide1..n in presentation order.
"""

from __future__ import annotations

import hashlib
import io
import re

from lxml import etree

from mc.core import explorer
from mc.core.explorer import SKIP
from mc.drivers import fixtures as F
from mc.drivers import prs_ops, state
from mc.oracles import opc_ref

LEVEL = "model_checking"
RULE = ("BFS over addition histories (replay mode) from decks with seeded shape-id and slide-id populations; every "
        "transition's before/after observation is checked; non-trivial = transitions that allocate at least one new "
        "shape id, slide id, relationship id or part name (counted per distinct (initial deck, history))")
ASSUMPTIONS = [
    "id populations and operation alphabet are those listed in coverage (bounded)",
    "shape ids are the numeric p:cNvPr/@id values of a slide-like part (the statement's 'shape id')",
    "trusted: bare lxml parsing of part blobs; the package's in-memory relationship mapping for rId -> target",
]

NS = {"p": "http://schemas.openxmlformats.org/presentationml/2006/main",
      "a": "http://schemas.openxmlformats.org/drawingml/2006/main",
      "r": opc_ref.R_NS}
EMU = 914400

SHAPE_POPS = {
    "contig": ["2", "3", "4"],
    "gap": ["2", "3", "6"],
    "huge31": ["2", "3", "2147483648"],
    "huge32": ["2", "3", "4294967294"],
    "guid": ["2", "3", "4"],       # + a16:creationId id="{GUID}" extension on every shape
    "dup": ["2", "2", "3"],
    "lead0": ["002", "03", "4"],
    "gap1": ["3", "4", "7"],        # id 2 free: first-gap allocator lands below existing ids
}
SLIDE_POPS = {
    "s256": ["256", "257", "258"],
    "sgap": ["256", "300", "258"],
    "smax": ["256", "257", "2147483647"],
    "sdup": ["256", "256", "258"],
    "sunord": ["300", "256", "257"],
}

_GUID_EXT = ('<a:extLst xmlns:a="%s"><a:ext uri="{FF2B5EF4-FFF2-40B4-BE49-F238E27FC236}">'
             '<a16:creationId xmlns:a16="http://schemas.microsoft.com/office/drawing/2014/main" '
             'id="{00000000-0008-0000-0000-00000%d000000}"/></a:ext></a:extLst>')

_BLOBS = {}


def _base_deck():
    prs = F.open_prs()
    for i in range(3):
        s = prs.slides.add_slide(prs.slide_layouts[6])
        for j in range(3):
            tb = s.shapes.add_textbox(EMU * (j + 1), EMU, EMU, EMU)
            tb.text_frame.text = "s%d-t%d" % (i + 1, j + 1)
    return F.save_bytes(prs)


def initial_blob(name):
    if name in _BLOBS:
        return _BLOBS[name]
    if name == "default":
        b = F.read_bytes(F.DEFAULT_PPTX)
    elif name in ("non_contiguous", "out_of_order", "names_1_5_3", "twelve_last_first"):
        b = prs_ops.initial_blob(name)     # slide part names slide3, slide7 / names out of presentation order
    elif name == "ten_each":
        b = prs_ops.initial_blob("ten_each")   # 10 charts, 10 workbooks, 10 notes slides; a gap in slide 1's relationship ids
    elif name == "rich":
        b = prs_ops.initial_blob("rich")   # 10 images, 2 charts, table, notes: allocators far from their first value
    else:
        sp, sl = name.split("/")
        m = F.zip_members(_base_deck())
        root = etree.fromstring(m["ppt/slides/slide1.xml"])
        cnv = root.xpath("//p:sp/p:nvSpPr/p:cNvPr", namespaces=NS)
        assert len(cnv) == 3
        for k, (el, v) in enumerate(zip(cnv, SHAPE_POPS[sp])):
            el.set("id", v)
            if sp == "guid":
                el.append(etree.fromstring(_GUID_EXT % (NS["a"], k + 1)))
        m["ppt/slides/slide1.xml"] = etree.tostring(root, xml_declaration=True, encoding="UTF-8", standalone=True)
        proot = etree.fromstring(m["ppt/presentation.xml"])
        ids = proot.xpath("//p:sldIdLst/p:sldId", namespaces=NS)
        for el, v in zip(ids, SLIDE_POPS[sl]):
            el.set("id", v)
        m["ppt/presentation.xml"] = etree.tostring(proot, xml_declaration=True, encoding="UTF-8", standalone=True)
        b = F.write_zip(m)
    _BLOBS[name] = b
    return b


INITS = ["%s/s256" % p for p in SHAPE_POPS] + ["contig/%s" % s for s in SLIDE_POPS if s != "s256"] + ["default", "rich", "non_contiguous", "out_of_order", "names_1_5_3", "ten_each", "twelve_last_first"]


MID_INITS = ["contig/s256", "gap1/s256", "huge32/s256", "guid/s256", "dup/s256", "lead0/s256", "contig/smax", "contig/sdup", "default", "rich", "non_contiguous", "out_of_order", "names_1_5_3", "ten_each", "twelve_last_first"]
SUB_INITS = ["gap1/s256", "huge32/s256", "guid/s256", "dup/s256", "contig/smax", "default"]


# ---- observation ----------------------------------------------------------------------------------

def observe(prs):
    """Read-only observation of every id the statement talks about (part blobs + relationship mappings)."""
    pkg = prs.part.package
    obs = {"parts": {}, "partnames": [], "rels": {}, "slide_ids": [], "slide_handles": {}}
    pres_root = etree.fromstring(prs.part.blob)
    for el in pres_root.xpath("//p:sldIdLst/p:sldId", namespaces=NS):
        obs["slide_ids"].append((el.get("id"), el.get("{%s}id" % NS["r"])))
    prels = prs.part.rels
    for sid, rid in obs["slide_ids"]:
        try:
            sp = prels[rid].target_part
        except KeyError:
            continue
        root = etree.fromstring(sp.blob)
        t = sorted((el.get("id"), etree.QName(el.getparent().getparent()).localname, el.get("name") or "")
                   for el in root.iter("{%s}cNvPr" % NS["p"]))
        obs["slide_handles"].setdefault(sid, []).append(t)
    for part in pkg.iter_parts():
        pn = str(part.partname)
        obs["partnames"].append(pn)
        rels = {}
        for rid, rel in part.rels.items():
            rels[rid] = (rel.reltype, "ext:" + rel.target_ref if rel.is_external else "part:%x" % id(rel.target_part))
        obs["rels"][pn] = rels
        ct = part.content_type
        if ct.endswith("presentationml.slide+xml") or ct.endswith("slideLayout+xml") or ct.endswith("slideMaster+xml") or ct.endswith("notesSlide+xml") or ct.endswith("notesMaster+xml"):
            root = etree.fromstring(part.blob)
            ids = []
            for el in root.iter("{%s}cNvPr" % NS["p"]):
                if any(etree.QName(a).localname == "graphicData" for a in (x.tag for x in el.iterancestors())):
                    continue  # p:pic inside p:oleObj carries PowerPoint's conventional id="0": not a shape-tree member
                ids.append((el.get("id"), etree.QName(el.getparent().getparent()).localname, el.get("name")))
            used = set()
            refs = []
            tree = root.getroottree()
            for el in root.iter():
                if isinstance(el.tag, str):
                    for k, v in el.attrib.items():
                        if k.startswith("{%s}" % NS["r"]):
                            used.add(v)
                            owner = el
                            for a in el.iterancestors():
                                if etree.QName(a).localname in ("sp", "pic", "cxnSp", "graphicFrame"):
                                    owner = a
                                    break
                            oid = None
                            for c in owner.iter("{%s}cNvPr" % NS["p"]):
                                oid = c.get("id")
                                break
                            refs.append((tree.getpath(el), k, v, hashlib.sha1(etree.tostring(owner, method="c14n")).hexdigest(), oid))
            obs["parts"][pn] = {"ids": ids, "rids_used": used, "refs": refs, "obj": "%x" % id(part)}
    return obs


class Live6(prs_ops.Live):
    pass


def _slide0(live):
    sl = live.prs.slides
    return sl[0] if len(sl) else None


def _group(slide, depth, create):
    from pptx.enum.shapes import MSO_SHAPE_TYPE
    shapes = slide.shapes
    g = None
    for d in range(depth):
        found = None
        for sh in shapes:
            if sh.shape_type == MSO_SHAPE_TYPE.GROUP:
                found = sh
        if found is None:
            if not create:
                return None
            found = shapes.add_group_shape()
        g = found
        shapes = g.shapes
    return g


def op_turbo(live, op):
    s = _slide0(live)
    if s is None:
        return SKIP
    s.shapes.turbo_add_enabled = bool(op["on"])
    return "on" if op["on"] else "off"


def op_add_in_group(live, op):
    from pptx.enum.shapes import MSO_CONNECTOR, MSO_SHAPE
    s = _slide0(live)
    if s is None:
        return SKIP
    g = _group(s, op["depth"], True)
    k = op.get("kind", "shape")
    if k == "shape":
        g.shapes.add_shape(MSO_SHAPE.OVAL, EMU, EMU, EMU, EMU)
    elif k == "textbox":
        g.shapes.add_textbox(EMU, EMU, EMU, EMU)
    elif k == "picture":
        g.shapes.add_picture(io.BytesIO(prs_ops.img("A")), EMU, EMU)
    elif k == "connector":
        g.shapes.add_connector(MSO_CONNECTOR.STRAIGHT, 0, 0, EMU, EMU)
    elif k == "freeform":
        fb = g.shapes.build_freeform(0, 0, scale=1000.0)
        fb.add_line_segments([(100, 0), (100, 100)], close=True)
        fb.convert_to_shape(EMU, EMU)
    elif k == "group":
        g.shapes.add_group_shape()
    return "ok"


EXTRA_OPS = {"turbo": op_turbo, "add_in_group": op_add_in_group}


def apply(live, op):
    last = live.n_applied == live.n_hist - 1
    live.n_applied += 1
    pre = observe(live.prs) if last else None
    if op["op"] in EXTRA_OPS:
        try:
            label = EXTRA_OPS[op["op"]](live, op)
        except Exception as e:  # noqa: BLE001
            label = "UNEXPECTED:%s:%s" % (type(e).__name__, str(e)[:120])
            live.unexpected.append((op, label))
    else:
        label = prs_ops.apply(live, op)
    if label != SKIP and last:
        live.log.append((op, pre, observe(live.prs)))
    return label


S0 = {"slide": 0}
FULL = [
    dict(op="add_textbox", **S0), dict(op="add_shape", kind="RECTANGLE", **S0), dict(op="add_picture", img="A", via="stream", **S0),
    dict(op="add_connector", **S0), dict(op="add_table", **S0), dict(op="add_chart", kind="bar", **S0),
    dict(op="add_textbox", slide=1), dict(op="add_picture", img="B", via="stream", slide=1),
    dict(op="add_movie", **S0),
    dict(op="add_group", member="none", **S0), dict(op="add_freeform", **S0),
    dict(op="add_in_group", depth=1, kind="shape"), dict(op="add_in_group", depth=2, kind="textbox"),
    dict(op="add_in_group", depth=1, kind="freeform"), dict(op="add_in_group", depth=1, kind="group"),
    dict(op="add_in_group", depth=2, kind="picture"), dict(op="add_in_group", depth=1, kind="connector"),
    dict(op="turbo", on=True), dict(op="turbo", on=False),
    dict(op="add_slide", layout=6), dict(op="add_slide", layout=1), dict(op="add_picture", img="I11", via="stream", **S0),
    dict(op="add_chart", kind="xy", **S0),
    dict(op="notes_text", text="n", **S0), dict(op="hlink_shape", url="https://e.com/a", **S0), dict(op="hlink_shape", url=None, **S0),
    dict(op="hlink_shape", url="https://e.com/a", which="first", **S0), dict(op="hlink_shape", url=None, which="first", **S0),
    dict(op="hlink_run", url="https://e.com/a", which="first", **S0), dict(op="hlink_run", url="https://e.com/a", **S0),
    dict(op="hlink_run", url=None, **S0),
    dict(op="save"), dict(op="touch_slides"), dict(op="save_reopen"),
]
# relationship-sharing sub-alphabet: two references to one relationship arise when two shapes / two runs link
# to the same URL; clearing or re-pointing one of them must not disturb the other
REL = [
    dict(op="hlink_shape", url="https://e.com/a", which="first", **S0), dict(op="hlink_shape", url="https://e.com/a", **S0),
    dict(op="hlink_shape", url=None, **S0), dict(op="hlink_shape", url="https://e.com/b", **S0),
    dict(op="hlink_run", url="https://e.com/a", which="first", **S0), dict(op="hlink_run", url="https://e.com/a", **S0),
    dict(op="hlink_run", url=None, **S0), dict(op="hlink_run", url="https://e.com/b", **S0),
    dict(op="add_picture", img="A", via="stream", **S0), dict(op="notes_text", text="n", **S0), dict(op="save_reopen"),
]
SUB = [
    dict(op="add_textbox", **S0), dict(op="add_group", member="none", **S0), dict(op="add_in_group", depth=1, kind="shape"),
    dict(op="add_in_group", depth=1, kind="freeform"), dict(op="add_freeform", **S0),
    dict(op="turbo", on=True), dict(op="turbo", on=False), dict(op="add_slide", layout=6),
    dict(op="add_picture", img="A", via="stream", **S0),
]


class System:
    name = "ids"

    def __init__(self, alpha, inits=None):
        self._alpha = alpha
        self._inits = inits or INITS

    def initials(self):
        return list(self._inits)

    def build(self, name):
        return Live6(F.open_prs(initial_blob(name)), name)

    def begin(self, live, hist):
        live.n_hist = len(hist)
        live.n_applied = 0
        live.first_obs = observe(live.prs)

    def ops(self, level):
        return self._alpha

    def apply(self, live, op):
        return apply(live, op)

    def canon(self, live):
        flags = state.cache_flags(live.prs.part.package)
        h = hashlib.sha1()
        for part in sorted(live.prs.part.package.iter_parts(), key=lambda p: p.partname):
            h.update(str(part.partname).encode())
            h.update(hashlib.sha1(part.blob).digest())
            for rid, rel in sorted(part.rels.items()):
                h.update(("%s>%s" % (rid, rel.target_ref if rel.is_external else rel.target_part.partname)).encode())
        return (h.hexdigest(), flags)

    def check(self, live, init, hist, part):
        check_last(live, init, hist, part)


def _hs(hist):
    return ">".join(o["op"] + ("" if len(o) == 1 else "(" + ",".join("%s=%s" % (k, v) for k, v in sorted(o.items()) if k != "op") + ")") for o in hist)


def _numeric(s):
    return s is not None and re.fullmatch(r"[0-9]+", s) is not None


def check_last(live, init, hist, part):
    hs = _hs(hist)

    def viol(sig, msg):
        part.violation(sig, "init=%s history=%s: %s" % (init, hs, msg), {"init": init, "history": hist, "signature": sig})

    for op, label in live.unexpected:
        viol("C06|op-raised|%s|%s" % (op["op"], label.split(":")[1] if ":" in label else label), label)
    pop = init.split("/")[0]
    init_dup = set()
    if live.log:
        # ids duplicated in the very first observation are tolerated ("unless already duplicated at the start")
        first_pre = live.first_obs
        for pn, d in first_pre["parts"].items():
            seen = {}
            for v, _, _ in d["ids"]:
                if _numeric(v):
                    seen[int(v)] = seen.get(int(v), 0) + 1
            init_dup |= {(pn, k) for k, c in seen.items() if c > 1}
        first_sl = [s for s, _ in first_pre["slide_ids"]]
        init_dup_slides = {s for s in first_sl if first_sl.count(s) > 1}
    else:
        init_dup_slides = set()

    if live.log:
        op, pre, post = live.log[-1]
        opn = op["op"] + ("/" + op["kind"] if "kind" in op and op["op"] == "add_in_group" else "")
        turbo = "off"
        for o in hist[:-1]:
            if o["op"] == "turbo":
                turbo = "on" if o["on"] else "off"
            elif o["op"] == "save_reopen":
                turbo = "off"
        # in turbo mode the failing call is whichever top-level addition comes next: one signature per rule
        pop = "turbo=on" if turbo == "on" else "turbo=off|op=" + opn
        allocated = False
        # after save_reopen part identity is new: match parts by name there; otherwise by object identity
        by_obj = op["op"] != "save_reopen"
        pre_by = {(d["obj"] if by_obj else pn): (pn, d) for pn, d in pre["parts"].items()}
        for pn, d in post["parts"].items():
            key = d["obj"] if by_obj else pn
            before = pre_by.get(key)
            ids_after = [v for v, _, _ in d["ids"]]
            if before is None:
                new = ids_after
                old_all = []
            else:
                old_all = [v for v, _, _ in before[1]["ids"]]
                # multiset difference
                tmp = list(old_all)
                new = []
                for v in ids_after:
                    if v in tmp:
                        tmp.remove(v)
                    else:
                        new.append(v)
            for v in new:
                allocated = True
                if not _numeric(v) or int(v) <= 0:
                    viol("C06|shape-id-not-positive-int|%s" % pop, "%s: new shape id %r" % (pn, v))
                elif before is not None and int(v) in {int(x) for x in old_all if _numeric(x)}:
                    viol("C06|shape-id-reused|%s" % pop, "%s: new shape id %s already used (ids before: %s)" % (pn, v, old_all))
            nums = [int(v) for v in ids_after if _numeric(v)]
            dups = {k for k in nums if nums.count(k) > 1 and (pn, k) not in init_dup}
            if dups:
                viol("C06|shape-id-duplicate|%s" % pop, "%s: duplicate shape ids %s in %s" % (pn, sorted(dups), ids_after))
            # handles: id -> (element kind, name) for ids that existed before (and are unique)
            if before is not None:
                bmap = {}
                for v, kind, name in before[1]["ids"]:
                    bmap.setdefault(v, []).append((kind, name))
                amap = {}
                for v, kind, name in d["ids"]:
                    amap.setdefault(v, []).append((kind, name))
                for v, lst in bmap.items():
                    if len(lst) == 1 and v in amap and len(amap[v]) == 1 and amap[v] != lst:
                        viol("C06|handle-shape|op=%s" % opn, "%s: shape id %s designated %s, now %s" % (pn, v, lst, amap[v]))
                    if len(lst) == 1 and v not in amap:
                        viol("C06|handle-shape-lost|op=%s" % opn, "%s: shape id %s (%s) no longer present" % (pn, v, lst))
            # rIds in use keep their target: a reference whose enclosing shape XML is unchanged by the operation
            # must still resolve to the same target
            if before is not None and by_obj:
                rb, ra = pre["rels"].get(before[0], {}), post["rels"].get(pn, {})
                after_refs = {(p_, k_, v_, h_) for p_, k_, v_, h_, _o in d["refs"]}
                retarget = op["op"] in ("hlink_shape", "hlink_run", "target_slide")
                for p_, k_, v_, h_, o_ in before[1]["refs"]:
                    if (p_, k_, v_, h_) not in after_refs:
                        continue  # the operation edited (or moved) the referencing shape
                    if retarget and o_ is not None and str(o_) == str(live.last_target):
                        continue  # the shape whose link the operation re-pointed: same rId may legitimately be re-used
                    if v_ in rb and v_ in ra and rb[v_] != ra[v_]:
                        viol("C06|rid-reassigned|op=%s" % opn, "%s: %s was %s now %s while still referenced by unchanged %s" % (pn, v_, rb[v_], ra[v_], p_))
                    if v_ in rb and v_ not in ra:
                        viol("C06|rid-dropped-in-use|op=%s" % opn, "%s: %s dropped while still referenced by unchanged %s" % (pn, v_, p_))
                if set(ra) - set(rb):
                    allocated = True
        # slide ids
        pre_s, post_s = [s for s, _ in pre["slide_ids"]], [s for s, _ in post["slide_ids"]]
        if post_s[:len(pre_s)] != pre_s:
            viol("C06|slide-id-changed|op=%s" % opn, "slide ids before %s after %s" % (pre_s, post_s))
        for s in post_s[len(pre_s):]:
            allocated = True
            if not _numeric(s) or not (256 <= int(s) <= 2147483647):
                viol("C06|slide-id-out-of-range|op=%s|slidepop=%s" % (opn, init.split("/")[-1]), "new slide id %r" % s)
            if s in pre_s:
                viol("C06|slide-id-reused|op=%s|slidepop=%s" % (opn, init.split("/")[-1]), "new slide id %s already in %s" % (s, pre_s))
        d2 = {s for s in post_s if post_s.count(s) > 1 and s not in init_dup_slides}
        if d2:
            viol("C06|slide-id-duplicate|op=%s" % opn, "duplicate slide ids %s" % sorted(d2))
        for sid, txt in pre["slide_handles"].items():
            if len(txt) == 1 and sid in post["slide_handles"] and len(post["slide_handles"][sid]) == 1:
                missing = [x for x in txt[0] if x not in post["slide_handles"][sid][0]]
                if missing:
                    viol("C06|handle-slide|op=%s" % opn, "slide id %s no longer designates the slide holding shapes %s" % (sid, missing[:3]))
        # part names distinct
        pns = post["partnames"]
        if len(pns) != len(set(pns)):
            dd = sorted({p for p in pns if pns.count(p) > 1})
            viol("C06|partname-duplicate|op=%s" % opn, "duplicate part names %s" % dd)
        if len(post["partnames"]) > len(pre["partnames"]):
            allocated = True
        if allocated:
            part.count("nontrivial_count")
    # slide parts named slide1..n in presentation order once the collection has been accessed
    prs = live.prs
    n = len(prs.slides)
    names = [str(s.part.partname) for s in prs.slides]
    want = ["/ppt/slides/slide%d.xml" % (i + 1) for i in range(n)]
    if names != want:
        viol("C06|slide-partnames-not-sequential", "slide part names %s after accessing prs.slides" % names)
    # saved .rels: unique ids per source (independent reader)
    blob = F.save_bytes(prs)
    pkg = opc_ref.read(blob)
    for src in ["/"] + pkg.reachable():
        ids = [r.id for r in pkg.rels(src)]
        if len(ids) != len(set(ids)):
            viol("C06|rid-duplicate-in-rels-item", "%s: %s" % (src, ids))
    mem = list(pkg.members)
    if len({m.lower() for m in mem}) != len(mem) or pkg.dup_members:
        viol("C06|member-name-duplicate", "duplicate zip member names")


def run(ctx):
    ctx.extra["alphabet"] = {"full": [_hs([o]) for o in FULL], "sub": [_hs([o]) for o in SUB], "rel": [_hs([o]) for o in REL]}
    ctx.extra["initial_decks"] = INITS
    if ctx.thorough:
        explorer.explore(ctx, System(FULL), 2, name="full-alphabet/all-decks")
        explorer.explore(ctx, System(FULL, SUB_INITS + ["rich", "names_1_5_3"]), 3, name="full-alphabet/depth3")
        explorer.explore(ctx, System(SUB, MID_INITS), 4, name="id-allocating-subalphabet")
        explorer.explore(ctx, System(REL, ["contig/s256", "default"]), 4, name="relationship-sharing-subalphabet")
    else:
        explorer.explore(ctx, System(FULL), 1, name="full-alphabet/all-decks")
        explorer.explore(ctx, System(FULL, MID_INITS), 2, name="full-alphabet")
        explorer.explore(ctx, System(SUB, SUB_INITS), 3, name="id-allocating-subalphabet")
        explorer.explore(ctx, System(REL, ["contig/s256"]), 3, name="relationship-sharing-subalphabet")


def replay(data):
    return explorer.replay_history(System(FULL), data)
