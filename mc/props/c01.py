"""C01 — opening and saving a package preserves every reachable part and relationship.

Engine E2, deviation-bounded (DESIGN section 4/C01).  Abstract packages = part names x rooted digraph x
style vector (mc/props/c01_gen.py) are written by the harness's own zip/dir writer, round-tripped
through `OpcPackage.open(x).save(out)` and judged with the independent reader `mc.oracles.opc_ref`
applied to input and output; `save(open(out))` must then reproduce the same members byte for byte.
The corpus decks (68 files at the pinned revision) go through the same oracle with `OpcPackage` and with
`pptx.Presentation`.

History dimension of the 'zip path' container form: every path-form round trip of a process uses ONE fixed
input path P and ONE fixed output path Q.  A path-form evaluation is the history  write constant package
D at P; open(P).save(Q); open(Q).save(stream);  REWRITE P with the package under test; open(P).save(Q)
(rewriting Q); open(Q).save(stream)  -- judged by the same oracle on what was written at P (the D step
under rule 'history:<rule>').  P and Q therefore carry successive different packages (D, X1, D, X2, ...),
which exposes state kept per path between opens; D being constant keeps the verdict a pure function of the
package under test, so replay and signature minimisation stay deterministic.  Corpus decks go through the
same kind of history (default.pptx, then the deck, via one fixed P/Q) with both APIs, plus a stream form.

Enumerated space (pure function of the tier):

* graphs: every simple digraph on {root} + k labelled parts in which every part is reachable (self-loops,
  cycles, shared targets), k = 1, 2, 3 (2 + 32 + 2432 graphs); thorough adds k = 4 as one representative
  per isomorphism class (32404 classes of the 745472 labelled graphs).
* style slots (default first): names (default k-subset of the six names | every other k-subset), types
  (distinct unknown types | listed types | two parts sharing an extension with different listed types |
  one listed one unknown, both orders), ctdecl (Override | Default | Default with upper-case Extension |
  Override whose PartName differs in case), target (relative | './' | '../x/' climb-and-return |
  root-absolute), ids (rId1..n | descending | non-'rId' ids | rId10 before rId2), payload (fixed binary |
  empty | all 256 byte values | XML with comments/PIs/significant whitespace loaded as XmlPart via the
  PML slide type | the same XML kept as blob), container (zip stream | zip path | directory), orphan
  (none | unreachable typed members present), parallel (none | every edge doubled | exactly edge i
  doubled, for every i), external (none | on the root | on part i, for every i | on every source).
* quick (85 279 packages + 204 corpus round trips): k <= 2 every labelled graph x every style vector with
  <= 1 deviating slot; k = 3 every labelled graph x <= 1 deviating slot without the populous values
  (other name sets, per-edge doubling) and those populous values on one representative per isomorphism
  class (440 classes).
  thorough: k <= 2 every labelled graph x <= 2 deviating slots; k = 3 every labelled graph x <= 1
  deviating slot (all values) and every class representative x exactly 2 deviating slots (names slot
  excluded from the pairs); k = 4 class representatives x 10 graph-sensitive vectors (default + 9 single
  deviations).  quick is a subset of thorough.

Signatures: `C01|rule|minimal deviation set|shape class`.  Every failing (case, rule) is canonicalised by a
pure function of the case: smallest sub-vector of its deviations that still fails on the same graph; 'any'
if the star graph fails too (then the part set is shrunk), otherwise parts and edges are removed greedily
and the remaining graph is classified (selfloop / cycle / shared-target / chain / star).  Corpus
signatures are `C01|rule|corpus|<content type or extension detail>`, or `C01|rule|corpus:path|any` when the
deck fails that way only through the reused paths.

Deviations from DESIGN.md (documented reductions of an exploding space):
* parallel edges and external relationships are style slots (one deviation each) rather than part of
  the graph enumeration (multigraph x 2^(k+1) external subsets would multiply k=3 by > 10^3);
* the part-name set is a style slot (default subset per k, every other subset is one deviation);
* k = 4 and the 2-deviation layer at k = 3 use isomorphism-class representatives (the k = 3 pair layer
  leaves out the names slot; k <= 2 has it); DESIGN's "k<=4, <=2 deviations" in full is ~10^9 packages;
* "XML-equivalent" is taken as: equal bytes, or equal C14N (without comments) of the document element
  after dropping whitespace-only text that is not under xml:space="preserve" and whose parent has element
  children and no non-blank text (element-only content); the statement does not define it, this is the
  weaker reading.  Parts count as XML parts by content type ('+xml' or '/xml'); for them byte equality
  is accepted too, for all others byte equality is demanded.
* corpus decks with dangling internal relationships violate the precondition and are skipped (counted).
"""

from __future__ import annotations

import io
import itertools
import os
import shutil
import warnings

from lxml import etree

from mc.core.parallel import fanout
from mc.core.run import HarnessError
from mc.drivers import fixtures
from mc.oracles import opc_ref
from mc.props import c01_gen as G

LEVEL = "exploration"
RULE = ("abstract packages = (k part names out of seven) x (every simple rooted digraph on root+k parts with all parts "
        "reachable; k=4: one per isomorphism class) x (style vector over 10 slots: names, types, ctdecl, target, ids, "
        "payload, container, orphan, parallel, external) with at most d deviating slots; every point is written by the "
        "harness, round-tripped through OpcPackage.open/save twice and compared with an independent OPC reader; plus "
        "every corpus deck through OpcPackage and Presentation. The zip-path form is a history through one fixed input "
        "path and one fixed output path per process (constant package first, then the package under test written "
        "over it; output path re-opened for the second save). Non-trivial = the style vector has at least one "
        "deviation or the graph is not the plain star (it has a self-loop, a cycle, a shared target or a part linked only from another part); points are "
        "enumerated once each, hence distinct by construction.")
ASSUMPTIONS = [
    "deviation-bounded: quick <= 1 deviating slot at k<=3 (populous values at k=3 on class representatives only); thorough <= 2 at k<=2 and on k=3 class representatives (names slot not paired at k=3), <= 1 over 9 graph-sensitive deviations at k=4 class representatives",
    "parallel edges, external relationships and the choice of part names are style slots, not crossed exhaustively with each other beyond the deviation bound",
    "reference reader mc.oracles.opc_ref (zipfile + bare lxml) and the abstract model agree on every generated input (asserted per case)",
    "XML-equivalence = C14N without comments after dropping blank text in element-only content outside xml:space=preserve",
    "payload alphabet: 5 fixed payloads; part-name alphabet: 7 names; ids alphabet: 4 schemes",
    "path histories have length 2 (constant package, then the package under test) per evaluation; paths are reused across all evaluations of a worker process",
]

GRAPH_COUNTS = {1: 2, 2: 32, 3: 2432}
K3_CLASSES = 440
K4_LABELLED, K4_CLASSES = 745472, 32404
K4_SLOTS_VALUES = [{}, {"target": "dotdot"}, {"target": "abs"}, {"ids": "reversed"}, {"ids": "rid10"},
                   {"ctdecl": "default"}, {"types": "listed-differ"}, {"payload": "xmlrich"},
                   {"parallel": "all"}, {"external": "all"}]

_bare = etree.XMLParser(resolve_entities=False, remove_blank_text=False)
XML_SPACE = "{http://www.w3.org/XML/1998/namespace}space"


# ---- XML equivalence ---------------------------------------------------------------------------------

def _blank(s):
    return s is None or s.strip(" \t\r\n") == ""


def _normalise(el, preserve):
    sp = el.get(XML_SPACE)
    if sp == "preserve":
        preserve = True
    elif sp == "default":
        preserve = False
    kids = [c for c in el]
    elem_kids = [c for c in kids if isinstance(c.tag, str)]
    if elem_kids and not preserve:
        chunks = [el.text] + [c.tail for c in kids]
        if all(_blank(c) for c in chunks):
            el.text = None
            for c in kids:
                c.tail = None
    for c in elem_kids:
        _normalise(c, preserve)


def _structure(el):
    """Fallback canonical form (C14N refuses e.g. relative namespace URIs): tags, attributes, text with
    comments dropped, PIs kept."""
    out, text = [], [el.text or ""]
    for c in el:
        if isinstance(c.tag, str):
            out.append(("T", "".join(text)))
            text = []
            out.append(_structure(c))
        elif c.tag is etree.ProcessingInstruction:
            out.append(("T", "".join(text)))
            text = []
            out.append(("PI", c.target, c.text))
        text.append(c.tail or "")
    out.append(("T", "".join(text)))
    return ("E", el.tag, tuple(sorted(el.attrib.items())), tuple(x for x in out if x != ("T", "")))


def canon_xml(blob: bytes):
    root = etree.fromstring(blob, _bare)
    _normalise(root, False)
    try:
        return etree.tostring(root, method="c14n", with_comments=False)
    except etree.C14NError:
        return _structure(root)


def xml_equiv(a: bytes, b: bytes) -> bool:
    if a == b:
        return True
    try:
        return canon_xml(a) == canon_xml(b)
    except etree.XMLSyntaxError:
        return False


# ---- oracle ------------------------------------------------------------------------------------------

def _relset(pkg, src):
    return sorted((r.id or "", r.type or "", r.mode, (r.target_raw if r.mode == "External" else r.target) or "")
                  for r in pkg.rels(src))


def compare(inp, out, out2):
    """[(rule, kind, detail)]: how `out` (= save(open(inp))) and `out2` (= save(open(out))) break C01.
    `kind` is a short stable classifier (content type / extension), `detail` is free text."""
    f = []
    if out.ct_error:
        return [("out-content-types", "", out.ct_error)]
    for d in out.dup_members:
        f.append(("dup-member", _ctkind(inp, "/" + d), d))
    reach = inp.reachable()
    rset = set(reach)
    out_parts = set("/" + m for m in out.part_members())
    for pn in reach:
        if pn not in out_parts:
            f.append(("part-missing", _ctkind(inp, pn), pn))
    for pn in sorted(out_parts - rset):
        f.append(("part-extra", _ctkind(out, pn), "%s (%s in the input)" % (
            pn, "unreachable member" if inp.has_part(pn) else "not a member")))
    for pn in reach:
        if pn not in out_parts:
            continue
        ti, _ = inp.content_type(pn)
        to, _ = out.content_type(pn)
        if ti != to:
            f.append(("content-type-changed", "%s:%s->%s" % (G.ext_of(pn).lower(), ti, to), "%s: %s -> %s" % (pn, ti, to)))
        bi, bo = inp.blob(pn), out.blob(pn)
        if bi != bo:
            if opc_ref.is_xml_content_type(ti):
                if not xml_equiv(bi, bo):
                    f.append(("xml-changed", str(ti), "%s: payload not XML-equivalent" % pn))
            else:
                f.append(("payload-changed", str(ti), "%s: %d bytes -> %d bytes" % (pn, len(bi), len(bo))))
    for src in ["/"] + reach:
        if src != "/" and src not in out_parts:
            continue
        ri, ro = _relset(inp, src), _relset(out, src)
        if ri != ro:
            lost = [r for r in ri if r not in ro]
            new = [r for r in ro if r not in ri]
            f.append(("rels-changed", "root" if src == "/" else _ctkind(inp, src),
                      "%s: lost %r, new %r" % (src, lost[:3], new[:3])))
        ids = [r[0] for r in ro]
        if len(ids) != len(set(ids)):
            f.append(("dup-rid", "root" if src == "/" else _ctkind(inp, src), "%s: %r" % (src, ids)))
    for m in out.members:
        if opc_ref._is_rels_member(m) and m != "_rels/.rels":
            d, fn = m.rsplit("_rels/", 1)
            owner = d + fn[:-len(".rels")]
            if owner not in out.members:
                f.append(("orphan-rels-item", "", m))
    if out2 is not None:
        if out2.dup_members:
            f.append(("resave-dup-member", "", repr(out2.dup_members[:3])))
        a, b = set(out.members), set(out2.members)
        if a != b:
            f.append(("resave-members", "", "only first save: %r; only second save: %r" % (sorted(a - b)[:4], sorted(b - a)[:4])))
        for m in sorted(a & b):
            if out.members[m] != out2.members[m]:
                f.append(("resave-bytes", _ctkind(out, "/" + m), m))
    return f


def _ctkind(pkg, pn):
    if pn.endswith(".rels") or pn == "/[Content_Types].xml":
        return "package-item"
    try:
        return str(pkg.content_type(pn)[0])
    except Exception:
        return "?"


def _open_save(api, src, dst=None):
    """One open+save with the real implementation; returns bytes of the saved zip.  With `dst` (a path
    string) the package is saved to that path and the bytes found there afterwards are returned."""
    with warnings.catch_warnings():
        warnings.simplefilter("ignore")
        target = io.BytesIO() if dst is None else dst
        if api == "opc":
            from pptx.opc.package import OpcPackage
            OpcPackage.open(src).save(target)
        elif api == "prs":
            from pptx import Presentation
            Presentation(src).save(target)
        else:
            raise ValueError(api)
        if dst is None:
            return target.getvalue()
        with open(dst, "rb") as fh:
            return fh.read()


def roundtrip_failures(api, src, inp, via=None):
    """Run open+save twice on the implementation and compare. `src` is what is handed to open().
    via=None: save to a stream and re-open the stream.  via=<path>: save to that path and re-open the
    PATH for the second save (the same path is reused by every path-form round trip of the process)."""
    try:
        out1 = _open_save(api, src, via)
    except Exception as e:  # in-domain input: must not raise
        return [("op-raised", type(e).__name__, "open+save raised %r" % (e,))]
    try:
        out = opc_ref.read(out1)
    except Exception as e:
        return [("out-unreadable", type(e).__name__, "saved package unreadable: %r" % (e,))]
    try:
        out2b = _open_save(api, io.BytesIO(out1) if via is None else via)
    except Exception as e:
        return compare(inp, out, None) + [("op-raised-resave", type(e).__name__, "second open+save raised %r" % (e,))]
    try:
        out2 = opc_ref.read(out2b)
    except Exception as e:
        return compare(inp, out, None) + [("out-unreadable-resave", type(e).__name__, repr(e))]
    return compare(inp, out, out2)


def _fixed_paths(tag):
    """The ONE input path and ONE output path this process uses for every path-form round trip."""
    d = fixtures.tmpdir()
    return os.path.join(d, "c01-%s-in.pptx" % tag), os.path.join(d, "c01-%s-out.pptx" % tag)


def path_history_failures(api, tag, first_bytes, second_bytes):
    """History through fixed paths P (input) and Q (output): write `first_bytes` at P, open(P).save(Q),
    open(Q).save(stream); then REWRITE P with `second_bytes`, open(P).save(Q) (rewriting Q), open(Q)
    .save(stream).  Both steps are judged by the usual oracle on what was written at P; the failures of
    the first step are reported under rule 'history:<rule>'.  The first package is a constant (per tag),
    so the verdict is a pure function of the second package even if the implementation keeps state
    between opens of one path."""
    P, Q = _fixed_paths(tag)
    fails = []
    for step, blob in (("history:", first_bytes), ("", second_bytes)):
        with open(P, "wb") as fh:
            fh.write(blob)
        inp = opc_ref.read(blob)
        if opc_ref.read(P).members != inp.members:
            raise HarnessError("what is on disk at %s is not what was written" % P)
        for rule, kind, detail in roundtrip_failures(api, P, inp, via=Q):
            fails.append((step + rule, kind, detail + (" [first package of the path history]" if step else
                                                       " [path reused: rewritten after an earlier open]")))
    return fails


# ---- generated cases ---------------------------------------------------------------------------------

def make_case(names, edges, style):
    return {"names": list(names), "edges": [list(e) for e in edges], "style": dict(style)}


def case_valid(case) -> bool:
    names, style, edges = case["names"], case["style"], case["edges"]
    k = len(names)
    tv = style.get("types")
    if tv is not None and not G.type_value_applicable(names, tv):
        return False
    p = style.get("parallel")
    if p and p != "all" and int(p[1:]) >= len(edges):
        return False
    e = style.get("external")
    if e and e[0] == "p" and int(e[1:]) >= k:
        return False
    return G.all_reachable(k, [tuple(x) for x in edges])


def check_model(case, members, model, inp):
    """The independent reader must see in the generated input exactly what the abstract package means."""
    names = case["names"]
    if inp.ct_error or inp.dup_members:
        raise HarnessError("generated input unreadable for %r" % (case,))
    if sorted(inp.reachable()) != sorted(names):
        raise HarnessError("generator/opc_ref disagree on reachability: %r vs %r for %r" % (inp.reachable(), names, case))
    if inp.dangling():
        raise HarnessError("generated input has dangling rels: %r" % (case,))
    for n in names:
        if inp.content_type(n)[0] != model["parts"][n]["type"]:
            raise HarnessError("generator/opc_ref disagree on content type of %s: %r vs %r for %r" % (
                n, inp.content_type(n), model["parts"][n]["type"], case))
        if inp.blob(n) != model["parts"][n]["payload"]:
            raise HarnessError("payload mismatch in generated input")
    for src, lst in model["rels"].items():
        got = _relset(inp, src)
        if got != sorted(lst):
            raise HarnessError("generator/opc_ref disagree on rels of %s: %r vs %r for %r" % (src, got, sorted(lst), case))


_seq = [0]
_DECOY = []


def _decoy_bytes():
    """Constant first package of every generated path history (shares no part name with the alphabet)."""
    if not _DECOY:
        members, _model = G.build(make_case(["/zz/decoy.dat", "/zz/w.xml"], [[-1, 0], [0, 1], [1, 1]], {"external": "root"}))
        _DECOY.append(fixtures.write_zip(members))
    return _DECOY[0]


def eval_case(case):
    """Failures [(rule, kind, detail)] of one abstract package on the real implementation."""
    members, model = G.build(case)
    inp = opc_ref.RefPackage(dict(members))
    check_model(case, members, model, inp)
    cont = case["style"].get("container", "stream")
    if cont == "stream":
        return roundtrip_failures("opc", io.BytesIO(fixtures.write_zip(members)), inp)
    _seq[0] += 1
    base = os.path.join(fixtures.tmpdir(), "c01-%d-%d" % (os.getpid(), _seq[0]))
    try:
        if cont == "path":
            return path_history_failures("opc", "gen", _decoy_bytes(), fixtures.write_zip(members))
        if cont == "dir":
            os.makedirs(base)
            fixtures.write_dir(members, base)
            return roundtrip_failures("opc", base, opc_ref.read(base))
        raise ValueError(cont)
    finally:
        if os.path.isdir(base):
            shutil.rmtree(base, True)


_cache = {}


def fail_rules(case):
    """{rule: detail} for a case (memoised per process; used by the signature canonicaliser)."""
    key = repr((case["names"], case["edges"], sorted(case["style"].items())))
    r = _cache.get(key)
    if r is None:
        r = {}
        for rule, kind, detail in eval_case(case):
            r.setdefault(rule, detail)
        if len(_cache) > 20000:
            _cache.clear()
        _cache[key] = r
    return r


def _dev_text(style):
    parts = []
    for s in G.SLOT_ORDER:
        if s in style:
            v = style[s]
            if s == "parallel" and v != "all":
                v = "one"
            if s == "external" and v[0] == "p":
                v = "part"
            parts.append("%s=%s" % (s, v))
    return "+".join(parts) if parts else "none"


def _adapt(style, k, edges):
    """Re-target graph-dependent slot values onto another graph."""
    st = dict(style)
    p = st.get("parallel")
    if p and p != "all" and int(p[1:]) >= len(edges):
        st["parallel"] = "e0"
    e = st.get("external")
    if e and e[0] == "p" and int(e[1:]) >= k:
        st["external"] = "p0"
    return st


def canonical_signature(case, rule):
    """(signature `C01|rule|minimal deviation set|shape class`, minimised failing case), a pure function of
    (case, rule):
    smallest sub-vector of the deviations (size, then slot order) that still breaks `rule` on the same
    graph; then 'any' if the star graph breaks it too (after which the name set is shrunk), else the
    feature class of a greedily edge-minimised graph."""
    style, edges = case["style"], case["edges"]
    k = len(case["names"])
    slots = [s for s in G.SLOT_ORDER if s in style]
    chosen = None
    for size in range(0, len(slots)):
        for sub in itertools.combinations(slots, size):
            st = {s: style[s] for s in sub}
            c = make_case(G.names_for(k, st), edges, st)
            if case_valid(c) and rule in fail_rules(c):
                chosen = st
                break
        if chosen is not None:
            break
    if chosen is None:
        chosen = dict(style)
    names = G.names_for(k, chosen)
    sst = _adapt(chosen, k, G.star(k))
    c = make_case(names, G.star(k), sst)
    if case_valid(c) and rule in fail_rules(c):
        # graph-independent; shrink the part set (keeps a 'names' deviation only as far as needed)
        for size in range(1, k):
            for sub in itertools.combinations(names, size):
                st2 = {s: v for s, v in chosen.items() if s != "names"}
                st2 = _adapt(st2, size, G.star(size))
                c2 = make_case(sub, G.star(size), st2)
                if case_valid(c2) and rule in fail_rules(c2):
                    dflt = [G.NAMES[i] for i in G.DEFAULT_NAMES[size]]
                    txt = _dev_text(st2)
                    if list(sub) != dflt:
                        c3 = make_case(dflt, G.star(size), st2)
                        if not (case_valid(c3) and rule in fail_rules(c3)):
                            txt = ("names=%s" % "+".join(sub)) + ("" if txt == "none" else "+" + txt)
                    return "C01|%s|%s|any" % (rule, txt), c2
        return "C01|%s|%s|any" % (rule, _dev_text(chosen)), c
    # graph-dependent: drop parts, then edges, greedily in canonical order until nothing can go
    names = list(names)
    es = [list(e) for e in edges]
    base = {s: v for s, v in chosen.items() if s != "names"}

    def still_fails(nn, ne):
        if not ne:
            return False
        c = make_case(nn, ne, _adapt(base, len(nn), ne))
        return case_valid(c) and rule in fail_rules(c)

    changed = True
    while changed:
        changed = False
        for i in range(len(names) - 1, -1, -1):
            if len(names) == 1:
                break
            nn = names[:i] + names[i + 1:]
            ne = [[s - (1 if s > i else 0), t - (1 if t > i else 0)] for s, t in es if s != i and t != i]
            if still_fails(nn, ne):
                names, es, changed = nn, ne, True
                break
        if changed:
            continue
        for i in range(len(es)):
            trial = es[:i] + es[i + 1:]
            if still_fails(names, trial):
                es, changed = trial, True
                break
    txt = _dev_text(base)
    if "names" in chosen:
        txt = ("names=%s" % "+".join(names)) + ("" if txt == "none" else "+" + txt)
    return ("C01|%s|%s|%s" % (rule, txt, G.shape_features(len(names), [tuple(e) for e in es])),
            make_case(names, es, _adapt(base, len(names), es)))


def _report(part, case, fails):
    seen = set()
    for rule, kind, detail in fails:
        if rule in seen:
            continue
        seen.add(rule)
        sig, mini = canonical_signature(case, rule)
        mdetail = fail_rules(mini).get(rule)
        if mdetail is None:  # cannot happen: the minimiser only accepts failing cases
            mini, mdetail = case, detail
        part.violation(sig, "%s: %s [minimised witness: names=%s edges=%s style=%s]" % (
            rule, mdetail, "+".join(mini["names"]), mini["edges"], mini["style"]),
            {"kind": "gen", "case": mini, "rule": rule})


def _run_point(part, names_k, edges, style):
    k = names_k
    case = make_case(G.names_for(k, style), edges, style)
    if not case_valid(case):
        raise HarnessError("generator produced an invalid case %r" % (case,))
    fails = eval_case(case)
    part.count("evaluations")
    shape = G.shape_features(k, [tuple(e) for e in edges])
    if style or shape != "star":
        part.count("nontrivial_count")
    part.add("shapes", shape)
    part.count("dev%d" % len(style))
    if fails:
        part.outcome("open+save", "fail:" + fails[0][0])
        _report(part, case, fails)
    else:
        part.outcome("open+save", "ok")
    return case, fails


_PLAN = {}


def _vectors(k, nedges, mode):
    """Style vectors of a layer and their closed-form count.
    full1/full2: <= 1 / <= 2 deviating slots; light1: <= 1 without the populous values (other name sets,
    per-edge doubling); heavy1 = full1 minus light1; pairs = full2 minus full1."""
    if mode == "full1":
        return G.style_vectors(k, nedges, 1), G.count_style_vectors(k, nedges, 1)
    if mode == "full2":
        return G.style_vectors(k, nedges, 2), G.count_style_vectors(k, nedges, 2)
    if mode == "light1":
        return G.style_vectors(k, nedges, 1, light=True), G.count_style_vectors(k, nedges, 1, light=True)
    if mode == "heavy1":
        light = G.style_vectors(k, nedges, 1, light=True)
        return ([v for v in G.style_vectors(k, nedges, 1) if v not in light],
                G.count_style_vectors(k, nedges, 1) - G.count_style_vectors(k, nedges, 1, light=True))
    if mode == "pairs":
        n1 = G.count_style_vectors(k, nedges, 1)
        return G.style_vectors(k, nedges, 2)[n1:], G.count_style_vectors(k, nedges, 2) - n1
    if mode == "pairs-nonames":
        slots = [s for s in G.SLOT_ORDER if s != "names"]
        n1 = G.count_style_vectors(k, nedges, 1, slots)
        return G.style_vectors(k, nedges, 2, slots)[n1:], G.count_style_vectors(k, nedges, 2, slots) - n1
    raise ValueError(mode)


def _work_graphs(part, chunk):
    """chunk items: (k, graph index, layer mode)."""
    for k, gi, mode in chunk:
        edges = _PLAN["graphs"][k][gi]
        vecs, n = _vectors(k, len(edges), mode)
        if len(vecs) != n:
            raise HarnessError("style vector generator size %d != closed form %d (%s)" % (len(vecs), n, mode))
        case = fails = None
        for st in vecs:
            case, fails = _run_point(part, k, edges, st)
        part.count("graphs_k%d_%s" % (k, mode))
        if case is not None and gi % 397 == 5:
            part.sample({"names": case["names"], "edges": case["edges"], "style": case["style"],
                         "failures": [f[0] for f in fails]})


def _work_k4(part, chunk):
    """chunk items: (lo, hi) ranges of edge bitmasks on root + 4 parts."""
    k = 4
    for lo, hi in chunk:
        for mask in range(lo, hi):
            if not G.mask_reachable(k, mask):
                continue
            part.count("k4_labelled")
            if not G.mask_is_canonical(k, mask):
                continue
            part.count("graphs_k4")
            edges = G.mask_edges(k, mask)
            for st in K4_SLOTS_VALUES:
                _run_point(part, k, edges, st)


# ---- corpus ------------------------------------------------------------------------------------------

CORPUS_MODES = ("opc-path", "prs-path", "prs-stream")


def corpus_failures(path, mode):
    """mode 'opc-path'/'prs-path': default.pptx, then this deck, through the process's one fixed input
    path and one fixed output path (see path_history_failures); 'prs-stream': file-like in and out."""
    inp = opc_ref.read(path)
    if inp.ct_error:
        return None, "unreadable"
    if inp.dangling():
        return None, "dangling"
    blob = fixtures.read_bytes(path)
    if mode == "prs-stream":
        return roundtrip_failures("prs", io.BytesIO(blob), inp), None
    first = fixtures.read_bytes(fixtures.DEFAULT_PPTX)
    return path_history_failures(mode.split("-")[0], "deck", first, blob), None


def _work_corpus(part, chunk):
    for path, mode in chunk:
        fails, skip = corpus_failures(path, mode)
        if skip:
            part.count("corpus_skipped_%s" % skip)
            part.add("corpus_skipped_decks", fixtures.corpus_name(path))
            continue
        part.count("evaluations")
        part.count("corpus_evaluations")
        part.count("nontrivial_count")
        part.outcome("corpus:" + mode, "fail:" + fails[0][0] if fails else "ok")
        seen = set()
        for rule, kind, detail in fails:
            # a failure that needs the reused path is one defect whatever part it hits: no part kind in it
            if mode.endswith("-path") and _path_only(path, mode, rule, kind):
                sig = "C01|%s|corpus:path|any" % rule
            else:
                sig = "C01|%s|corpus|%s" % (rule, kind)
            if sig in seen:
                continue
            seen.add(sig)
            part.violation(sig, "%s (%s via %s): %s" % (rule, fixtures.corpus_name(path), mode, detail),
                           {"kind": "corpus", "deck": fixtures.corpus_name(path), "mode": mode, "rule": rule, "ctkind": kind})


def _path_only(path, mode, rule, kind):
    """True if the same deck does not fail the same way through streams (the failure needs the path form)."""
    if rule.startswith("history:"):
        return True
    api = mode.split("-")[0]
    inp = opc_ref.read(path)
    again = roundtrip_failures(api, io.BytesIO(fixtures.read_bytes(path)), inp)
    return not any(r == rule and k == kind for r, k, _ in again)


# ---- run / replay ------------------------------------------------------------------------------------

def _self_check():
    """The comparison machinery must see a difference when there is one (vacuity guard), and the listed
    content types the 'types' slot relies on must still be what the library lists."""
    for ns in (b"urn:u", b"u"):  # absolute namespace -> C14N; relative -> structural fallback
        a = b'<r xmlns="%s">\n  <!-- c --><a> x </a>\n  <b/><?p q?>\n</r>' % ns
        if not xml_equiv(a, b'<?xml version="1.0"?><r xmlns="%s"><a> x </a><b></b><?p q?></r>' % ns):
            raise HarnessError("xml_equiv rejects an equivalent pair")
        for bad in (b'<r xmlns="%s"><a>x</a><b/><?p q?></r>', b'<r xmlns="%s"><a> x </a><?p q?></r>',
                    b'<r xmlns="%s"><a> x </a><b/></r>', b'<r xmlns="%s"><a> x </a><b z="1"/><?p q?></r>'):
            if xml_equiv(a, bad % ns):
                raise HarnessError("xml_equiv accepts a non-equivalent pair: %r" % (bad,))
    case = make_case(["/a.xml", "/d/b.bin"], [[-1, 0], [0, 1], [1, 1]], {"external": "all"})
    members, model = G.build(case)
    inp = opc_ref.RefPackage(dict(members))
    check_model(case, members, model, inp)
    good = compare(inp, inp, inp)
    if good:
        raise HarnessError("compare() reports differences between identical packages: %r" % (good,))
    m2 = dict(members)
    m2["d/b.bin"] = m2["d/b.bin"] + b"x"
    m2["_rels/.rels"] = m2["_rels/.rels"].replace(b"rId2", b"rId9")
    del m2["a.xml"]
    rules = {r for r, _, _ in compare(inp, opc_ref.RefPackage(m2), inp)}
    need = {"part-missing", "payload-changed", "rels-changed", "resave-members", "resave-bytes"}
    if not need <= rules:
        raise HarnessError("compare() misses planted differences: %r" % (sorted(need - rules),))
    try:
        from pptx.opc.spec import default_content_types as dct
        listed = {}
        for e, t in dct:
            listed.setdefault(e, []).append(t)
        for e, lst in G.LISTED.items():
            if not set(lst) <= set(listed.get(e, ())):
                raise HarnessError("c01_gen.LISTED[%r] no longer listed in pptx.opc.spec.default_content_types" % e)
    except ImportError:
        pass


def run(ctx):
    _self_check()
    graphs = {k: G.graphs(k) for k in (1, 2, 3)}
    for k, n in GRAPH_COUNTS.items():
        if len(graphs[k]) != n:
            raise HarnessError("graph generator: %d graphs at k=%d, expected %d" % (len(graphs[k]), k, n))
    _PLAN["graphs"] = graphs
    expected = 0

    E3 = G.edge_universe(3)
    pos = {e: i for i, e in enumerate(E3)}
    reps3 = [gi for gi, edges in enumerate(graphs[3])
             if G.mask_is_canonical(3, sum(1 << pos[tuple(e)] for e in edges))]
    if len(reps3) != K3_CLASSES:
        raise HarnessError("k=3 isomorphism classes: %d, expected %d" % (len(reps3), K3_CLASSES))
    ctx.extra["k3_class_representatives"] = len(reps3)

    items = []
    for k in (1, 2):
        for gi in range(len(graphs[k])):
            items.append((k, gi, "full2" if ctx.thorough else "full1"))
    if ctx.thorough:
        # every labelled graph x <= 1 deviation; class representatives x exactly 2 deviations
        items += [(3, gi, "full1") for gi in range(len(graphs[3]))]
        items += [(3, gi, "pairs-nonames") for gi in reps3]
    else:
        # every labelled graph x <= 1 deviation without the populous values; those on the representatives
        items += [(3, gi, "light1") for gi in range(len(graphs[3]))]
        items += [(3, gi, "heavy1") for gi in reps3]
    for k, gi, mode in items:
        expected += _vectors(k, len(graphs[k][gi]), mode)[1]
    # cost per item varies by three orders of magnitude: interleave, small chunks
    items.sort(key=lambda it: (it[2] not in ("pairs-nonames", "full2"), it[0], it[1]))
    fanout(ctx, _work_graphs, ctx.rotate(items), chunk_size=(1 if ctx.thorough else 6))

    if ctx.thorough:
        # layer 3: k=4 class representatives
        step = 1 << 11
        ranges = [(lo, min(lo + step, 1 << 20)) for lo in range(0, 1 << 20, step)]
        fanout(ctx, _work_k4, ctx.rotate(ranges), chunk_size=1)
        if ctx.counters.get("k4_labelled") != K4_LABELLED or ctx.counters.get("graphs_k4") != K4_CLASSES:
            raise HarnessError("k=4 graph census %r/%r, expected %d/%d" % (
                ctx.counters.get("k4_labelled"), ctx.counters.get("graphs_k4"), K4_LABELLED, K4_CLASSES))
        expected += K4_CLASSES * len(K4_SLOTS_VALUES)

    gen_evals = ctx.counters.get("evaluations", 0)
    if gen_evals != expected:
        raise HarnessError("evaluations %d != closed-form size %d" % (gen_evals, expected))
    ctx.extra["generated_packages"] = gen_evals
    ctx.extra["deviation_bound_completed"] = (
        "k<=2: 2, k=3: 1 on all labelled graphs and 2 on class representatives, k=4 (class representatives): 1 over %d graph-sensitive vectors"
        % len(K4_SLOTS_VALUES) if ctx.thorough else "k<=3: 1 (k=3: other name sets and per-edge doubling on class representatives only)")

    # corpus
    decks = fixtures.corpus()
    if len(decks) < 60:
        raise HarnessError("corpus has only %d decks" % len(decks))
    citems = [(p, mode) for p in decks for mode in CORPUS_MODES]
    fanout(ctx, _work_corpus, ctx.rotate(citems), chunk_size=4)
    ctx.extra["corpus_decks"] = len(decks)
    if ctx.counters.get("corpus_evaluations", 0) < len(decks):
        raise HarnessError("fewer than half of the corpus round trips were judged (%r)" % ctx.counters.get("corpus_evaluations"))


def replay(data):
    if data["kind"] == "gen":
        case = data["case"]
        _cache.clear()
        for rule, kind, detail in eval_case(case):
            if rule == data["rule"]:
                return "%s: %s" % (rule, detail)
        return None
    if data["kind"] == "corpus":
        path = os.path.join(fixtures.REPO, data["deck"])
        fails, skip = corpus_failures(path, data["mode"])
        if skip:
            return None
        for rule, kind, detail in fails:
            if rule == data["rule"] and kind == data.get("ctkind", kind):
                return "%s: %s" % (rule, detail)
        return None
    raise ValueError(data["kind"])
