"""C12 — inspecting a presentation does not change it.

Engine E1 (replay mode). Operations are *traversals* discovered by reflection: a generic walker starts at an entry
point (the Presentation, its slides, its layouts or its masters), calls every public read property (plus
__iter__/__len__ of collections) of every proxy object it reaches, in forward or reverse accessor order, and
descends into every pptx object returned. `save`
is an operation too. State = deck after a history of traversals/saves. Oracle, in every state:

    canon(save(deck after history)) == canon(save(deck straight after opening))

where canon is computed by an independent reader (opc_ref): same part set (slide parts named by presentation
position, because the first access of prs.slides documentedly renames them), same content types, same
relationships, non-XML payloads byte-equal, XML c14n-equal after pruning empty attribute-less formatting
containers (the statement's tolerance: element without attributes, text or surviving children whose name ends in
'Pr' or is a:ln / a:lstStyle / c:marker). Every accessor call is also bracketed by a hash of the proxy's own
element, which attributes a change to the accessor that made it (signature = class.attribute + what appeared).

Accessors documented as creating content are exempt (EXEMPT below quotes the documentation); an accessor is NOT
exempt merely because its implementation happens to create something.
"""

from __future__ import annotations

import hashlib
import os
import re

from lxml import etree

from mc.core import explorer
from mc.core.explorer import SKIP
from mc.core.run import HarnessError
from mc.drivers import fixtures as F
from mc.drivers import prs_ops
from mc.oracles import opc_ref

LEVEL = "model_checking"
RULE = ("BFS over histories of reflective read traversals (entry point x accessor order) and saves on every corpus deck and generated decks; "
        "state canon = canonical saved package; non-trivial = states whose history performed at least 50 accessor "
        "calls returning non-None values (counted per distinct (deck, history))")
ASSUMPTIONS = [
    "read-only accessors = public properties and collection protocols of the proxy classes reachable from Presentation; methods with arguments are not called",
    "exempt accessors are those whose docstring documents creation (table EXEMPT in mc/props/c12.py)",
    "tolerance: empty attribute-less *Pr / a:ln / a:lstStyle / c:marker elements are pruned before comparison; slide parts are identified by presentation position",
    "trusted: mc.oracles.opc_ref, lxml c14n",
]

# (class name, attribute) -> documentation sentence that says the accessor creates content
EXEMPT = {
    ("Slide", "notes_slide"): "If the slide does not have a notes slide, one is created.",
    ("_Background", "fill"): "Note that accessing this property is potentially destructive.",
    ("Font", "color"): "statement's anchor list: Font.color is a documented creating accessor",
    ("Chart", "chart_title"): "Calling this property is destructive in the sense it adds a chart title element",
    ("Presentation", "notes_master"): "If the presentation does not have a notes master, one is created from a default template",
    ("Presentation", "core_properties"): "statement: a package without core properties gains a default part on first access",
    ("LineFormat", "color"): "As a side-effect, accessing this property causes the line fill type to be set to solid",
    ("_BaseAxis", "axis_title"): "Calling this property is destructive in the sense that it adds an axis title element",
    ("CategoryAxis", "axis_title"): "inherits _BaseAxis.axis_title",
    ("ValueAxis", "axis_title"): "inherits _BaseAxis.axis_title",
    ("DateAxis", "axis_title"): "inherits _BaseAxis.axis_title",
    ("AxisTitle", "text_frame"): "property is destructive as it adds a new text frame if not already present",
    ("ChartTitle", "text_frame"): "property is destructive in the sense it adds a text frame if one is not present",
}

# a documented creating accessor is only exempt while it WOULD create: when the predicate the documentation points
# to says the content already exists, reading it is an ordinary read and must not change anything
EXEMPT_UNLESS = {
    ("Slide", "notes_slide"): "has_notes_slide",
    ("Chart", "chart_title"): "has_title",
    ("_BaseAxis", "axis_title"): "has_title",
    ("CategoryAxis", "axis_title"): "has_title",
    ("ValueAxis", "axis_title"): "has_title",
    ("DateAxis", "axis_title"): "has_title",
    ("AxisTitle", "text_frame"): "has_text_frame",
    ("ChartTitle", "text_frame"): "has_text_frame",
}


def _exempt_now(obj, cls, name):
    for key in ((cls.__name__, name), (_defining_class(cls, name), name)):
        if key in EXEMPT:
            pred = EXEMPT_UNLESS.get(key)
            if pred is not None:
                try:
                    if getattr(obj, pred) is True:
                        return False
                except Exception:  # noqa: BLE001
                    pass
            return True
    return False


ENTRIES = ("all", "slides", "layouts", "masters")
ORDERS = ("fwd", "rev")
MAX_OBJECTS = 60000


def _h(el):
    return hashlib.sha1(etree.tostring(el)).digest()


def _iterable(cls):
    """Collections: classes with __iter__, and sequence-protocol classes (__len__ + __getitem__, no __iter__), which
    Python iterates through __getitem__ (table rows, columns and cells are of that kind)."""
    return hasattr(cls, "__iter__") or (hasattr(cls, "__len__") and hasattr(cls, "__getitem__"))


def _el_of(obj):
    d = getattr(obj, "__dict__", None)
    if not d:
        return None
    for name in ("_element", "_sp", "_pic", "_txBody", "_p", "_r", "_tc", "_tbl", "_chartSpace", "_ser", "_xAx", "_rPr"):
        el = d.get(name)
        if isinstance(el, etree._Element):
            return el
    for el in d.values():
        if isinstance(el, etree._Element):
            return el
    return None


def _desc(cls, name):
    for k in cls.__mro__:
        if name in k.__dict__:
            return k.__dict__[name]
    return None


def _defining_class(cls, name):
    for k in cls.__mro__:
        if name in k.__dict__:
            return k.__name__
    return cls.__name__


def _pruned_tags(root_el):
    from collections import Counter
    r = etree.fromstring(etree.tostring(root_el), _bare)
    _prune(r)
    return Counter(etree.QName(e).localname for e in r.iter() if isinstance(e.tag, str)), hashlib.sha1(etree.tostring(r, method="c14n")).digest()


class WalkResult:
    def __init__(self):
        self.calls = 0
        self.nontrivial = 0
        self.objects = 0
        self.types = set()
        self.capped = False
        self.found = []   # attribution: (accessor, part class, added, removed)


# entry point -> accessor path from the Presentation (each step is a bracketed accessor call like any other)
ENTRY_PATH = {"all": None, "slides": ("slides",), "layouts": ("slide_masters", "slide_layouts"), "masters": ("slide_masters",)}


def walk(prs, entry="all", order="fwd", attribute=False):
    """Call every public read property (and the collection protocols) of every proxy object reachable from the
    entry objects, in forward or reverse accessor order. With attribute=True every call is bracketed by a hash of
    the proxy's own element and a changed element is attributed to the accessor (after applying the tolerance to
    the XML part it belongs to)."""
    import pptx.opc.package as opcpkg
    from pptx.util import lazyproperty
    res = WalkResult()
    keep = []     # strong references: ids of lxml proxies must not be recycled during the walk
    seen = set()
    roots, cache = {}, {}
    if attribute:
        for p in prs.part.package.iter_parts():
            e = p.__dict__.get("_element")
            if isinstance(e, etree._Element):
                roots[id(e)] = p
                keep.append(e)

    pres_root = prs.part.__dict__.get("_element")

    def part_state(root):
        if id(root) not in cache:
            cache[id(root)] = _pruned_tags(root)
        return cache[id(root)]

    # objects on the way to the entry point only have the path accessor (and iteration) called
    path = ENTRY_PATH[entry]
    restricted = {}
    if path:
        restricted[id(prs)] = (path[0], 0)
    stack = [prs]
    while stack:
        obj = stack.pop()
        cls = type(obj)
        if not (cls.__module__ or "").startswith("pptx"):
            continue
        if isinstance(obj, (opcpkg.Part, opcpkg.OpcPackage, etree._Element, int, str)):
            continue
        el = _el_of(obj)
        keep.append(obj)
        if el is not None:
            keep.append(el)
        key = (cls.__name__, id(el) if el is not None else id(obj))
        if key in seen:
            continue
        seen.add(key)
        res.objects += 1
        res.types.add(cls.__name__)
        if res.objects > MAX_OBJECTS:
            res.capped = True
            break
        names = [n for n in dir(cls) if not n.startswith("_") and isinstance(_desc(cls, n), (property, lazyproperty))
                 and not _exempt_now(obj, cls, n)]
        if order == "rev":
            names.reverse()
        step = restricted.get(id(obj))
        if step is not None and step[0] is not None:
            names = [step[0]]
        elif step is not None:
            names = []
        calls = [(n, (lambda o=obj, n=n: getattr(o, n))) for n in names]
        if _iterable(cls):
            calls.append(("__iter__", lambda o=obj: list(o)))
            if hasattr(cls, "__len__"):
                calls.append(("__len__", lambda o=obj: len(o)))
        children = []
        for name, fn in calls:
            root = None
            if attribute and el is not None:
                root = el.getroottree().getroot()
                keep.append(root)
                pre_tags, pre_hash = part_state(root)
                hb = _h(el)
            if attribute:
                # the presentation part is also watched for every call (accessors that reach prs.slides indirectly)
                ptags, phash = part_state(pres_root)
                phb = _h(pres_root)
            try:
                val = fn()
            except Exception:  # noqa: BLE001  a read that raises is not this property's concern
                continue
            if attribute and pres_root is not root and _h(pres_root) != phb:
                cache.pop(id(pres_root), None)
                qtags, qhash = part_state(pres_root)
                if qhash != phash:
                    res.found.append(("%s.%s" % (_defining_class(cls, name), name), "presentation.xml",
                                      ",".join(sorted((qtags - ptags).keys())), ",".join(sorted((ptags - qtags).keys()))))
            res.calls += 1
            if val is not None and val != "" and val != () and val != [] and val != 0:
                res.nontrivial += 1
            if root is not None and _h(el) != hb:
                cache.pop(id(root), None)
                post_tags, post_hash = part_state(root)
                if post_hash != pre_hash:
                    p = roots.get(id(root))
                    pn = re.sub(r"\d+", "N", str(p.partname).rsplit("/", 1)[-1]) if p is not None else "?"
                    res.found.append(("%s.%s" % (_defining_class(cls, name), name), pn,
                                      ",".join(sorted((post_tags - pre_tags).keys())), ",".join(sorted((pre_tags - post_tags).keys()))))
            if name == "__iter__":
                children.extend(val)
            elif name != "__len__":
                children.append(val)
        if step is not None and path:
            # propagate the restriction: the collection returned is only iterated; its items take the next step
            depth = step[1]
            for v in children:
                if step[0] is not None:          # obj --accessor--> collection
                    restricted[id(v)] = (None, depth)
                elif depth + 1 < len(path):      # collection item, more path to go
                    restricted[id(v)] = (path[depth + 1], depth + 1)
                keep.append(v)
        if order == "fwd":
            children.reverse()
        for v in children:
            if isinstance(v, (list, tuple)):
                stack.extend(x for x in v if hasattr(x, "__dict__"))
            elif v is not None and (type(v).__module__ or "").startswith("pptx"):
                stack.append(v)
    return res


# ---- isolation pass: every accessor on its own, on a fresh deck -------------------------------------------------
#
# In a full traversal an accessor that (wrongly) creates content can be masked by an earlier accessor that already
# created the same content (several are known findings). The isolation pass removes the masking: for every proxy
# object of a distinct structural context (see context_signature) found in ANY corpus or generated deck, located by its
# access path from the Presentation, and for every read accessor of its class, a FRESH deck is opened, the object is
# reached by replaying the path, and only that one accessor is called, bracketed by the hash of the object's own
# element and of the presentation part.

def _accessor_names(obj):
    from pptx.util import lazyproperty
    cls = type(obj)
    names = [n for n in dir(cls) if not n.startswith("_") and isinstance(_desc(cls, n), (property, lazyproperty))
             and not _exempt_now(obj, cls, n)]
    if _iterable(cls):
        names.append("__iter__")
    return names


def context_signature(obj):
    """Structural context of a proxy object: class, tag of its element, the tags of the element's children and
    grandchildren, its attribute names and the small integers the proxy carries (a point index ...). What a getter does
    depends on this context (a data label of a series WITH series-level c:dLbls is looked up differently from one
    without), so the isolation pass takes one instance (thorough: two) of every distinct context found anywhere in the
    corpus and the generated decks, instead of the first instances of every class."""
    cls = type(obj).__name__
    el = _el_of(obj)
    if el is None:
        return (cls,)

    def loc(e):
        return etree.QName(e).localname

    kids = [c for c in el if isinstance(c.tag, str)]
    k1 = tuple(sorted({loc(c) for c in kids}))
    k2 = tuple(sorted({loc(g) for c in kids for g in c if isinstance(g.tag, str)}))
    ints = tuple(sorted((n, min(v, 3)) for n, v in getattr(obj, "__dict__", {}).items()
                        if isinstance(v, int) and not isinstance(v, bool)))
    return (cls, loc(el), k1, k2, tuple(sorted(el.attrib)), ints)


def discover_paths(prs, per_collection=16):
    """[(context signature, class name, path)] for every proxy object reachable from the Presentation (breadth-first,
    the first `per_collection` items of every collection; access paths are steps ('a', name) / ('i', k))."""
    import pptx.opc.package as opcpkg
    out, seen, keep = [], set(), []
    queue = [(prs, ())]
    n = 0
    while queue:
        obj, path = queue.pop(0)
        cls = type(obj)
        if not (cls.__module__ or "").startswith("pptx"):
            continue
        if isinstance(obj, (opcpkg.Part, opcpkg.OpcPackage, etree._Element, int, str)):
            continue
        el = _el_of(obj)
        keep.extend((obj, el))
        key = (cls.__name__, id(el) if el is not None else id(obj))
        if key in seen:
            continue
        seen.add(key)
        n += 1
        if n > 6000 or len(path) > 14:
            continue
        out.append((context_signature(obj), cls.__name__, path))
        for name in _accessor_names(obj):
            try:
                val = list(obj) if name == "__iter__" else getattr(obj, name)
            except Exception:  # noqa: BLE001
                continue
            if name == "__iter__":
                for k, item in enumerate(val[:per_collection]):
                    queue.append((item, path + (("i", k),)))
            elif isinstance(val, (list, tuple)):
                for k, item in enumerate(val[:per_collection]):
                    if hasattr(item, "__dict__"):
                        queue.append((item, path + (("a", name), ("i", k))))
            elif val is not None and (type(val).__module__ or "").startswith("pptx"):
                queue.append((val, path + (("a", name),)))
    return out


def follow(prs, path):
    obj = prs
    for kind, v in path:
        obj = getattr(obj, v) if kind == "a" else list(obj)[v]
    return obj


QUERY_METHODS = ("__len__", "__getitem__", "__contains__", "index", "get", "get_by_name")


def _rels_digest(prs):
    """Every relationship of the package as a sorted tuple (harness-side read of the in-memory package)."""
    pkg = prs.part.package
    out = []
    for src_name, rels in [("/", pkg._rels)] + [(str(p.partname), p._rels) for p in pkg.iter_parts()]:
        for rId, rel in rels.items():
            out.append((src_name, rId, rel.reltype, rel.target_ref, bool(rel.is_external)))
    return tuple(sorted(set(out)))


_ALIEN_KEEP = None


def _query_calls(prs, obj, name, prs_init=None, alien_path=None):
    """The look-up methods of a collection proxy are part of 'reading': call `name` (encoded 'call:<method>:<variant>'
    plus, for the foreign variant, the access path of another collection of the same class) with members, with a
    member of a sibling collection and with absent keys. Exceptions (ValueError, KeyError, IndexError) are answers."""
    import ast
    _, method, variant = name.split(":", 2)
    other_path = None
    if "@" in variant:
        variant, enc = variant.split("@", 1)
        other_path = ast.literal_eval(enc)
    items = list(obj) if _iterable(type(obj)) else []
    foreign = list(follow(prs, other_path)) if other_path is not None else []
    if variant == "alien":
        # a member of the SAME collection of ANOTHER presentation open in this process (a second copy of the deck):
        # asking whether it is here must not adopt it
        global _ALIEN_KEEP
        other_prs = F.open_prs(initial_blob(prs_init))
        _ALIEN_KEEP = other_prs
        try:
            foreign = list(follow(other_prs, alien_path))[:1]
        except Exception:  # noqa: BLE001
            foreign = []
    pool = {"own": items[:1] + items[-1:], "foreign": foreign[:1], "alien": foreign[:1]}[variant] \
        if variant in ("own", "foreign", "alien") else []

    def attempt(fn, *a):
        try:
            fn(*a)
        except Exception:  # noqa: BLE001
            pass

    if method == "__len__":
        attempt(len, obj)
    elif method == "__getitem__":
        for k in (0, -1, len(items), "no such key"):
            attempt(obj.__getitem__, k)
    elif method in ("index", "__contains__"):
        for it in pool:
            attempt(getattr(obj, method), it)
    elif method == "get_by_name":
        for it in pool:
            attempt(obj.get_by_name, getattr(it, "name", None))
        attempt(obj.get_by_name, "no such name \u2603")
    elif method == "get":
        keys = [0, 999999, "no such key"]
        for it in pool:
            for attr in ("slide_id", "shape_id", "name"):
                if hasattr(it, attr):
                    attempt(lambda: keys.append(getattr(it, attr)))
            pf = None
            try:
                pf = it.placeholder_format
            except Exception:  # noqa: BLE001
                pass
            if pf is not None:
                attempt(lambda: keys.extend([pf.idx, pf.type]))
        for k in keys:
            attempt(obj.get, k)
            attempt(lambda: obj.get(k, None))


def isolated_call(init, clsname, path, name):
    """Returns (status, found) where found = [(accessor, part, added, removed)] as in attribution."""
    prs = F.open_prs(initial_blob(init))
    try:
        obj = follow(prs, path)
    except Exception:  # noqa: BLE001
        return "unreachable", []
    if type(obj).__name__ != clsname:
        return "unreachable", []
    cls = type(obj)
    el = _el_of(obj)
    pres_root = prs.part.__dict__.get("_element")
    watch = [r for r in ((el.getroottree().getroot() if el is not None else None), pres_root) if r is not None]
    if not watch and not name.startswith("call:"):
        return "no-element", []
    pre = [(_pruned_tags(r), _h(r)) for r in watch]
    rels_before = _rels_digest(prs)
    try:
        if name == "__iter__":
            list(obj)
        elif name.startswith("call:"):
            _query_calls(prs, obj, name, init, path)
        else:
            getattr(obj, name)
    except Exception:  # noqa: BLE001
        return "raised", []
    found = []
    rels_after = _rels_digest(prs)
    if rels_after != rels_before:
        acc = "%s.%s" % (cls.__name__, name.split("@")[0]) if name.startswith("call:") else "%s.%s" % (_defining_class(cls, name), name)
        found.append((acc, "relationships", ",".join("%s %s->%s" % (x[0], x[1], x[3]) for x in sorted(set(rels_after) - set(rels_before)))[:300],
                      ",".join("%s %s->%s" % (x[0], x[1], x[3]) for x in sorted(set(rels_before) - set(rels_after)))[:300]))
    for r, ((ptags, phash), hb) in zip(watch, pre):
        if _h(r) == hb:
            continue
        qtags, qhash = _pruned_tags(r)
        if qhash != phash:
            found.append((("%s.%s" % (cls.__name__, name.split("@")[0])) if name.startswith("call:") else "%s.%s" % (_defining_class(cls, name), name), etree.QName(r).localname,
                          ",".join(sorted((qtags - ptags).keys())), ",".join(sorted((ptags - qtags).keys()))))
    return "called", found


def _iso_chunk(part, chunk):
    for init, clsname, path, name in chunk:
        status, found = isolated_call(init, clsname, path, name)
        part.count("transitions")
        part.count("traces_validated_against_impl")
        part.count("isolated_accessor_calls")
        part.outcome("isolated:" + status, "1")
        for acc, root, added, removed in found:
            sig = "C12|mutates|%s" % acc
            part.violation(sig, "deck=%s: reading %s alone (object at %s) changed the %s part beyond the tolerance: added <%s> removed <%s>" % (
                init, acc, "/".join(str(v) for _, v in path), root, added, removed),
                {"kind": "isolated", "init": init, "cls": clsname, "path": [list(p) for p in path], "name": name, "signature": sig})


def isolation_items(inits, per_context=1):
    """(deck, class, path, accessor) for `per_context` instances of every distinct structural context, decks in order."""
    items, taken = [], {}
    for init in inits:
        prs = F.open_prs(initial_blob(init))
        found = discover_paths(prs)
        by_cls = {}
        for sig, clsname, path in found:
            by_cls.setdefault(clsname, []).append(path)
        for sig, clsname, path in found:
            # a collection that has a sibling collection of the same class in its deck (two masters' layouts, two
            # slides' shapes) is a context of its own: only there can a look-up be given a foreign member
            sig = sig + (len(by_cls.get(clsname, ())) > 1,)
            if taken.get(sig, 0) >= per_context:
                continue
            try:
                obj = follow(prs, path)
                names = _accessor_names(obj)
            except Exception:  # noqa: BLE001
                continue
            taken[sig] = taken.get(sig, 0) + 1
            for name in names:
                items.append((init, clsname, path, name))
            # look-up methods of collection proxies, with own members, a sibling collection's member, absent keys
            cls = type(obj)
            for meth in QUERY_METHODS:
                if not callable(getattr(cls, meth, None)):
                    continue
                if meth in ("__len__", "__getitem__"):
                    items.append((init, clsname, path, "call:%s:plain" % meth))
                    continue
                items.append((init, clsname, path, "call:%s:own" % meth))
                if meth in ("index", "__contains__"):
                    items.append((init, clsname, path, "call:%s:alien" % meth))
                others = [p for p in by_cls.get(clsname, ()) if p != path]
                if others:
                    items.append((init, clsname, path, "call:%s:foreign@%r" % (meth, others[0])))
    return items, len(taken)


# ---- canonical package with the statement's tolerance ---------------------------------------------------

_PRUNABLE_EXTRA = {"ln", "lstStyle", "marker"}
_bare = etree.XMLParser(resolve_entities=False, remove_blank_text=False)


def _prune(el):
    for ch in list(el):
        if not isinstance(ch.tag, str):
            continue
        _prune(ch)
        q = etree.QName(ch)
        if len(ch) == 0 and not ch.attrib and not (ch.text or "").strip():
            if q.localname.endswith("Pr") or q.localname in _PRUNABLE_EXTRA:
                el.remove(ch)


def canon_package(blob):
    """dict canonical-name -> canonical content, plus rels and content types; slide parts are named by their
    position in the presentation order."""
    pkg = opc_ref.read(blob)
    ren = {}
    mp = pkg.main_part()
    if mp and pkg.has_part(mp):
        try:
            root = etree.fromstring(pkg.blob(mp), _bare)
            rels = {r.id: r for r in pkg.rels(mp)}
            ids = root.findall(".//{http://schemas.openxmlformats.org/presentationml/2006/main}sldIdLst/{http://schemas.openxmlformats.org/presentationml/2006/main}sldId")
            for i, sld in enumerate(ids):
                rid = sld.get("{%s}id" % opc_ref.R_NS)
                if rid in rels and rels[rid].target:
                    ren[rels[rid].target] = "/ppt/slides/slide@%d.xml" % (i + 1)
        except etree.XMLSyntaxError:
            pass
    out = {}
    for pn in pkg.reachable():
        name = ren.get(pn, pn)
        ct, _ = pkg.content_type(pn)
        data = pkg.blob(pn)
        if opc_ref.is_xml_content_type(ct):
            try:
                root = etree.fromstring(data, _bare)
                _prune(root)
                data = etree.tostring(root, method="c14n", with_comments=False)
            except etree.XMLSyntaxError:
                pass
        rels = sorted((r.type, r.mode, ren.get(r.target, r.target) if r.mode != "External" else r.target_raw,
                       _rid_used(r.id)) for r in pkg.rels(pn))
        out[name] = (ct, hashlib.sha1(data).hexdigest(), tuple(rels), data if opc_ref.is_xml_content_type(ct) else None)
    out["/"] = (None, "", tuple(sorted((r.type, r.mode, ren.get(r.target, r.target) if r.mode != "External" else r.target_raw, "") for r in pkg.rels("/"))), None)
    return out


def _rid_used(rid):
    return ""  # relationship ids may be renumbered by nothing in a read path; compared through targets only


def canon_diff(a, b):
    """list of (kind, part, detail) differences between two canon_package results."""
    out = []
    for pn in sorted(set(a) | set(b)):
        if pn not in a:
            out.append(("part-added", pn, b[pn][0]))
            continue
        if pn not in b:
            out.append(("part-removed", pn, a[pn][0]))
            continue
        if a[pn][0] != b[pn][0]:
            out.append(("content-type", pn, "%s -> %s" % (a[pn][0], b[pn][0])))
        if a[pn][2] != b[pn][2]:
            out.append(("rels", pn, "%s" % (sorted(set(b[pn][2]) ^ set(a[pn][2]))[:3],)))
        if a[pn][1] != b[pn][1]:
            out.append(("content", pn, _xml_delta(a[pn][3], b[pn][3])))
    return out


def _xml_delta(x, y):
    if x is None or y is None:
        return "binary payload differs"
    try:
        tx = [etree.QName(e).localname for e in etree.fromstring(x).iter() if isinstance(e.tag, str)]
        ty = [etree.QName(e).localname for e in etree.fromstring(y).iter() if isinstance(e.tag, str)]
    except etree.XMLSyntaxError:
        return "unparseable"
    from collections import Counter
    cx, cy = Counter(tx), Counter(ty)
    added = sorted((cy - cx).elements())
    removed = sorted((cx - cy).elements())
    if not added and not removed:
        return "same elements, attributes/text/order differ"
    return "added=%s removed=%s" % (",".join(sorted(set(added))), ",".join(sorted(set(removed))))


# ---- system ------------------------------------------------------------------------------------------

GEN_INITS = ["gen:rich", "out_of_order", "non_contiguous", "gen:orphan-jump-target", "gen:notes-without-master-rel",
             "gen:edited"]


def _gen_rich():
    """Generated deck holding each shape kind, a table, charts and notes."""
    live = prs_ops.build("default")
    for op in [{"op": "add_slide", "layout": 1}, {"op": "add_textbox"}, {"op": "add_shape", "kind": "RECTANGLE", "text": "x"},
               {"op": "add_picture", "img": "A"}, {"op": "add_table"}, {"op": "add_chart", "kind": "bar"},
               {"op": "add_chart", "kind": "xy"}, {"op": "add_connector"}, {"op": "add_group", "member": "shape"},
               {"op": "add_freeform"}, {"op": "notes_text", "text": "n"}, {"op": "add_slide", "layout": 8},
               {"op": "insert_picture_ph", "img": "B"}, {"op": "add_chart", "kind": "pie"}, {"op": "add_chart", "kind": "line"},
               {"op": "add_movie"}, {"op": "hlink_shape", "url": "https://e.com"}]:
        prs_ops.apply(live, op)
    # a placeholder that was only rotated: its a:xfrm has no a:off / a:ext (position and size stay inherited)
    for ph in live.prs.slides[0].placeholders:
        ph.rotation = 15.0
        break
    return F.save_bytes(live.prs)


def _gen_edited():
    """A deck in states only a SEQUENCE of public calls produces (not fresh objects, not PowerPoint's forms): text typed
    into a spanned cell after a merge, a group member moved after it was added (group frame != union of members), one
    point's data label and one point's marker customised (series-level c:dLbls / c:dPt beside untouched points),
    properties set and then reset to None, a hyperlink set and cleared, a split after a merge."""
    from pptx.chart.data import CategoryChartData
    from pptx.enum.chart import XL_CHART_TYPE, XL_MARKER_STYLE
    from pptx.util import Emu, Pt
    prs = F.open_prs()
    s1 = prs.slides.add_slide(prs.slide_layouts[6])
    tbl = s1.shapes.add_table(3, 3, Emu(100000), Emu(100000), Emu(3000000), Emu(1200000)).table
    tbl.cell(0, 0).text = "origin"
    tbl.cell(2, 2).text = "free"
    tbl.cell(0, 0).merge(tbl.cell(1, 1))
    tbl.cell(1, 1).text = "typed into a spanned cell"
    tbl.cell(2, 0).merge(tbl.cell(2, 1))
    tbl.cell(2, 0).split()
    grp = s1.shapes.add_group_shape()
    a = grp.shapes.add_shape(1, Emu(500000), Emu(2000000), Emu(400000), Emu(300000))
    grp.shapes.add_textbox(Emu(1200000), Emu(2100000), Emu(400000), Emu(300000)).text_frame.text = "in group"
    a.left, a.width = Emu(100000), Emu(900000)
    tb = s1.shapes.add_textbox(Emu(100000), Emu(3000000), Emu(2000000), Emu(600000))
    p = tb.text_frame.paragraphs[0]
    p.text = "spacing set and reset"
    p.line_spacing = Pt(14)
    p.line_spacing = None
    p.level = 2
    p.level = 0
    r = p.add_run()
    r.text = "link set and cleared"
    r.hyperlink.address = "https://example.com/x"
    r.hyperlink.address = None
    r.font.bold = True
    r.font.bold = None
    s2 = prs.slides.add_slide(prs.slide_layouts[5])
    cd = CategoryChartData()
    cd.categories = ["a", "b", "c"]
    cd.add_series("S1", (1, 2, 3))
    cd.add_series("S2", (3, 2, 1))
    ch = s2.shapes.add_chart(XL_CHART_TYPE.LINE_MARKERS, Emu(100000), Emu(1500000), Emu(4000000), Emu(3000000), cd).chart
    ser = ch.plots[0].series[0]
    ser.points[0].data_label.position = None
    ser.points[0].data_label.text_frame.text = "custom"
    ser.points[1].marker.style = XL_MARKER_STYLE.NONE
    ch.plots[0].series[1].points[2].format.line.width = Pt(2)
    ch.has_legend = True
    ch.has_legend = False
    ch.has_legend = True
    s2.shapes.title.text = "edited"
    s2.shapes.title.left = Emu(50000)
    return F.save_bytes(prs)


_BLOBS = {}


def _gen_orphan_jump_target():
    """A deck as left by common 'delete slide' recipes: slide 2 is removed from the slide list (p:sldId and the
    presentation relationship) but is still the target of a jump action on slide 1, hence still in the package."""
    live = prs_ops.build("two_slides")
    for op in [{"op": "target_slide", "slide": 0, "to": 1}]:
        prs_ops.apply(live, op)
    m = F.zip_members(F.save_bytes(live.prs))
    NSP = "http://schemas.openxmlformats.org/presentationml/2006/main"
    root = etree.fromstring(m["ppt/presentation.xml"])
    lst = root.find("{%s}sldIdLst" % NSP)
    victim = list(lst)[1]
    rid = victim.get("{%s}id" % opc_ref.R_NS)
    lst.remove(victim)
    m["ppt/presentation.xml"] = etree.tostring(root, xml_declaration=True, encoding="UTF-8", standalone=True)
    rels = etree.fromstring(m["ppt/_rels/presentation.xml.rels"])
    for r in list(rels):
        if r.get("Id") == rid:
            rels.remove(r)
    m["ppt/_rels/presentation.xml.rels"] = etree.tostring(rels, xml_declaration=True, encoding="UTF-8", standalone=True)
    return F.write_zip(m)


def _gen_notes_without_master_rel():
    """A deck with a notes slide whose presentation part has lost its notesMaster relationship (and
    p:notesMasterIdLst), as left by 'copy slide with its rels' recipes; the notes master stays reachable through the
    notes slide."""
    live = prs_ops.build("two_slides")
    prs_ops.apply(live, {"op": "notes_text", "slide": 0, "text": "n"})
    m = F.zip_members(F.save_bytes(live.prs))
    NSP = "http://schemas.openxmlformats.org/presentationml/2006/main"
    rels = etree.fromstring(m["ppt/_rels/presentation.xml.rels"])
    rid = None
    for r in list(rels):
        if r.get("Type", "").endswith("/notesMaster"):
            rid = r.get("Id")
            rels.remove(r)
    m["ppt/_rels/presentation.xml.rels"] = etree.tostring(rels, xml_declaration=True, encoding="UTF-8", standalone=True)
    root = etree.fromstring(m["ppt/presentation.xml"])
    nm = root.find("{%s}notesMasterIdLst" % NSP)
    if nm is not None:
        root.remove(nm)
    m["ppt/presentation.xml"] = etree.tostring(root, xml_declaration=True, encoding="UTF-8", standalone=True)
    return F.write_zip(m)


def initial_blob(name):
    if name not in _BLOBS:
        if name == "gen:rich":
            _BLOBS[name] = _gen_rich()
        elif name == "gen:edited":
            _BLOBS[name] = _gen_edited()
        elif name == "gen:orphan-jump-target":
            _BLOBS[name] = _gen_orphan_jump_target()
        elif name == "gen:notes-without-master-rel":
            _BLOBS[name] = _gen_notes_without_master_rel()
        else:
            _BLOBS[name] = prs_ops.initial_blob(name)
    return _BLOBS[name]


_BASE = {}


def baseline_canon(name):
    if name not in _BASE:
        prs = F.open_prs(initial_blob(name))
        _BASE[name] = canon_package(F.save_bytes(prs))
    return _BASE[name]


OPS = [{"op": "walk", "entry": e, "order": o} for e in ENTRIES for o in ORDERS] + [{"op": "save"}]


class Live12:
    def __init__(self, prs, init):
        self.prs = prs
        self.init = init
        self.calls = 0
        self.nontrivial = 0
        self.types = set()
        self.capped = False


class System:
    name = "inspect"

    def __init__(self, inits):
        self._inits = inits

    def initials(self):
        return list(self._inits)

    def build(self, name):
        return Live12(F.open_prs(initial_blob(name)), name)

    def ops(self, level):
        return OPS

    def apply(self, live, op):
        if op["op"] == "save":
            F.save_bytes(live.prs)
            return "saved"
        r = walk(live.prs, op["entry"], op["order"])
        live.calls += r.calls
        live.nontrivial += r.nontrivial
        live.types |= r.types
        if r.capped:
            live.capped = True
        return "calls>0" if r.calls else "calls=0"

    def canon(self, live):
        # populated lazy caches are part of the state: a save (which changes nothing in the package) fills caches
        # that a later traversal may invalidate - merging "saved" with "not saved" would hide exactly that
        from mc.drivers import state as _state
        flags = _state.cache_flags(live.prs.part.package)
        live._blob = F.save_bytes(live.prs)
        live._canon = canon_package(live._blob)
        h = hashlib.sha1(repr(sorted((k, v[:3]) for k, v in live._canon.items())).encode()).hexdigest()
        return (h, hashlib.sha1(repr(flags).encode()).hexdigest())

    def check(self, live, init, hist, part):
        base = baseline_canon(init)
        diffs = canon_diff(base, live._canon)
        hs = ">".join(o["op"] + (":%s/%s" % (o["entry"], o["order"]) if "entry" in o else "") for o in hist)
        part.count("accessor_calls", live.calls)
        part.count("accessor_calls_nontrivial", live.nontrivial)
        for t in live.types:
            part.add("proxy_types", t)
        if live.nontrivial >= 50:
            part.count("nontrivial_count")
        if not diffs:
            return
        # attribute the differences to accessors (slow path, only on a differing state)
        found = attribute(init, hist)
        covered = set()
        for acc, pn, added, removed in found:
            sig = "C12|mutates|%s" % acc
            covered.add(pn)
            part.violation(sig, "deck=%s history=%s: reading %s changed %s beyond the tolerance: added <%s> removed <%s>" % (init, hs, acc, pn, added, removed),
                           {"init": init, "history": hist, "signature": sig})
        for kind, pn, detail in diffs:
            pcls = re.sub(r"\d+", "N", pn).rsplit("/", 1)[-1]
            if kind == "content" and pcls.replace("@", "") in covered:
                continue
            sig = "C12|%s|%s|%s|unattributed" % (kind, pcls, detail)
            part.violation(sig, "deck=%s history=%s: %s %s: %s" % (init, hs, kind, pn, detail),
                           {"init": init, "history": hist, "signature": sig})


def attribute(init, hist):
    """Slow path (only on a state that differs from the baseline): replay the history with attribution."""
    prs = F.open_prs(initial_blob(init))
    found = []
    for op in hist:
        if op["op"] == "save":
            F.save_bytes(prs)
            continue
        found.extend(walk(prs, op["entry"], op["order"], attribute=True).found)
    return found


def run(ctx):
    decks = ["corpus:" + F.corpus_name(p) for p in F.corpus()]
    small = ["gen:rich", "gen:edited", "out_of_order", "gen:orphan-jump-target", "gen:notes-without-master-rel", "corpus:features/steps/test_files/cht-charts.pptx",
             "corpus:features/steps/test_files/tbl-cell.pptx", "corpus:features/steps/test_files/shp-shapes.pptx",
             "corpus:features/steps/test_files/test.pptx", "corpus:features/steps/test_files/prs-notes.pptx",
             "corpus:features/steps/test_files/txt-font-props.pptx"]
    ctx.extra["operations"] = [o["op"] + (":%s/%s" % (o["entry"], o["order"]) if "entry" in o else "") for o in OPS]
    ctx.extra["exempt_accessors"] = {"%s.%s" % k: v for k, v in EXEMPT.items()}
    if ctx.thorough:
        explorer.explore(ctx, System(decks + GEN_INITS), 2, name="all-decks")
        explorer.explore(ctx, System(small), 3, name="selected-decks")
    else:
        explorer.explore(ctx, System(decks + GEN_INITS), 1, name="all-decks")
        explorer.explore(ctx, System(small), 2, name="selected-decks")
    # isolation pass (no masking between accessors)
    from mc.core.parallel import fanout
    iso_decks = GEN_INITS + ["out_of_order"] + decks
    items, n_ctx = isolation_items(iso_decks, per_context=2 if ctx.thorough else 1)
    ctx.extra["isolation_pass"] = {"decks": len(iso_decks), "structural_contexts": n_ctx, "accessor_calls": len(items)}
    fanout(ctx, _iso_chunk, ctx.rotate(items))
    if len(items) < 1000:
        raise HarnessError("isolation pass found only %d (object, accessor) pairs" % len(items))
    if ctx.counters.get("accessor_calls", 0) < 10000:
        raise HarnessError("walker made only %d accessor calls: vacuous" % ctx.counters.get("accessor_calls", 0))
    ctx.extra["proxy_types_visited"] = sorted(ctx.sets.get("proxy_types", ()))


def replay(data):
    if data.get("kind") == "isolated":
        status, found = isolated_call(data["init"], data["cls"], tuple(tuple(p) for p in data["path"]), data["name"])
        for acc, root, added, removed in found:
            if "C12|mutates|%s" % acc == data["signature"]:
                return "reading %s alone changed the %s part: added <%s> removed <%s>" % (acc, root, added, removed)
        return None
    return explorer.replay_history(System([data["init"]]), data)
