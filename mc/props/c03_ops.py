"""Operation catalogue for C03: creators and formatting operations, each a small function on a live
Presentation that locates its target by kind (last shape of that kind on the last slide) and calls the PUBLIC API.

FORMAT[kind] = list of (name, fn(target)) — in-domain calls that the documentation says succeed.
REJECT[kind] = list of (name, fn(target), exception types) — out-of-domain calls documented to be rejected.
CREATE = list of (name, kind, fn(slide)) — creators; `kind` says which FORMAT table applies to the new object.
"""

from __future__ import annotations

import io

from mc.drivers import fixtures as F
from mc.drivers import prs_ops

EMU = 914400


def _rgb(h="3C2F80"):
    from pptx.dml.color import RGBColor
    return RGBColor.from_string(h)


def _pt(v):
    from pptx.util import Pt
    return Pt(v)


def _E():
    import pptx.enum.chart as c
    import pptx.enum.dml as d
    import pptx.enum.shapes as s
    import pptx.enum.text as t
    import pptx.enum.lang as l
    return c, d, s, t, l


# ---- creators ------------------------------------------------------------------------------------------

def _chart(kind):
    def fn(slide):
        from pptx.enum.chart import XL_CHART_TYPE as T
        from pptx.chart.data import BubbleChartData
        ct = getattr(T, kind)
        if kind.startswith("XY"):
            data = prs_ops._xy_data()
        elif kind.startswith("BUBBLE"):
            data = BubbleChartData()
            s = data.add_series("b")
            s.add_data_point(1, 2, 3)
            s.add_data_point(2, 3, 4)
        else:
            data = prs_ops._cat_data()
        return slide.shapes.add_chart(ct, EMU, EMU, 5 * EMU, 3 * EMU, data)
    return fn


def _mk_shape(slide):
    from pptx.enum.shapes import MSO_SHAPE
    sh = slide.shapes.add_shape(MSO_SHAPE.ROUNDED_RECTANGLE, EMU, EMU, 2 * EMU, EMU)
    sh.text_frame.text = "first\nsecond"
    return sh


def _mk_textbox(slide):
    tb = slide.shapes.add_textbox(EMU, EMU, 2 * EMU, EMU)
    tb.text_frame.text = "tb"
    return tb


def _mk_picture(slide):
    return slide.shapes.add_picture(io.BytesIO(prs_ops.img("A")), EMU, EMU)


def _mk_connector(slide):
    from pptx.enum.shapes import MSO_CONNECTOR
    return slide.shapes.add_connector(MSO_CONNECTOR.ELBOW, EMU, EMU, 3 * EMU, 2 * EMU)


def _mk_group(slide):
    from pptx.enum.shapes import MSO_SHAPE
    g = slide.shapes.add_group_shape()
    g.shapes.add_shape(MSO_SHAPE.OVAL, EMU, EMU, EMU, EMU)
    g.shapes.add_textbox(2 * EMU, EMU, EMU, EMU)
    return g


def _mk_freeform(slide):
    fb = slide.shapes.build_freeform(0, 0, scale=1000.0)
    fb.add_line_segments([(100, 0), (100, 100), (0, 100)], close=True)
    fb.move_to(200, 200)
    fb.add_line_segments([(300, 200), (300, 300)], close=False)
    return fb.convert_to_shape(EMU, EMU)


def _mk_table(slide):
    gf = slide.shapes.add_table(3, 3, EMU, EMU, 5 * EMU, 2 * EMU)
    gf.table.cell(0, 0).text = "a"
    gf.table.cell(1, 1).text = "b\nc"
    return gf


def _mk_movie(slide):
    return slide.shapes.add_movie(F.MOVIE, EMU, EMU, EMU, EMU, mime_type="video/mp4")


def _mk_ole(slide):
    import os
    from pptx.enum.shapes import PROG_ID
    return slide.shapes.add_ole_object(os.path.join(F.FEATURE_FILES, "shp-embedded-xlsx.xlsx"), PROG_ID.XLSX, EMU, EMU)


CREATE = [
    ("add_shape", "autoshape", _mk_shape),
    ("add_textbox", "autoshape", _mk_textbox),
    ("add_picture", "picture", _mk_picture),
    ("add_connector", "connector", _mk_connector),
    ("add_group", "group", _mk_group),
    ("add_freeform", "autoshape", _mk_freeform),
    ("add_table", "table", _mk_table),
    ("add_movie", "picture", _mk_movie),
    ("add_ole", "frame", _mk_ole),
] + [("add_chart:" + k, "chart", _chart(k)) for k in (
    # all 29 chart types the XML writer supports
    "BAR_CLUSTERED", "AREA", "AREA_STACKED", "AREA_STACKED_100", "BAR_STACKED", "BAR_STACKED_100", "BUBBLE",
    "BUBBLE_THREE_D_EFFECT", "COLUMN_CLUSTERED", "COLUMN_STACKED", "COLUMN_STACKED_100", "DOUGHNUT", "DOUGHNUT_EXPLODED",
    "LINE", "LINE_MARKERS", "LINE_MARKERS_STACKED", "LINE_MARKERS_STACKED_100", "LINE_STACKED", "LINE_STACKED_100", "PIE",
    "PIE_EXPLODED", "RADAR", "RADAR_FILLED", "RADAR_MARKERS", "XY_SCATTER", "XY_SCATTER_LINES",
    "XY_SCATTER_LINES_NO_MARKERS", "XY_SCATTER_SMOOTH", "XY_SCATTER_SMOOTH_NO_MARKERS")]


# ---- formatting: shape-common ----------------------------------------------------------------------------

def _common():
    c, d, s, t, l = _E()
    return [
        ("rotation=45", lambda o: setattr(o, "rotation", 45.0)),
        ("rotation=-30.5", lambda o: setattr(o, "rotation", -30.5)),
        ("left=0", lambda o: setattr(o, "left", 0)),
        ("top=-914400", lambda o: setattr(o, "top", -914400)),
        ("width=1", lambda o: setattr(o, "width", 1)),
        ("height=0", lambda o: setattr(o, "height", 0)),
        ("name", lambda o: setattr(o, "name", 'N "q" <&>')),
    ]


def _p(o, i=0):
    return o.text_frame.paragraphs[i]


def _r(o):
    p = _p(o)
    rs = p.runs
    return rs[0] if rs else p.add_run()


def _text_ops():
    c, d, s, t, l = _E()
    ops = [
        ("tf.text", lambda o: setattr(o.text_frame, "text", "x\ny\vz")),
        ("tf.text=''", lambda o: setattr(o.text_frame, "text", "")),
        ("tf.clear", lambda o: o.text_frame.clear()),
        ("tf.add_paragraph", lambda o: setattr(o.text_frame.add_paragraph(), "text", "np")),
        ("tf.word_wrap=True", lambda o: setattr(o.text_frame, "word_wrap", True)),
        ("tf.word_wrap=None", lambda o: setattr(o.text_frame, "word_wrap", None)),
        ("tf.auto_size=SHAPE", lambda o: setattr(o.text_frame, "auto_size", t.MSO_AUTO_SIZE.SHAPE_TO_FIT_TEXT)),
        ("tf.auto_size=TEXT", lambda o: setattr(o.text_frame, "auto_size", t.MSO_AUTO_SIZE.TEXT_TO_FIT_SHAPE)),
        ("tf.auto_size=NONE", lambda o: setattr(o.text_frame, "auto_size", t.MSO_AUTO_SIZE.NONE)),
        ("tf.auto_size=None", lambda o: setattr(o.text_frame, "auto_size", None)),
        ("tf.vertical_anchor=MIDDLE", lambda o: setattr(o.text_frame, "vertical_anchor", t.MSO_ANCHOR.MIDDLE)),
        ("tf.vertical_anchor=None", lambda o: setattr(o.text_frame, "vertical_anchor", None)),
        ("tf.margin_left", lambda o: setattr(o.text_frame, "margin_left", 91440)),
        ("tf.margin_bottom=0", lambda o: setattr(o.text_frame, "margin_bottom", 0)),
        ("p.alignment=CENTER", lambda o: setattr(_p(o), "alignment", t.PP_ALIGN.CENTER)),
        ("p.alignment=None", lambda o: setattr(_p(o), "alignment", None)),
        ("p.level=1", lambda o: setattr(_p(o), "level", 1)),
        ("p.level=8", lambda o: setattr(_p(o), "level", 8)),
        ("p.line_spacing=1.5", lambda o: setattr(_p(o), "line_spacing", 1.5)),
        ("p.line_spacing=Pt12", lambda o: setattr(_p(o), "line_spacing", _pt(12))),
        ("p.line_spacing=None", lambda o: setattr(_p(o), "line_spacing", None)),
        ("p.space_before", lambda o: setattr(_p(o), "space_before", _pt(6))),
        ("p.space_after", lambda o: setattr(_p(o), "space_after", _pt(0))),
        ("p.text=vt", lambda o: setattr(_p(o), "text", "\vabc")),
        ("p.text", lambda o: setattr(_p(o), "text", "a\nb")),
        ("p.clear", lambda o: _p(o).clear()),
        ("p.add_run", lambda o: setattr(_p(o).add_run(), "text", "run")),
        ("p.add_line_break", lambda o: _p(o).add_line_break()),
        ("p.font.size", lambda o: setattr(_p(o).font, "size", _pt(20))),
        ("p.font.bold", lambda o: setattr(_p(o).font, "bold", True)),
        ("r.text", lambda o: setattr(_r(o), "text", "r\x07\n")),
        ("r.font.bold=False", lambda o: setattr(_r(o).font, "bold", False)),
        ("r.font.italic", lambda o: setattr(_r(o).font, "italic", True)),
        ("r.font.underline=True", lambda o: setattr(_r(o).font, "underline", True)),
        ("r.font.underline=WAVY", lambda o: setattr(_r(o).font, "underline", t.MSO_UNDERLINE.WAVY_LINE)),
        ("r.font.underline=None", lambda o: setattr(_r(o).font, "underline", None)),
        ("r.font.name", lambda o: setattr(_r(o).font, "name", "Arial")),
        ("r.font.name=None", lambda o: setattr(_r(o).font, "name", None)),
        ("r.font.size=1pt", lambda o: setattr(_r(o).font, "size", _pt(1))),
        ("r.font.size=4000pt", lambda o: setattr(_r(o).font, "size", _pt(4000))),
        ("r.font.language_id", lambda o: setattr(_r(o).font, "language_id", l.MSO_LANGUAGE_ID.FRENCH)),
        ("r.font.color.rgb", lambda o: setattr(_r(o).font.color, "rgb", _rgb())),
        ("r.font.color.theme", lambda o: setattr(_r(o).font.color, "theme_color", d.MSO_THEME_COLOR.ACCENT_2)),
        ("r.font.color.brightness", lambda o: (setattr(_r(o).font.color, "rgb", _rgb()), setattr(_r(o).font.color, "brightness", -0.25))),
        ("r.font.fill.gradient", lambda o: _r(o).font.fill.gradient()),
        ("r.font.fill.patterned", lambda o: _r(o).font.fill.patterned()),
        ("r.hyperlink", lambda o: setattr(_r(o).hyperlink, "address", "https://e.com/?a=1&b=2")),
        ("r.hyperlink=None", lambda o: setattr(_r(o).hyperlink, "address", None)),
        ("tf.fit_text-free: p2.level", lambda o: setattr(o.text_frame.paragraphs[-1], "level", 2)),
    ]
    return ops


def _fill_ops(get, pfx):
    c, d, s, t, l = _E()
    return [
        (pfx + ".solid", lambda o: get(o).solid()),
        (pfx + ".solid.rgb", lambda o: (get(o).solid(), setattr(get(o).fore_color, "rgb", _rgb()))),
        (pfx + ".solid.theme", lambda o: (get(o).solid(), setattr(get(o).fore_color, "theme_color", d.MSO_THEME_COLOR.ACCENT_1))),
        (pfx + ".solid.theme.brightness", lambda o: (get(o).solid(), setattr(get(o).fore_color, "theme_color", d.MSO_THEME_COLOR.ACCENT_1), setattr(get(o).fore_color, "brightness", 0.4))),
        (pfx + ".solid.brightness0", lambda o: (get(o).solid(), setattr(get(o).fore_color, "rgb", _rgb()), setattr(get(o).fore_color, "brightness", -0.5), setattr(get(o).fore_color, "brightness", 0))),
        (pfx + ".background", lambda o: get(o).background()),
        (pfx + ".gradient", lambda o: get(o).gradient()),
        (pfx + ".gradient.angle", lambda o: (get(o).gradient(), setattr(get(o), "gradient_angle", 45))),
        (pfx + ".gradient.stop", lambda o: (get(o).gradient(), setattr(get(o).gradient_stops[0], "position", 0.25), setattr(get(o).gradient_stops[0].color, "rgb", _rgb()))),
        (pfx + ".patterned", lambda o: get(o).patterned()),
        (pfx + ".patterned.pattern", lambda o: (get(o).patterned(), setattr(get(o), "pattern", d.MSO_PATTERN.WAVE))),
        (pfx + ".patterned.colors", lambda o: (get(o).patterned(), setattr(get(o).fore_color, "rgb", _rgb()), setattr(get(o).back_color, "theme_color", d.MSO_THEME_COLOR.ACCENT_3))),
    ]


def _line_ops(get, pfx):
    c, d, s, t, l = _E()
    return [
        (pfx + ".width", lambda o: setattr(get(o), "width", _pt(2.5))),
        (pfx + ".width=0", lambda o: setattr(get(o), "width", 0)),
        (pfx + ".dash", lambda o: setattr(get(o), "dash_style", d.MSO_LINE.DASH_DOT)),
        (pfx + ".dash=None", lambda o: setattr(get(o), "dash_style", None)),
        (pfx + ".color.rgb", lambda o: setattr(get(o).color, "rgb", _rgb())),
        (pfx + ".color.theme", lambda o: setattr(get(o).color, "theme_color", d.MSO_THEME_COLOR.TEXT_1)),
        (pfx + ".fill.background", lambda o: get(o).fill.background()),
        (pfx + ".fill.solid", lambda o: get(o).fill.solid()),
        (pfx + ".fill.gradient", lambda o: get(o).fill.gradient()),
        (pfx + ".width-after-fill", lambda o: (get(o).fill.solid(), setattr(get(o), "width", 12700), setattr(get(o), "dash_style", d.MSO_LINE.ROUND_DOT))),
    ]


def _autoshape_ops():
    ops = _common() + _text_ops()
    ops += _fill_ops(lambda o: o.fill, "fill")
    ops += _line_ops(lambda o: o.line, "line")
    ops += [
        ("shadow.inherit=False", lambda o: setattr(o.shadow, "inherit", False)),
        ("shadow.inherit=True", lambda o: (setattr(o.shadow, "inherit", False), setattr(o.shadow, "inherit", True))),
        ("adjustments[0]", lambda o: o.adjustments.__setitem__(0, 0.3) if len(o.adjustments) else None),
        ("click.hyperlink", lambda o: setattr(o.click_action.hyperlink, "address", "https://e.com")),
        ("click.hyperlink=None", lambda o: setattr(o.click_action.hyperlink, "address", None)),
        ("click.target_slide", lambda o: setattr(o.click_action, "target_slide", o.part.slide)),
        ("click.target_slide=None", lambda o: setattr(o.click_action, "target_slide", None)),
    ]
    return ops


def _picture_ops():
    c, d, s, t, l = _E()
    ops = _common() + _line_ops(lambda o: o.line, "line") + [
        ("crop_left", lambda o: setattr(o, "crop_left", 0.1)),
        ("crop_right=-0.2", lambda o: setattr(o, "crop_right", -0.2)),
        ("crop_top=1.5", lambda o: setattr(o, "crop_top", 1.5)),
        ("crop_bottom=0", lambda o: setattr(o, "crop_bottom", 0.0)),
        ("auto_shape_type", lambda o: setattr(o, "auto_shape_type", s.MSO_SHAPE.OVAL) if hasattr(type(o), "auto_shape_type") else None),
        ("shadow.inherit=False", lambda o: setattr(o.shadow, "inherit", False)),
        ("click.hyperlink", lambda o: setattr(o.click_action.hyperlink, "address", "https://e.com")),
    ]
    return ops


def _connector_ops():
    ops = _common() + _line_ops(lambda o: o.line, "line") + [
        ("begin_x", lambda o: setattr(o, "begin_x", 5 * EMU)),
        ("end_y", lambda o: setattr(o, "end_y", 0)),
        ("begin_y+end_x", lambda o: (setattr(o, "begin_y", 4 * EMU), setattr(o, "end_x", 0))),
        ("shadow.inherit=False", lambda o: setattr(o.shadow, "inherit", False)),
    ]
    return ops


def _connect_ops():
    def begin_connect(o):
        from pptx.enum.shapes import MSO_SHAPE
        sh = o.part.slide.shapes.add_shape(MSO_SHAPE.RECTANGLE, 0, 0, EMU, EMU)
        o.begin_connect(sh, 0)

    def end_connect(o):
        from pptx.enum.shapes import MSO_SHAPE
        sh = o.part.slide.shapes.add_shape(MSO_SHAPE.RECTANGLE, 0, 0, EMU, EMU)
        o.end_connect(sh, 2)
    return [("begin_connect", begin_connect), ("end_connect", end_connect)]


def _group_ops():
    def add_member(o):
        from pptx.enum.shapes import MSO_CONNECTOR
        o.shapes.add_connector(MSO_CONNECTOR.STRAIGHT, 0, 0, EMU, EMU)

    def add_pic(o):
        o.shapes.add_picture(io.BytesIO(prs_ops.img("B")), 0, 0)

    def add_sub(o):
        g = o.shapes.add_group_shape()
        g.shapes.add_textbox(0, 0, EMU, EMU).text_frame.text = "sub"

    def add_ff(o):
        fb = o.shapes.build_freeform(0, 0, scale=100.0)
        fb.add_line_segments([(10, 0), (10, 10)], close=True)
        fb.convert_to_shape(0, 0)
    return _common() + [("group.add_connector", add_member), ("group.add_picture", add_pic), ("group.add_group", add_sub),
                        ("group.add_freeform", add_ff), ("shadow.inherit=False", lambda o: setattr(o.shadow, "inherit", False))]


def _table_ops():
    c, d, s, t, l = _E()
    T = lambda o: o.table  # noqa: E731
    C = lambda o, r=0, k=0: o.table.cell(r, k)  # noqa: E731
    ops = _common() + [
        ("cell.text", lambda o: setattr(C(o), "text", "x\ny")),
        ("cell.margins", lambda o: (setattr(C(o), "margin_left", 0), setattr(C(o), "margin_top", 45720), setattr(C(o), "margin_right", None))),
        ("cell.vertical_anchor", lambda o: setattr(C(o), "vertical_anchor", t.MSO_ANCHOR.BOTTOM)),
        ("cell.vertical_anchor=None", lambda o: setattr(C(o), "vertical_anchor", None)),
        ("cell.merge", lambda o: C(o, 0, 0).merge(C(o, 1, 1))),
        ("cell.merge-row", lambda o: C(o, 2, 0).merge(C(o, 2, 2))),
        ("cell.merge-col", lambda o: C(o, 0, 2).merge(C(o, 2, 2))),
        ("cell.merge+split", lambda o: (C(o, 0, 0).merge(C(o, 1, 1)), C(o, 0, 0).split())),
        ("table.first_row=False", lambda o: setattr(T(o), "first_row", False)),
        ("table.flags", lambda o: (setattr(T(o), "first_col", True), setattr(T(o), "last_row", True), setattr(T(o), "last_col", True),
                                   setattr(T(o), "horz_banding", False), setattr(T(o), "vert_banding", True))),
        ("row.height", lambda o: setattr(T(o).rows[0], "height", 2 * EMU)),
        ("col.width", lambda o: setattr(T(o).columns[1], "width", 1)),
        ("cell.tf.p.font", lambda o: setattr(C(o, 1, 1).text_frame.paragraphs[0].font, "size", _pt(9))),
        ("cell.tf.p.level", lambda o: setattr(C(o, 1, 1).text_frame.paragraphs[0], "level", 1)),
        ("cell.tf.word_wrap", lambda o: setattr(C(o, 1, 1).text_frame, "word_wrap", False)),
        ("cell.tf.auto_size", lambda o: setattr(C(o, 1, 1).text_frame, "auto_size", t.MSO_AUTO_SIZE.NONE)),
    ]
    ops += _fill_ops(lambda o: C(o).fill, "cell.fill")
    return ops


def _chart_ops():
    c, d, s, t, l = _E()
    Ch = lambda o: o.chart  # noqa: E731

    def cat(o):
        return o.chart.category_axis

    def val(o):
        return o.chart.value_axis

    def plot(o):
        return o.chart.plots[0]

    def ser(o):
        return o.chart.plots[0].series[0]

    def dl(o):
        plot(o).has_data_labels = True
        return plot(o).data_labels

    ops = _common() + [
        ("has_title=True", lambda o: setattr(Ch(o), "has_title", True)),
        ("has_title=False", lambda o: setattr(Ch(o), "has_title", False)),
        ("title.text", lambda o: setattr(Ch(o).chart_title.text_frame, "text", "T & <t>")),
        ("title.include_in_layout", lambda o: setattr(Ch(o).chart_title, "include_in_layout", False)),
        ("title.format.fill", lambda o: Ch(o).chart_title.format.fill.solid()),
        ("has_legend=True", lambda o: setattr(Ch(o), "has_legend", True)),
        ("has_legend=False", lambda o: setattr(Ch(o), "has_legend", False)),
        ("legend.position", lambda o: (setattr(Ch(o), "has_legend", True), setattr(Ch(o).legend, "position", c.XL_LEGEND_POSITION.BOTTOM))),
        ("legend.include_in_layout", lambda o: (setattr(Ch(o), "has_legend", True), setattr(Ch(o).legend, "include_in_layout", False))),
        ("legend.horz_offset", lambda o: (setattr(Ch(o), "has_legend", True), setattr(Ch(o).legend, "horz_offset", -0.5))),
        ("legend.font", lambda o: (setattr(Ch(o), "has_legend", True), setattr(Ch(o).legend.font, "size", _pt(8)))),
        ("chart_style", lambda o: setattr(Ch(o), "chart_style", 10)),
        ("chart_style=None", lambda o: setattr(Ch(o), "chart_style", None)),
        ("chart.font", lambda o: (setattr(Ch(o).font, "size", _pt(11)), setattr(Ch(o).font, "bold", True))),
        ("plot.vary_by_categories", lambda o: setattr(plot(o), "vary_by_categories", False)),
        ("plot.has_data_labels=True", lambda o: setattr(plot(o), "has_data_labels", True)),
        ("plot.has_data_labels=False", lambda o: (setattr(plot(o), "has_data_labels", True), setattr(plot(o), "has_data_labels", False))),
        ("plot.dl.show_value", lambda o: setattr(dl(o), "show_value", True)),
        ("plot.dl.flags", lambda o: (setattr(dl(o), "show_percentage", True), setattr(dl(o), "show_category_name", True),
                                     setattr(dl(o), "show_series_name", False), setattr(dl(o), "show_legend_key", True))),
        ("plot.dl.number_format", lambda o: (setattr(dl(o), "number_format", '0.0"<%>"'), setattr(dl(o), "number_format_is_linked", False))),
        ("plot.dl.position", lambda o: setattr(dl(o), "position", c.XL_LABEL_POSITION.CENTER)),
        ("plot.dl.position=None", lambda o: setattr(dl(o), "position", None)),
        ("plot.dl.font", lambda o: setattr(dl(o).font, "size", _pt(7))),
        ("ser.format.fill", lambda o: ser(o).format.fill.solid()),
        ("ser.format.fill.rgb", lambda o: (ser(o).format.fill.solid(), setattr(ser(o).format.fill.fore_color, "rgb", _rgb()))),
        ("ser.format.line", lambda o: setattr(ser(o).format.line, "width", _pt(1))),
        ("ser.format.line.dash", lambda o: setattr(ser(o).format.line, "dash_style", d.MSO_LINE.DASH)),
        ("ser.dl", lambda o: setattr(ser(o).data_labels, "show_value", True) if hasattr(ser(o), "data_labels") else None),
        ("ser.dl.position", lambda o: setattr(ser(o).data_labels, "position", c.XL_LABEL_POSITION.CENTER) if hasattr(ser(o), "data_labels") else None),
        ("pt.format.fill", lambda o: ser(o).points[0].format.fill.solid()),
        ("pt1.format.fill", lambda o: (ser(o).points[1].format.fill.solid(), ser(o).points[0].format.fill.solid())),
        ("pt.data_label.text", lambda o: setattr(ser(o).points[0].data_label.text_frame, "text", "dl")),
        ("pt.data_label.position", lambda o: setattr(ser(o).points[0].data_label, "position", c.XL_LABEL_POSITION.CENTER)),
        ("pt.data_label.has_text_frame", lambda o: (setattr(ser(o).points[1].data_label, "has_text_frame", True), setattr(ser(o).points[1].data_label, "has_text_frame", False))),
        ("pt.data_label.font", lambda o: setattr(ser(o).points[0].data_label.font, "bold", True)),
        ("pt.marker", lambda o: (setattr(ser(o).points[0].marker, "style", c.XL_MARKER_STYLE.DIAMOND), setattr(ser(o).points[0].marker, "size", 9))),
        ("replace_data", lambda o: Ch(o).replace_data(_same_kind_data(Ch(o)))),
    ]
    return ops


def _same_kind_data(chart):
    from pptx.chart.data import BubbleChartData
    from pptx.enum.chart import XL_CHART_TYPE as T
    n = chart.chart_type.name
    if n.startswith("XY"):
        return prs_ops._xy_data(3, 2)
    if n.startswith("BUBBLE"):
        data = BubbleChartData()
        for k in range(2):
            s = data.add_series("b%d" % k)
            s.add_data_point(1, 2, 3)
        return data
    return prs_ops._cat_data(2, 3, "r")


def _axis_ops():
    """applicable when the chart has a category/value axis (not pie/doughnut)"""
    c, d, s, t, l = _E()

    def cat(o):
        return o.chart.category_axis

    def val(o):
        return o.chart.value_axis
    ops = []
    for nm, ax in (("cat", cat), ("val", val)):
        ops += [
            (nm + ".has_title", lambda o, ax=ax: setattr(ax(o), "has_title", True)),
            (nm + ".has_title=False", lambda o, ax=ax: (setattr(ax(o), "has_title", True), setattr(ax(o), "has_title", False))),
            (nm + ".axis_title.text", lambda o, ax=ax: setattr(ax(o).axis_title.text_frame, "text", "AX")),
            (nm + ".axis_title.format", lambda o, ax=ax: ax(o).axis_title.format.fill.solid()),
            (nm + ".major_gridlines", lambda o, ax=ax: setattr(ax(o), "has_major_gridlines", True)),
            (nm + ".major_gridlines=False", lambda o, ax=ax: setattr(ax(o), "has_major_gridlines", False)),
            (nm + ".minor_gridlines", lambda o, ax=ax: setattr(ax(o), "has_minor_gridlines", True)),
            (nm + ".gridlines.format", lambda o, ax=ax: setattr(ax(o).major_gridlines.format.line, "width", _pt(0.5))),
            (nm + ".visible=False", lambda o, ax=ax: setattr(ax(o), "visible", False)),
            (nm + ".reverse_order", lambda o, ax=ax: setattr(ax(o), "reverse_order", True)),
            (nm + ".reverse_order=False", lambda o, ax=ax: setattr(ax(o), "reverse_order", False)),
            (nm + ".tick_labels.font", lambda o, ax=ax: setattr(ax(o).tick_labels.font, "size", _pt(8))),
            (nm + ".tick_labels.number_format", lambda o, ax=ax: (setattr(ax(o).tick_labels, "number_format", "0.00"), setattr(ax(o).tick_labels, "number_format_is_linked", False))),
            (nm + ".tick_labels.offset", lambda o, ax=ax: setattr(ax(o).tick_labels, "offset", 250)),
            (nm + ".tick_label_position", lambda o, ax=ax: setattr(ax(o), "tick_label_position", c.XL_TICK_LABEL_POSITION.LOW)),
            (nm + ".major_tick_mark", lambda o, ax=ax: setattr(ax(o), "major_tick_mark", c.XL_TICK_MARK.CROSS)),
            (nm + ".minor_tick_mark", lambda o, ax=ax: setattr(ax(o), "minor_tick_mark", c.XL_TICK_MARK.INSIDE)),
            (nm + ".maximum_scale", lambda o, ax=ax: setattr(ax(o), "maximum_scale", 50.5)),
            (nm + ".minimum_scale", lambda o, ax=ax: setattr(ax(o), "minimum_scale", -1.0)),
            (nm + ".scale=None", lambda o, ax=ax: (setattr(ax(o), "maximum_scale", 9), setattr(ax(o), "maximum_scale", None), setattr(ax(o), "minimum_scale", None))),
            (nm + ".format.line", lambda o, ax=ax: setattr(ax(o).format.line, "width", _pt(1))),
            (nm + ".format.fill", lambda o, ax=ax: ax(o).format.fill.solid()),
        ]
    ops += [
        ("val.major_unit", lambda o: setattr(val(o), "major_unit", 2.5)),
        ("val.minor_unit", lambda o: setattr(val(o), "minor_unit", 0.5)),
        ("val.units=None", lambda o: (setattr(val(o), "major_unit", 2), setattr(val(o), "major_unit", None), setattr(val(o), "minor_unit", None))),
        ("val.crosses", lambda o: setattr(val(o), "crosses", c.XL_AXIS_CROSSES.MAXIMUM)),
        ("val.crosses_at", lambda o: setattr(val(o), "crosses_at", 1.5)),
        ("val.crosses_at=None", lambda o: (setattr(val(o), "crosses_at", 1.5), setattr(val(o), "crosses_at", None))),
        ("cat.crosses", lambda o: setattr(cat(o), "crosses", c.XL_AXIS_CROSSES.MINIMUM)),
    ]
    return ops


def _bar_ops():
    def plot(o):
        return o.chart.plots[0]

    def ser(o):
        return o.chart.plots[0].series[0]
    return [
        ("plot.gap_width", lambda o: setattr(plot(o), "gap_width", 300)),
        ("plot.overlap", lambda o: setattr(plot(o), "overlap", -20)),
        ("plot.overlap=0", lambda o: setattr(plot(o), "overlap", 0)),
        ("ser.invert_if_negative", lambda o: setattr(ser(o), "invert_if_negative", False)),
    ]


def _marker_ops():
    c, d, s, t, l = _E()

    def ser(o):
        return o.chart.plots[0].series[0]
    return [
        ("ser.marker.style", lambda o: setattr(ser(o).marker, "style", c.XL_MARKER_STYLE.CIRCLE)),
        ("ser.marker.size", lambda o: setattr(ser(o).marker, "size", 12)),
        ("ser.marker.none", lambda o: (setattr(ser(o).marker, "style", c.XL_MARKER_STYLE.CIRCLE), setattr(ser(o).marker, "style", None), setattr(ser(o).marker, "size", None))),
        ("ser.marker.format", lambda o: ser(o).marker.format.fill.solid()),
        ("ser.smooth", lambda o: setattr(ser(o), "smooth", True)),
        ("ser.smooth=False", lambda o: setattr(ser(o), "smooth", False)),
    ]


def _bubble_ops():
    def plot(o):
        return o.chart.plots[0]
    return [("plot.bubble_scale", lambda o: setattr(plot(o), "bubble_scale", 250)),
            ("plot.bubble_scale=None", lambda o: (setattr(plot(o), "bubble_scale", 50), setattr(plot(o), "bubble_scale", None)))]


def chart_ops_for(chart_type_name):
    n = chart_type_name
    ops = list(_chart_ops())
    if not (n.startswith("PIE") or n.startswith("DOUGHNUT") or "PIE" in n):
        ops += _axis_ops()
    if n.startswith("BAR") or n.startswith("COLUMN") or n.startswith("THREE_D_BAR") or n.startswith("THREE_D_COLUMN") or n.split("_")[0] in ("CONE", "CYLINDER", "PYRAMID"):
        ops += _bar_ops()
    if n.startswith("LINE") or n.startswith("XY") or n.startswith("RADAR"):
        ops += _marker_ops()
    if n.startswith("BUBBLE"):
        ops += _bubble_ops()
    return ops


FORMAT = {
    "autoshape": _autoshape_ops,
    "picture": _picture_ops,
    "connector": lambda: _connector_ops() + _connect_ops(),
    "group": _group_ops,
    "table": _table_ops,
    "frame": _common,
}


def format_ops(kind, creator_name=""):
    if kind == "chart":
        return chart_ops_for(creator_name.split(":", 1)[1] if ":" in creator_name else "BAR_CLUSTERED")
    return FORMAT[kind]()


# slide-level operations (no creator needed)
def slide_ops():
    c, d, s, t, l = _E()
    return [
        ("bg.solid", lambda sl: (sl.background.fill.solid(), setattr(sl.background.fill.fore_color, "rgb", _rgb()))),
        ("bg.gradient", lambda sl: sl.background.fill.gradient()),
        ("bg.patterned", lambda sl: sl.background.fill.patterned()),
        ("bg.background", lambda sl: sl.background.fill.background()),
        # backgrounds that start as a theme reference (p:bgRef): the default template's master, most corpus masters
        ("master.bg.solid", lambda sl: sl.slide_layout.slide_master.background.fill.solid()),
        ("master.bg.gradient", lambda sl: sl.slide_layout.slide_master.background.fill.gradient()),
        ("master.bg.background", lambda sl: sl.slide_layout.slide_master.background.fill.background()),
        ("layout.bg.solid", lambda sl: (sl.slide_layout.background.fill.solid(), setattr(sl.slide_layout.background.fill.fore_color, "rgb", _rgb()))),
        ("layout.bg.patterned", lambda sl: sl.slide_layout.background.fill.patterned()),
        ("master.name", lambda sl: setattr(sl.slide_layout.slide_master, "name", "M")),
        ("layout.name", lambda sl: setattr(sl.slide_layout, "name", "L & <1>")),
        ("layout.ph.geometry", lambda sl: [(setattr(p, "left", 0), setattr(p, "top", 0)) for p in sl.slide_layout.placeholders][:0]),
        ("master.ph.text", lambda sl: [setattr(p.text_frame, "text", "m") for p in sl.slide_layout.slide_master.placeholders if p.has_text_frame][:0]),
        ("slide.name", lambda sl: setattr(sl, "name", "S & <1>")),
        ("slide.name=None", lambda sl: (setattr(sl, "name", "x"), setattr(sl, "name", None))),
        ("notes.text", lambda sl: setattr(sl.notes_slide.notes_text_frame, "text", "n\nm")),
        ("notes.placeholder", lambda sl: [setattr(p, "left", 0) for p in sl.notes_slide.placeholders][:0]),
        ("title.text", lambda sl: setattr(sl.shapes.title, "text", "Title") if sl.shapes.title is not None else None),
        ("ph.geometry", lambda sl: [(setattr(p, "left", 1), setattr(p, "width", 2)) for p in sl.placeholders][:0]),
        ("ph.text", lambda sl: [setattr(p.text_frame, "text", "x\ny") for p in sl.placeholders if p.has_text_frame][:0]),
        ("ph.insert_picture", lambda sl: [p.insert_picture(io.BytesIO(prs_ops.img("A"))) for p in sl.placeholders if hasattr(p, "insert_picture")][:0]),
        ("ph.insert_table", lambda sl: [p.insert_table(2, 2) for p in sl.placeholders if hasattr(p, "insert_table")][:0]),
        ("ph.insert_chart", lambda sl: [p.insert_chart(c.XL_CHART_TYPE.PIE, prs_ops._cat_data()) for p in sl.placeholders if hasattr(p, "insert_chart")][:0]),
    ]


# documented rejections: (name, kind, fn, exception types)
def reject_ops(kind):
    c, d, s, t, l = _E()
    if kind == "autoshape":
        return [
            ("p.level=9", lambda o: setattr(_p(o), "level", 9), (ValueError,)),
            ("p.level=-1", lambda o: setattr(_p(o), "level", -1), (ValueError,)),
            ("left='a'", lambda o: setattr(o, "left", "a"), (TypeError, ValueError)),
            ("rotation='x'", lambda o: setattr(o, "rotation", "x"), (TypeError, ValueError)),
            ("font.color.brightness=2", lambda o: (setattr(_r(o).font.color, "rgb", _rgb()), setattr(_r(o).font.color, "brightness", 2.0)), (ValueError,)),
            ("font.color.rgb='red'", lambda o: setattr(_r(o).font.color, "rgb", "red"), (ValueError, TypeError)),
            ("fill.fore_color-no-fill", lambda o: (o.fill.background(), o.fill.fore_color), (TypeError,)),
            ("adjustments[0]='x'", lambda o: o.adjustments.__setitem__(0, "x"), (ValueError, TypeError, IndexError)),
        ]
    if kind == "table":
        return [
            ("merge-overlap", lambda o: (o.table.cell(0, 0).merge(o.table.cell(1, 1)), o.table.cell(1, 1).merge(o.table.cell(2, 2))), (ValueError,)),
            ("split-non-origin", lambda o: o.table.cell(2, 2).split(), (ValueError,)),
            ("cell-index", lambda o: o.table.cell(9, 9), (IndexError,)),
        ]
    if kind == "chart":
        return [
            ("gap_width=501", lambda o: setattr(o.chart.plots[0], "gap_width", 501) if hasattr(type(o.chart.plots[0]), "gap_width") else (_ for _ in ()).throw(ValueError()), (ValueError,)),
            ("chart_style=49", lambda o: setattr(o.chart, "chart_style", 49), (ValueError,)),
            # "points[idx]: IndexError if idx is out of range" (negative indices are out of range for this sequence)
            ("points[-1].format", lambda o: o.chart.plots[0].series[0].points[-1].format, (IndexError,)),
            ("points[len].marker", lambda o: o.chart.plots[0].series[0].points[len(o.chart.plots[0].series[0].points)].marker, (IndexError,)),
            ("major_unit=-1", lambda o: setattr(o.chart.value_axis, "major_unit", -1), (ValueError,)),
        ]
    return []
