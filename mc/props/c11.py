"""C11 — accepted attribute values are exactly those the schema can represent.

Bounded-exhaustive enumeration (engine E2), three parts sharing one case evaluator:

A. every attribute declaration of every registered element class (pptx.oxml registry and
   pptx.opc.oxml), discovered through the property closures, mapped to its candidate XSD simple
   type(s) through the XSD index; each value of the class's value alphabet is assigned through the
   element property on (i) a bare element and (ii) an element on which the attribute is already
   present; each schema-valid lexical form of the attribute's type is parsed into an element and read
   through the property.
B. every `ST_*` / `Xsd*` class of pptx/oxml/simpletypes.py on its own (`to_xml`, `from_xml`).
C. every XML-mapped enumeration used as an attribute's simple type (`to_xml` of every member and of
   nearby non-member ints, `from_xml` of every token of the schema enumeration).

Oracle (libxml2 decides lexical validity; python-pptx is not consulted):
* accepted  => the written string is valid for at least one candidate XSD type, and reading it back
               returns the value written to within (strictly less than) one quantum of the type;
* rejected  => TypeError or ValueError, and the element is c14n-identical to what it was;
* reading   => a lexical form that is valid for ALL candidate XSD types of the attribute is read
               without an exception (only forms admitted by the type of an attribute the library
               really declares with that class are demanded: the fairness rule of the property).

* equivalent forms => two lexical forms that the standard defines as the same value read to the same Python
               value within the quantum (differential, no hand-written expected value): 'N%' vs N*1000
               (DrawingML percentage unions) or vs N (chart percentage unions), universal measures vs EMU
               (coordinate unions), 'true'/'false' vs '1'/'0', '+5' / '005' vs '5', double notations;
* history   => the verdict (accepted + written form | rejected) on a value does not depend on what was
               written before it: every class's alphabet (which holds each integer bound together with its
               equal float, Fraction and, for 0/1, bool twins) is walked forwards in one pristine forked
               process and backwards in another, and the two verdict maps must be identical. The parent
               process never exercises the library itself; replays also run in forked children.

* rejects-valid => a value inside the class's OWN enforced range (numeric constants of its most derived
               validate()) whose reference lexical form is valid for ALL its XSD types may not be rejected
               (differential against nothing but the schema and the class's own constants);
* hang      => every evaluation runs in a forked child that publishes the case it is about to evaluate in a
               shared mmap; the parent is a watchdog: more than 3 s of CPU (or 20 s wall) inside ONE
               evaluation, or a child older than 60 s (quick) / 600 s (thorough), gets the child SIGKILLed,
               the case reported as `C11|hang|*|<Class>|<python type | read:<lexical alternative>>`, and the job
               re-run with that python type / alternative skipped for that class (cases counted as
               not_evaluated, run no longer `exhaustive`). replay() re-runs the single case under the same limits.

Signatures (the last field names the failure, not the witness value, so that one root cause gives one
signature in both tiers; the first witness in alphabet order and the other failing values are in `what`)
    C11|<rule>|*|<class>|<key>              class-level: fails for every XSD type the class is used with
    C11|<rule>|@<xsd type(s)>|<class>|<key> attribute-level: all declarations that use <class> for an attribute
                                            of that XSD type (the affected tag@attr are listed in `what`)
    C11|enum-unreadable|<Enum>|<token>      schema enumeration token the library enum cannot read
(for the read-back of an enum <class> is Enum.MEMBER: a different member failing is a different signature)
rule in accepted-invalid, readback, reject-type, reject-mutated, unreadable, read-differs, history,
rejects-valid (<key> = the value), hang; <key> is "->'<written form>'"
(accepted-invalid; readback of enums), "str", "number", "<py type>-><exception>" (reject-type) or the lexical
alternative that cannot be read (integer, percent, percent-decimal, measure-<unit>, boolean-word, double, hex,
empty, token, or a literal enumeration token). An attribute-level failure whose (rule, class, key) is already
reported at class level is counted (`folded_into_class_level`) but not reported again.

Deviations from DESIGN.md section 4/C11: (1) the behavioural fallback for attribute discovery is
replaced by a floor (HarnessError when fewer declarations/classes/enums are found than on the pinned
tree); (2) the class-level/attribute-level folding and the grouping of witnesses per signature described above; (3) whitespace-padded lexical forms and
integers beyond +-2**64 are not in the alphabets.
"""

from __future__ import annotations

import importlib
import inspect
import math
import mmap
import multiprocessing as mp
import numbers
import os
import pkgutil
import re
import signal
import struct
import time
import traceback
from decimal import Decimal
from fractions import Fraction

from lxml import etree

from multiprocessing.connection import wait as _mpwait

from mc.core.parallel import ncpu
from mc.core.run import HarnessError
from mc.oracles import xsd as X

LEVEL = "exploration"
RULE = ("every (simple-type class | XML-mapped enum | element attribute declaration) x every value of a "
        "generated alphabet: each numeric bound b of the XSD type(s) (facets, union members, builtin "
        "limits, integers inside patterns) and each numeric constant of the class's validate/convert code, "
        "b-R..b+R; the same in python units for scaled types with fractional quanta and 1-2 ulp neighbours "
        "of every rounding threshold; int-valued and half-integer floats; 0,+-1,int32/uint32/int64 limits; "
        "True/False; None/str/bytes/list/tuple/object()/int subclasses (Emu, an IntEnum with its own "
        "__str__); a string pool (pattern near-misses, enumeration tokens and their near-misses); for "
        "enums every member and every adjacent non-member int. Reading: every candidate lexical form "
        "(integers at the bounds, 'N%', decimals with %, universal measures in 6 units, boolean and double "
        "literals, hex colours, free tokens, every enumeration token) that libxml2 accepts for the XSD "
        "type. Non-trivial = the implementation ACCEPTED the value and wrote a string that was validated "
        "against the XSD type and read back (distinct by construction: one per (target, value, state)), "
        "plus every lexical form read. Read histories: for every ordered pair (A, B) of XML-mapped enumerations, "
        "every token of B is read after every token of A was read in the same pristine process (non-trivial = the "
        "token belongs to both).")
ASSUMPTIONS = [
    "libxml2 (lxml.etree.XMLSchema) compiled from the ISO/IEC 29500-4 transitional and 29500-2 OPC XSDs in "
    "/repo/spec is the authority on lexical validity; generated probe elements expose each simple type",
    "non-finite floats (inf, nan) are outside the property's quantifier and are not in the alphabet",
    "quantum table (python units per lexical unit) is part of the reference model: angles 1/60000 degree, "
    "percentages 1/100000, font scale 1/1000, text spacing points 127 EMU (one centipoint); all other types exact",
    "angles are compared modulo 360 degrees; hex colours are compared case-insensitively (value space of hexBinary)",
    "read-back tolerance is strictly less than one quantum (rounding or truncation both allowed)",
    "a lexical form is demanded readable only if valid for ALL candidate XSD types of a declared attribute "
    "(overloaded tags: weak rule); a written form must be valid for AT LEAST ONE candidate type",
    "whitespace-padded lexical forms and integers beyond +-2**64 are not explored",
    "an attribute removed by the setter (value equals the declared default) is checked by read-back only",
    "equivalences used by the differential reading oracle are the standard's: DrawingML percentages are in 1000ths "
    "of a percent ('90%' == '90000'), chart percentages are whole percents ('150%' == '150'), 1 in = 914400 EMU, "
    "1 pt = 12700, 1 cm = 360000, 1 mm = 36000, 1 pc = 1 pi = 152400; applied only where libxml2 accepts both forms "
    "for all candidate XSD types of the attribute",
    "hang = more than 3 s CPU (or 20 s wall) inside a single evaluation, measured by the parent from /proc/<pid>/stat; "
    "a normal evaluation takes well under a millisecond",
    "rejects-valid uses the numeric constants of the class's own validate() as its documented range (discovery through "
    "co_consts; classes without two such constants, e.g. those delegating to another class, are not covered)",
    "history check is per simple-type class (two pristine forked processes, forward and backward alphabet walk); "
    "attribute-level history and cross-class history are not explored",
]

XS = X.XS
NS_CT = "http://schemas.openxmlformats.org/package/2006/content-types"
NS_PR = "http://schemas.openxmlformats.org/package/2006/relationships"
NAME_NS = (X.NS_A, X.NS_P, X.NS_C, X.NS_S, X.NS_R, NS_CT, NS_PR)

# floors just under what is measured on the pinned tree (159 / 52 / 16 distinct / 15)
FLOOR_DECLS, FLOOR_CLASSES, FLOOR_ENUMS, FLOOR_ENUMS_USED = 150, 50, 15, 14

BUILTIN_LIMITS = {
    "byte": (-2 ** 7, 2 ** 7 - 1), "short": (-2 ** 15, 2 ** 15 - 1), "int": (-2 ** 31, 2 ** 31 - 1),
    "long": (-2 ** 63, 2 ** 63 - 1), "unsignedByte": (0, 2 ** 8 - 1), "unsignedShort": (0, 2 ** 16 - 1),
    "unsignedInt": (0, 2 ** 32 - 1), "unsignedLong": (0, 2 ** 64 - 1), "nonNegativeInteger": (0,),
    "positiveInteger": (1,),
}
BUILTINS = ["string", "normalizedString", "token", "anyURI", "ID", "NCName", "boolean", "double", "float",
            "decimal", "integer", "hexBinary", "dateTime"] + sorted(BUILTIN_LIMITS)
XSD_BUILTIN_OF = {"XsdAnyUri": "anyURI", "XsdBoolean": "boolean", "XsdDouble": "double", "XsdId": "ID",
                  "XsdInt": "int", "XsdLong": "long", "XsdString": "string", "XsdToken": "token",
                  "XsdUnsignedByte": "unsignedByte", "XsdUnsignedInt": "unsignedInt",
                  "XsdUnsignedShort": "unsignedShort"}

# lexical units per python unit (reference model's knowledge of the public API's units)
SCALE = {
    "ST_Angle": 60000.0, "ST_PositiveFixedAngle": 60000.0,
    "ST_Percentage": 100000.0, "ST_PositiveFixedPercentage": 100000.0,
    "ST_TextFontScalePercentOrPercentString": 1000.0,
    "ST_TextSpacingPercentOrPercentString": 100000.0,
    "ST_TextSpacingPoint": 1.0 / 127,
}
ANGLES = ("ST_Angle", "ST_PositiveFixedAngle")
CASELESS = ("ST_HexColorRGB",)

STD_INTS = (0, 1, -1, -2 ** 31, 2 ** 31 - 1, 2 ** 32 - 1, -2 ** 63, 2 ** 63 - 1, 2 ** 64)
UNITS = ("mm", "cm", "in", "pt", "pc", "pi")
SENTINEL = "é~ z{"
FREE_POOL = ["", "wd2", "en-029"]
# classes whose validate() states no numeric range of its own but hands the range check to another class: for these
# the schema range is the reference of the rejects-valid rule (a wrong delegate narrows the accepted range silently)
DELEGATING_RANGE_CLASSES = {"ST_Coordinate": (-27273042329600, 27273042316900), "ST_Coordinate32": (-2147483648, 2147483647)}

HEX_POOL = ["FFFFFF", "ffffff", "00ff00", "0A1B2C"]
LEX_EXTRA = ["application/xml", "image/png", 'text/xml; charset="utf-8"',
             "application/vnd.openxmlformats-officedocument.presentationml.slide+xml",
             "xml", "jpeg", "rId1", "_x", "/ppt/slides/slide1.xml", "../slideLayouts/slideLayout1.xml",
             "http://example.com/a", "External", "Internal"]
STRING_POOL = [
    "", "1", "a", "a b", "wd2", "en-029", "Arial",
    "FFFFFF", "ffffff", "00ff00", "FFFFF", "FFFFFFF", "GGGGGG", "+12345", "-12345", "0x1234", " 12345",
    "1_2345", "12 345",
    # digits that are decimal digits to Python (str.isdigit, \\d, int()) but not to XML Schema: full-width, Arabic-Indic
    "\uff11\uff12\uff13\uff14\uff15\uff16", "AB\uff10\uff10CD", "\u0661\u0662\u0663\u0664\u0665\u0666", "\uff11",
    "application/xml", "image/png", "image", "a b/c", "xml", ".xml", "x;y",
    "rId1", "1rId", "r:Id", "_x",
    "/ppt/slides/slide1.xml", "../x.xml", "http://example.com/a", "http://example.com/a b", "%zz",
]


# ---- schema side -----------------------------------------------------------------------------------

class Schemas:
    def __init__(self):
        self.idx = X.Index()
        self.idx_opc = X.Index(X.OPC_XSD_DIR)
        self.ss = X.SchemaSet.get(False)
        self.opc = {}
        for fn in ("opc-contentTypes.xsd", "opc-relationships.xsd"):
            doc = etree.parse(os.path.join(X.OPC_XSD_DIR, fn))
            X._add_probes(doc)
            self.opc[doc.getroot().get("targetNamespace")] = etree.XMLSchema(doc)
        src = ['<xs:schema xmlns:xs="%s" elementFormDefault="qualified">' % XS]
        src += ['<xs:element name="b_%s" type="xs:%s"/>' % (n, n) for n in BUILTINS]
        src.append("</xs:schema>")
        self.builtin = etree.XMLSchema(etree.fromstring("".join(src)))
        self._ok = {}
        self._bounds = {}
        self._pool = {}

    # -- lookups
    def tag_ctypes(self, clark):
        return sorted(self.idx.tag_types.get(clark, set()) | self.idx_opc.tag_types.get(clark, set()),
                      key=lambda t: (t[0] or "", t[1] or ""))

    def ct_attrs(self, ct):
        return self.idx.attrs(ct) if ct in self.idx.ctypes else self.idx_opc.attrs(ct)

    def stnode(self, t):
        n = self.idx.stypes.get(t)
        return n if n is not None else self.idx_opc.stypes.get(t)

    def named(self, local):
        """Simple types called `local` in the namespaces python-pptx deals with."""
        out = []
        for ns in NAME_NS:
            if self.stnode((ns, local)) is not None:
                out.append((ns, local))
        return out

    # -- libxml2 decides
    def ok(self, t, text):
        key = (t, text)
        r = self._ok.get(key)
        if r is None:
            ns, name = t
            if ns == XS or ns == "xsd":
                if name in BUILTINS:
                    el = etree.Element("b_" + name)
                    el.text = text
                    r = bool(self.builtin.validate(etree.ElementTree(el)))
                else:
                    r = bool(X._builtin_ok(name, text))
            elif ns in self.opc:
                el = etree.Element("{%s}__%s" % (ns, name))
                el.text = text
                r = bool(self.opc[ns].validate(etree.ElementTree(el)))
            else:
                r = bool(self.ss.value_ok(t, text))
            self._ok[key] = r
        return r

    # -- structure
    def _resolve(self, node, q):
        return self.idx._resolve(node, q)

    def members(self, t):
        node = self.stnode(t)
        if node is None:
            return None
        for u in node.iter(X.X + "union"):
            if any(isinstance(c.tag, str) and c.tag == X.X + "simpleType" for c in u):
                return None  # anonymous member types: treat the union as opaque
            ms = [self._resolve(u, m) for m in (u.get("memberTypes") or "").split()]
            return ms or None
        return None

    def flat(self, t, _seen=None):
        """t, its union members and restriction bases, transitively."""
        seen = _seen if _seen is not None else set()
        if t in seen:
            return seen
        seen.add(t)
        if t[0] == XS:
            return seen
        node = self.stnode(t)
        if node is None:
            return seen
        for n in node.iter():
            if not isinstance(n.tag, str):
                continue
            loc = etree.QName(n.tag).localname
            if loc == "restriction" and n.get("base"):
                self.flat(self._resolve(n, n.get("base")), seen)
            elif loc == "union":
                for m in (n.get("memberTypes") or "").split():
                    self.flat(self._resolve(n, m), seen)
        return seen

    def has_percent_pattern(self, t):
        node = self.stnode(t)
        if node is None:
            return False
        return any("%" in (p.get("value") or "") for p in node.iter(X.X + "pattern"))

    def bounds(self, t):
        """Every integer that plays a role in the definition of t (facets, builtin limits, pattern digits)."""
        if t in self._bounds:
            return self._bounds[t]
        acc, seen = set(), set()

        def walk(tt):
            if tt in seen:
                return
            seen.add(tt)
            if tt[0] == XS:
                acc.update(BUILTIN_LIMITS.get(tt[1], ()))
                return
            node = self.stnode(tt)
            if node is None:
                return
            for n in node.iter():
                if not isinstance(n.tag, str):
                    continue
                loc = etree.QName(n.tag).localname
                if loc == "restriction" and n.get("base"):
                    walk(self._resolve(n, n.get("base")))
                elif loc == "union":
                    for m in (n.get("memberTypes") or "").split():
                        walk(self._resolve(n, m))
                elif loc in ("minInclusive", "maxInclusive", "minExclusive", "maxExclusive", "length",
                             "minLength", "maxLength"):
                    try:
                        d = Decimal(n.get("value"))
                    except Exception:
                        continue
                    acc.add(int(d))
                elif loc == "pattern":
                    for m in re.findall(r"\d+", n.get("value") or ""):
                        if len(m) <= 9:
                            acc.add(int(m))
        walk(t)
        self._bounds[t] = frozenset(acc)
        return self._bounds[t]

    def enum_tokens(self, t):
        if t[0] == XS:
            return []
        idx = self.idx if t in self.idx.stypes else self.idx_opc
        return list(idx.enumeration(t) or [])

    def is_free(self, t):
        return self.ok(t, SENTINEL)

    def pool(self, t, radius):
        """Candidate lexical forms that libxml2 accepts for t (sorted, unique)."""
        key = (t, radius)
        if key in self._pool:
            return self._pool[key]
        ms = self.members(t)
        cands = set()
        if ms:
            for m in ms:
                cands.update(self.pool(m, radius))
        elif self.is_free(t):
            cands.update(FREE_POOL)
            cands.update(self.enum_tokens(t))
        else:
            ints = set()
            for b in set(self.bounds(t)) | set(STD_INTS):
                for d in range(-radius, radius + 1):
                    ints.add(b + d)
            if radius > 1:
                ints.update(range(-1100, 1101))
            cands.update(str(i) for i in ints)
            cands.update(["+1", "+0", "-0", "007", "0050"])
            cands.update("%d%%" % i for i in ints if abs(i) <= 100001)
            cands.update(["12.5%", "-12.5%", "0.5%", "100.00%", "99.99%", "050%", "0050%", "1.25%", "50%", "100%", "-100%",
                          "150%", "300%", "500%", "1000%"])
            cands.update(q + u for u in UNITS for q in ("0", "1", "1.5", "-1.5", "100", "0.05"))
            cands.update(["true", "false", "True", "TRUE"])
            cands.update(["1.5", "-1.5", "1e3", "1E-3", "1.0e+16", ".5", "5.", "INF", "-INF", "NaN", "0.0"])
            cands.update(HEX_POOL)
            cands.update(FREE_POOL)
            cands.update(LEX_EXTRA)
            cands.update(self.enum_tokens(t))
        out = sorted((s for s in cands if self.ok(t, s)), key=lambda s: (s == "", s))
        self._pool[key] = out
        return out


# ---- implementation discovery ---------------------------------------------------------------------

class Decl:
    __slots__ = ("pfx", "uri", "local", "prop", "attr_name", "clark", "st", "st_name", "required", "default",
                 "types", "cands")

    @property
    def tagname(self):
        return "%s:%s" % (self.pfx, self.local)

    @property
    def key(self):
        return "%s@%s" % (self.tagname, self.attr_name)


def _attr_objects(cls):
    from pptx.oxml.xmlchemy import BaseAttribute
    seen, out = set(), []
    for klass in cls.__mro__:
        for name, v in vars(klass).items():
            if name in seen:
                continue
            if isinstance(v, property) and v.fget is not None and v.fget.__closure__:
                for c in v.fget.__closure__:
                    try:
                        o = c.cell_contents
                    except ValueError:
                        continue
                    if isinstance(o, BaseAttribute):
                        seen.add(name)
                        out.append((name, o))
                        break
    return out


def discover_decls(S):
    import pptx.opc.oxml  # noqa: F401  (registers ct:/pr: classes)
    import pptx.oxml  # noqa: F401
    from pptx.oxml import element_class_lookup
    from pptx.oxml.ns import _nsmap
    from pptx.oxml.xmlchemy import RequiredAttribute
    decls, no_type = [], []
    for pfx in sorted(_nsmap):
        uri = _nsmap[pfx]
        ns = element_class_lookup.get_namespace(uri)
        items = []
        for local, cls in ns.items():
            if local is None:
                continue
            items.append((local.decode() if isinstance(local, bytes) else local, cls))
        for local, cls in sorted(items, key=lambda x: x[0]):
            clark_tag = "{%s}%s" % (uri, local)
            cts = S.tag_ctypes(clark_tag)
            for prop, o in sorted(_attr_objects(cls), key=lambda x: x[0]):
                d = Decl()
                d.pfx, d.uri, d.local, d.prop = pfx, uri, local, prop
                d.attr_name = o._attr_name
                if ":" in o._attr_name:
                    p2, l2 = o._attr_name.split(":")
                    d.clark = "{%s}%s" % (_nsmap[p2], l2)
                else:
                    d.clark = o._attr_name
                d.st = o._simple_type
                d.st_name = o._simple_type.__name__
                d.required = isinstance(o, RequiredAttribute)
                d.default = getattr(o, "_default", None)
                cands = []
                for ct in cts:
                    a = S.ct_attrs(ct).get(d.clark)
                    if a is not None and a[0] is not None:
                        cands.append((ct, a[0], a[1], a[2]))
                d.cands = cands
                d.types = sorted({c[1] for c in cands}, key=lambda t: (t[0] or "", t[1] or ""))
                if not d.types:
                    no_type.append(d.key)
                    continue
                decls.append(d)
    return decls, no_type


def discover_classes():
    import pptx.oxml.simpletypes as st
    out = {}
    for name, c in inspect.getmembers(st, inspect.isclass):
        if c.__module__ == st.__name__ and (name.startswith("ST_") or name.startswith("Xsd")):
            out[name] = c
    return out


def discover_enums():
    import pptx.enum
    from pptx.enum.base import BaseXmlEnum
    out = {}
    for m in sorted(pkgutil.iter_modules(pptx.enum.__path__), key=lambda m: m.name):
        mod = importlib.import_module("pptx.enum." + m.name)
        for _, c in inspect.getmembers(mod, inspect.isclass):
            if issubclass(c, BaseXmlEnum) and c is not BaseXmlEnum:
                out[c.__name__] = c
    return out


def _is_enum(K):
    from pptx.enum.base import BaseXmlEnum
    return isinstance(K, type) and issubclass(K, BaseXmlEnum)


def _writable(K):
    if _is_enum(K):
        return True
    if not (hasattr(K, "validate") and hasattr(K, "convert_to_xml")):
        return False
    from pptx.oxml.simpletypes import BaseStringEnumerationType
    if issubclass(K, BaseStringEnumerationType) and not hasattr(K, "_members"):
        return False
    return True


def _code_consts(K):
    out = set()
    for klass in K.__mro__:
        if klass is object:
            continue
        for fname in ("validate", "convert_to_xml"):
            f = vars(klass).get(fname)
            f = getattr(f, "__func__", f)
            code = getattr(f, "__code__", None)
            if code is None:
                continue
            for c in code.co_consts:
                if isinstance(c, (int, float)) and not isinstance(c, bool) and math.isfinite(c):
                    out.add(c)
    return out


# ---- value alphabet ---------------------------------------------------------------------------------

_ENUMS = None


def mk(spec):
    t = spec["t"]
    if t == "int":
        return int(spec["v"])
    if t == "float":
        return float.fromhex(spec["v"])
    if t == "bool":
        return bool(spec["v"])
    if t == "none":
        return None
    if t == "str":
        return spec["v"]
    if t == "bytes":
        return spec["v"].encode("latin-1")
    if t == "list":
        return [1]
    if t == "tuple":
        return (1,)
    if t == "object":
        return object()
    if t == "fraction":
        return Fraction(int(spec["v"]))
    if t == "emu":
        from pptx.util import Emu
        return Emu(int(spec["v"]))
    if t == "intenum":
        from pptx.enum.text import PP_ALIGN
        return PP_ALIGN.CENTER
    if t == "member":
        global _ENUMS
        if _ENUMS is None:
            _ENUMS = discover_enums()
        return getattr(_ENUMS[spec["c"]], spec["n"])
    raise ValueError(t)


def _i(v):
    return (repr(v), {"t": "int", "v": str(v)})


def _f(v):
    return (repr(v), {"t": "float", "v": float(v).hex()})


def _ulps(x, n):
    out = [x]
    up = dn = x
    for _ in range(n):
        up = math.nextafter(up, math.inf)
        dn = math.nextafter(dn, -math.inf)
        out += [up, dn]
    return out


def alphabet(S, K, types, thorough):
    """Ordered list of (label, spec), unique by label: a pure function of (class, XSD types, tier)."""
    name = K.__name__
    R = 3 if thorough else 1
    NU = 4 if thorough else 2
    scale = SCALE.get(name, 1.0)
    LB = set(STD_INTS)
    for t in types:
        LB |= set(S.bounds(t))
    consts = _code_consts(K) if not _is_enum(K) else set()
    vals = []
    ints = set()
    for b in LB | {int(c) for c in consts if float(c).is_integer()}:
        for d in range(-R, R + 1):
            ints.add(b + d)
    if thorough:
        ints.update(range(-1100, 1101))
    for i in sorted(ints):
        vals.append(_i(i))
    floats = set()
    for b in LB:
        if abs(b) < 2 ** 53:
            floats.add(float(b))
            floats.add(b + 0.5)
            floats.add(b - 0.5)
    for c in consts:
        c = float(c)
        for x in _ulps(c, NU):
            floats.add(x)
        floats.add(c + 1.0 / scale if scale >= 1 else c + 1.0)
        floats.add(c - 1.0 / scale if scale >= 1 else c - 1.0)
    if scale > 1:
        steps = [k / 4.0 for k in range(-4 * R, 4 * R + 1)] if thorough else [-1.0, -0.5, 0.0, 0.5, 1.0]
        for b in LB:
            if abs(b) > 2 ** 40:
                continue
            for d in steps:
                for x in _ulps((b + d) / scale, NU):
                    floats.add(x)
                floats.add((b + d) * (1.0 / scale))
        # a few ordinary values and whole turns for angle-like types
        for x in (0.1, 0.25, 1.0 / 3, 12.345, 42.42, -42.42, 99.999, 359.9999999, 359.999999, 360.0, 720.0,
                  -360.0, -0.0000001):
            floats.add(x)
    elif scale < 1:
        per = int(round(1.0 / scale))
        for b in LB:
            if abs(b) > 2 ** 40:
                continue
            for d in range(-R, R + 1):
                for k in (-1, 0, 1, per // 2, per // 2 + 1, per - 1):
                    vals.append(_i((b + d) * per + k))
    for x in sorted(floats):
        if math.isfinite(x):
            vals.append(_f(x))
    vals.append(("True", {"t": "bool", "v": True}))
    vals.append(("False", {"t": "bool", "v": False}))
    # equal-but-differently-typed twins of the integers (history check: the verdict on a value must not depend
    # on an equal value of another type having been written before it)
    for b in sorted(LB | {int(c) for c in consts if float(c).is_integer()}):
        if abs(b) < 2 ** 53:
            vals.append(_f(float(b)))
            vals.append(("Fraction(%d)" % b, {"t": "fraction", "v": str(b)}))
    vals.append(("None", {"t": "none"}))
    strs = list(STRING_POOL)
    toks = []
    for t in types:
        toks += S.enum_tokens(t)
    toks += [m for m in getattr(K, "_members", ()) if isinstance(m, str)]
    for tok in sorted(set(toks)):
        strs += [tok, tok + "x", tok.upper(), tok.capitalize(), tok.lower()]
    for s in strs:
        vals.append((repr(s), {"t": "str", "v": s}))
    vals.append(("b'1'", {"t": "bytes", "v": "1"}))
    vals.append(("[1]", {"t": "list"}))
    vals.append(("(1,)", {"t": "tuple"}))
    vals.append(("object()", {"t": "object"}))
    vals.append(("Emu(914400)", {"t": "emu", "v": "914400"}))
    vals.append(("Emu(1)", {"t": "emu", "v": "1"}))
    vals.append(("PP_ALIGN.CENTER", {"t": "intenum"}))
    if _is_enum(K):
        mvals = set()
        for m in K:
            vals.append(("%s.%s" % (name, m.name), {"t": "member", "c": name, "n": m.name}))
            mvals.add(int(m))
        for v in sorted(mvals):
            for w in (v - 1, v + 1):
                if w not in mvals:
                    vals.append(_i(w))
            vals.append(_i(v))
        if mvals:
            vals.append(_f(float(min(mvals))))
            vals.append(_f(min(mvals) + 0.5))
    out, seen = [], set()
    for label, spec in vals:
        if label not in seen:
            seen.add(label)
            out.append((label, spec))
    return out


# ---- reference comparison -----------------------------------------------------------------------------

def same(kname, v, r):
    """Is the value read back `r` the value written `v`, to within (strictly less than) one quantum?"""
    if isinstance(v, str) or isinstance(r, str):
        if not (isinstance(v, str) and isinstance(r, str)):
            return False
        return v == r or (kname in CASELESS and v.upper() == r.upper())
    if v is None or r is None:
        return v is r
    if not isinstance(v, (int, float)) or not isinstance(r, (int, float)):
        try:
            return bool(v == r)
        except Exception:
            return False
    scale = SCALE.get(kname, 1.0)
    if kname in ANGLES:
        d = abs(float(r) - float(v)) % 360.0
        d = min(d, 360.0 - d)
        return d < (1.0 / scale) * (1 + 1e-9) + 1e-12 * max(1.0, abs(float(v)))
    if isinstance(v, numbers.Integral) and isinstance(r, numbers.Integral):
        if scale == 1.0:
            return int(v) == int(r)
        return abs(int(r) - int(v)) < 1.0 / scale
    q = 0.0 if scale == 1.0 else (1.0 / scale) * (1 + 1e-9)
    diff = abs(r - v)
    if q == 0.0:
        return diff <= 2.0 ** -52 * max(abs(v), abs(r))
    return diff < q + 2.0 ** -50 * max(abs(v), abs(r))


def _short(o):
    s = repr(o)
    return s if len(s) <= 80 else s[:77] + "..."


# ---- model (built once per process, before forking) ---------------------------------------------------------

class Model:
    def __init__(self, thorough):
        self.thorough = thorough
        self.radius = 3 if thorough else 1
        S = self.S = Schemas()
        self.decls, self.no_type = discover_decls(S)
        self.classes = discover_classes()
        self.enums = discover_enums()
        self.by_name = dict(self.classes)
        self.by_name.update(self.enums)
        # declared XSD types per class
        self.declared = {}
        for d in self.decls:
            self.declared.setdefault(d.st_name, set()).update(d.types)
            self.by_name.setdefault(d.st_name, d.st)
        self.wtypes = {}
        self.rtypes = {}
        for name, K in self.by_name.items():
            dec = set(self.declared.get(name, ()))
            nm = set()
            if name in XSD_BUILTIN_OF:
                nm.add((XS, XSD_BUILTIN_OF[name]))
            elif name.startswith("ST_"):
                nm.update(S.named(name))
            key = lambda t: (t[0] or "", t[1] or "")  # noqa: E731
            self.wtypes[name] = sorted(dec | nm, key=key)
            self.rtypes[name] = sorted(dec, key=key)
        self._alpha = {}
        self._rpool = {}
        self._dpool = {}
        self._cpairs = {}
        self._dpairs = {}
        self._atypes = {}
        self._own = {}
        self._decl_by_key = {(d.tagname, d.prop): d for d in self.decls}

    def alpha(self, name):
        if name not in self._alpha:
            self._alpha[name] = alphabet(self.S, self.by_name[name], self.wtypes[name], self.thorough)
        return self._alpha[name]

    def class_read_pool(self, name):
        """Lexical forms valid for ALL XSD types of the attributes declared with this class."""
        if name not in self._rpool:
            ts = self.rtypes[name]
            out = []
            if ts:
                cands = set()
                for t in ts:
                    cands.update(self.S.pool(t, self.radius))
                out = sorted((s for s in cands if all(self.S.ok(t, s) for t in ts)), key=lex_order)
            self._rpool[name] = out
        return self._rpool[name]

    def decl_read_pool(self, d):
        k = d.key + "|" + d.tagname
        if k not in self._dpool:
            cands = set()
            for t in d.types:
                cands.update(self.S.pool(t, self.radius))
            self._dpool[k] = sorted((s for s in cands if all(self.S.ok(t, s) for t in d.types)), key=lex_order)
        return self._dpool[k]

    def alpha_types(self, name):
        """Python type name of every alphabet value (hang keys; computed before any fork)."""
        if name not in self._atypes:
            self._atypes[name] = [type(mk(spec)).__name__ for _, spec in self.alpha(name)]
        return self._atypes[name]

    def own_range(self, name):
        """(lo, hi) from the numeric constants of the class's own (most derived) validate(), or None."""
        if name not in self._own:
            K = self.by_name[name]
            rng = None
            if not _is_enum(K):
                for klass in K.__mro__:
                    f = vars(klass).get("validate")
                    if f is None:
                        continue
                    code = getattr(getattr(f, "__func__", f), "__code__", None)
                    cs = sorted({c for c in (code.co_consts if code else ())
                                 if isinstance(c, (int, float)) and not isinstance(c, bool) and math.isfinite(c)})
                    if len(cs) >= 2:
                        rng = (cs[0], cs[-1])
                    break
            self._own[name] = rng
        return self._own[name]

    def must_accept(self, name, v, types):
        """True if v lies inside the class's own enforced range AND its reference lexical form is valid for ALL
        `types`: such a value may not be rejected (rule rejects-valid)."""
        rng = self.own_range(name)
        if rng is None and name in DELEGATING_RANGE_CLASSES:
            # the class states no range of its own (it delegates the check): the numeric range of its schema type
            # (ST_CoordinateUnqualified / ST_Coordinate32Unqualified, ISO 29500-1 20.1.10.16-19) is its range
            rng = DELEGATING_RANGE_CLASSES[name]
        if rng is None or type(v) not in (int, float) or not (rng[0] <= v <= rng[1]) or not types:
            return False
        scale = SCALE.get(name, 1.0)
        if scale == 1.0:
            if type(v) is not int:
                return False
            lex = str(v)
        elif scale > 1.0:
            lex = str(int(round(v * scale)))
        else:
            if type(v) is not int:
                return False
            lex = str(v // int(round(1.0 / scale)))
        return all(self.S.ok(t, lex) for t in types)

    def class_pairs(self, name):
        if name not in self._cpairs:
            self._cpairs[name] = equiv_pairs(self.S, self.rtypes[name]) if self.rtypes[name] else []
        return self._cpairs[name]

    def decl_pairs(self, d):
        k = tuple(d.types)
        if k not in self._dpairs:
            self._dpairs[k] = equiv_pairs(self.S, d.types)
        return self._dpairs[k]

    def preset(self, d):
        pool = self.decl_read_pool(d)
        for s in pool:
            if s:
                return s
        return pool[0] if pool else None

    def read_rule(self, name):
        """enum-unreadable for enums whose declared XSD types are enumerations, else unreadable."""
        K = self.by_name[name]
        if _is_enum(K) and self.rtypes[name] and all(self.S.enum_tokens(t) for t in self.rtypes[name]):
            return "enum-unreadable"
        return "unreadable"

    def new_el(self, d, text=None):
        from pptx.oxml import parse_xml
        el = etree.Element("{%s}%s" % (d.uri, d.local), nsmap={d.pfx: d.uri, "r": X.NS_R})
        if text is not None:
            el.set(d.clark, text)
        return parse_xml(etree.tostring(el))


_MODELS = {}


def model(thorough):
    if thorough not in _MODELS:
        _MODELS[thorough] = Model(thorough)
    return _MODELS[thorough]


# ---- case evaluators: each returns (outcome label, [(rule, subject, key, message)], ...) -------------------
#
# `subject` is the class name (for the read-back of an enum: Class.MEMBER, so that a different member failing is
# a different signature). `key` names the failure independently of the witness value, so that one root cause
# gives one signature in both tiers:
#   accepted-invalid   "->'<written form>'" (numbers, bools, enum members) | "str" (strings pass through)
#   readback           "->'<written form>'" for enums | "str" | "number" | type name
#   reject-type        "<python type>-><exception type>"
#   reject-mutated     "*"
#   unreadable         lexical alternative: integer | percent | percent-decimal | measure-<unit> |
#                      boolean-word | double | hex | empty | token, or the literal enumeration token
#   read-differs       "<alternative>~<alternative>" of two forms the schema defines as equivalent
#   history            python type of the value whose verdict depends on what was written before it

def _vkey(K, v, s):
    if isinstance(v, str):
        return "str"
    if _is_enum(K):
        return "->%r" % (s,)
    if isinstance(v, (int, float)):
        return "number"
    return type(v).__name__


def _subject(K, name, v):
    """Class.MEMBER for a value that denotes a member of enum K, else the class name."""
    if _is_enum(K) and isinstance(v, (int, float)) and not isinstance(v, str):
        for m in K:
            if int(m) == v:
                return "%s.%s" % (name, m.name)
    return name


_RE_INT = re.compile(r"[+-]?\d+\Z")
_RE_PCT = re.compile(r"-?\d+(\.\d+)?%\Z")
_RE_UM = re.compile(r"-?\d+(\.\d+)?(mm|cm|in|pt|pc|pi)\Z")
_RE_DBL = re.compile(r"[+-]?(\d+(\.\d*)?|\.\d+)([eE][+-]?\d+)?\Z")


def lex_category(S, types, s):
    for t in types:
        if s in S.enum_tokens(t):
            return repr(s)
    if s == "":
        return "empty"
    if _RE_INT.match(s):
        return "integer"
    if _RE_PCT.match(s):
        return "percent-decimal" if "." in s else "percent"
    m = _RE_UM.match(s)
    if m:
        return "measure-" + m.group(2)
    if s in ("true", "false"):
        return "boolean-word"
    if _RE_DBL.match(s) or s in ("INF", "-INF", "NaN"):
        return "double"
    if re.match(r"[0-9a-fA-F]{6}\Z", s):
        return "hex"
    return "token"


def lex_order(s):
    return (s == "", s)


# ---- lexical forms the schema (and the standard's prose for its unions) defines as equivalent ---------------------

PCT_SEEDS = ["0", "1", "5", "-5", "8", "50", "90", "100", "-100", "150", "300", "500", "1000", "12.5", "-12.5",
             "1.25", "99.99", "100.00", "0.5"]
EMU_PER = {"in": 914400, "pt": 12700, "cm": 360000, "mm": 36000, "pc": 152400, "pi": 152400}
UM_SEEDS = [("1", "in"), ("72", "pt"), ("2.54", "cm"), ("25.4", "mm"), ("6", "pc"), ("6", "pi"), ("-1", "in"),
            ("1.5", "pt"), ("0", "pt"), ("0.5", "in"), ("100", "mm"), ("-1.5", "cm"), ("0.05", "pc"), ("1", "pi")]
INT_SEEDS = ["0", "1", "2", "5", "8", "50", "100", "256", "1000", "914400", "1828800", "2147483647", "-1", "-5",
             "-100", "-914400"]
INT_BUILTINS = ("byte", "short", "int", "long", "integer", "unsignedByte", "unsignedShort", "unsignedInt",
                "unsignedLong", "nonNegativeInteger", "positiveInteger")
DBL_PAIRS = [("1.5", "1.50"), ("1e3", "1000"), ("1E-3", "0.001"), ("5.", "5"), (".5", "0.5"), ("1.0e+16", "1e16"),
             ("-1.5", "-1.50"), ("0.0", "0")]


def equiv_pairs(S, types):
    """[(a, b, key)]: both forms valid for ALL `types` and equal in the value space the standard defines:
    'N%' == N thousandths of a percent (DrawingML percentages) or == N (chart percentages); universal
    measures == EMU for the coordinate unions; 'true' == '1'; '+5' == '5' == '005'; double notations."""
    def ok(x):
        return all(S.ok(t, x) for t in types)
    flat = set()
    for t in types:
        flat |= S.flat(t)
    free = any(S.is_free(t) for t in types)
    names = {t[1] for t in flat}
    out = []
    if any(S.has_percent_pattern(t) for t in flat):
        factor = 1 if any(t[0] == X.NS_C for t in types) else 1000
        for n in PCT_SEEDS:
            d = Decimal(n) * factor
            if d != d.to_integral_value():
                continue
            a, b = n + "%", str(int(d))
            if ok(a) and ok(b):
                out.append((a, b, lex_category(S, types, a) + "~integer"))
            z = ("-00" + n[1:] if n.startswith("-") else "00" + n) + "%"
            if ok(a) and ok(z):
                out.append((a, z, "percent~percent"))
    if "ST_UniversalMeasure" in names and names & {"ST_CoordinateUnqualified", "ST_Coordinate32Unqualified"}:
        for q, u in UM_SEEDS:
            d = Decimal(q) * EMU_PER[u]
            if d != d.to_integral_value():
                continue
            a, b = q + u, str(int(d))
            if ok(a) and ok(b):
                out.append((a, b, "measure-%s~integer" % u))
    if (XS, "boolean") in flat:
        for a, b in (("true", "1"), ("false", "0")):
            if ok(a) and ok(b):
                out.append((a, b, "boolean-word~integer"))
    if not free and any(t[0] == XS and t[1] in INT_BUILTINS for t in flat):
        for n in INT_SEEDS:
            if not ok(n):
                continue
            sign, digits = ("-", n[1:]) if n.startswith("-") else ("", n)
            for v in ([("+" + n)] if not sign else []) + [sign + "00" + digits]:
                if ok(v):
                    out.append((n, v, "integer~integer"))
    if (XS, "double") in flat:
        for a, b in DBL_PAIRS:
            if ok(a) and ok(b):
                out.append((a, b, "double~double"))
    return out


def class_write(M, name, spec):
    """-> (outcome, fails, verdict) with verdict 'accepted:<written>' | 'rejected:<Exc>' | 'raised:<Exc>'."""
    K = M.by_name[name]
    v = mk(spec)
    try:
        s = K.to_xml(v)
    except (TypeError, ValueError) as e:
        fails = []
        if M.must_accept(name, v, M.wtypes[name]):
            fails.append(("rejects-valid", name, repr(v),
                          "%s.to_xml(%s) raised %s: %s, but the value is inside the class's own range %s and valid for %s"
                          % (name, _short(v), type(e).__name__, e, M.own_range(name),
                             ",".join(t[1] for t in M.wtypes[name]))))
        return "rejected:" + type(e).__name__, fails, "rejected:" + type(e).__name__
    except Exception as e:
        return "raised:" + type(e).__name__, [("reject-type", name, "%s->%s" % (type(v).__name__, type(e).__name__),
                                               "%s.to_xml(%s) raised %s: %s (TypeError/ValueError required)"
                                               % (name, _short(v), type(e).__name__, e))], "raised:" + type(e).__name__
    verdict = "accepted:%r" % (s,)
    types = M.wtypes[name]
    tn = ",".join(t[1] for t in types)
    if not isinstance(s, str) or not any(M.S.ok(t, s) for t in types):
        key = "str" if isinstance(v, str) else "->%r" % (s,)
        return "accepted", [("accepted-invalid", name, key, "%s.to_xml(%s) -> %r, not a valid lexical form of %s"
                             % (name, _short(v), s, tn))], verdict
    subj = _subject(K, name, v)
    try:
        r = K.from_xml(s)
    except Exception as e:
        return "accepted", [("readback", subj, _vkey(K, v, s),
                             "%s.to_xml(%s) -> %r (valid for %s) but from_xml raised %s: %s"
                             % (name, _short(v), s, tn, type(e).__name__, e))], verdict
    if not same(name, v, r):
        return "accepted", [("readback", subj, _vkey(K, v, s), "%s.to_xml(%s) -> %r reads back %s"
                             % (name, _short(v), s, _short(r)))], verdict
    return "accepted", [], verdict


def class_read(M, name, s):
    K = M.by_name[name]
    try:
        K.from_xml(s)
    except Exception as e:
        rule = M.read_rule(name)
        key = repr(s) if rule == "enum-unreadable" else lex_category(M.S, M.rtypes[name], s)
        return "raised:" + type(e).__name__, [(rule, name, key, "%s.from_xml(%r) raised %s: %s; the form is valid for %s"
                                               % (name, s, type(e).__name__, e,
                                                  ",".join(t[1] for t in M.rtypes[name])))]
    return "read", []


def _pair_verdict(kname, types, S, a, b, key, ra, rb, what):
    """ra/rb are ('ok', value) | ('exc', exception)."""
    for form, r in ((a, ra), (b, rb)):
        if r[0] == "exc":
            e = r[1]
            return "raised:" + type(e).__name__, [("unreadable", kname, lex_category(S, types, form),
                                                   "%s %r raised %s: %s; the form is valid for %s"
                                                   % (what, form, type(e).__name__, e, ",".join(t[1] for t in types)))]
    if not same(kname, ra[1], rb[1]) or not same(kname, rb[1], ra[1]):
        return "differs", [("read-differs", kname, key,
                            "%s: %r reads %s but the equivalent %r reads %s (both valid for %s)"
                            % (what, a, _short(ra[1]), b, _short(rb[1]), ",".join(t[1] for t in types)))]
    return "equal", []


def _try(fn):
    try:
        return ("ok", fn())
    except Exception as e:
        return ("exc", e)


def class_read_pair(M, name, a, b, key):
    K = M.by_name[name]
    return _pair_verdict(name, M.rtypes[name], M.S, a, b, key, _try(lambda: K.from_xml(a)), _try(lambda: K.from_xml(b)),
                         "%s.from_xml" % name)


def attr_read_pair(M, d, a, b, key):
    ra = _try(lambda: getattr(M.new_el(d, a), d.prop))
    rb = _try(lambda: getattr(M.new_el(d, b), d.prop))
    return _pair_verdict(d.st_name, d.types, M.S, a, b, key, ra, rb, "<%s %s=...>.%s (%s)"
                         % (d.tagname, d.attr_name, d.prop, d.st_name))


def attr_write(M, d, spec, preset):
    el = M.new_el(d, M.preset(d) if preset else None)
    before = etree.tostring(el, method="c14n")
    v = mk(spec)
    name = d.st_name
    where = "<%s>.%s (@%s, %s)" % (d.tagname, d.prop, d.attr_name, name)
    try:
        setattr(el, d.prop, v)
    except (TypeError, ValueError) as e:
        after = etree.tostring(el, method="c14n")
        if after != before:
            return "rejected", [("reject-mutated", name, "*", "%s = %s raised %s but changed the element: %s -> %s"
                                 % (where, _short(v), type(e).__name__, before.decode(), after.decode()))]
        if M.must_accept(name, v, d.types):
            return "rejected:" + type(e).__name__, [
                ("rejects-valid", name, repr(v),
                 "%s = %s raised %s: %s, but the value is inside the class's own range %s and valid for %s"
                 % (where, _short(v), type(e).__name__, e, M.own_range(name), ",".join(t[1] for t in d.types)))]
        return "rejected:" + type(e).__name__, []
    except Exception as e:
        return "raised:" + type(e).__name__, [("reject-type", name, "%s->%s" % (type(v).__name__, type(e).__name__),
                                               "%s = %s raised %s: %s (TypeError/ValueError required)"
                                               % (where, _short(v), type(e).__name__, e))]
    s = el.get(d.clark)
    tn = ",".join(t[1] for t in d.types)
    subj = _subject(d.st, name, v)
    if s is None:
        try:
            r = getattr(el, d.prop)
        except Exception as e:
            return "removed", [("readback", subj, _vkey(d.st, v, None),
                                "%s = %s removed the attribute and reading raised %s: %s"
                                % (where, _short(v), type(e).__name__, e))]
        if not same(name, v, r):
            return "removed", [("readback", subj, _vkey(d.st, v, None), "%s = %s removed the attribute; reads back %s"
                                % (where, _short(v), _short(r)))]
        return "removed", []
    if not any(M.S.ok(t, s) for t in d.types):
        key = "str" if isinstance(v, str) else "->%r" % (s,)
        return "accepted", [("accepted-invalid", name, key, "%s = %s wrote %s=%r, not a valid lexical form of %s"
                             % (where, _short(v), d.attr_name, s, tn))]
    try:
        r = getattr(el, d.prop)
    except Exception as e:
        return "accepted", [("readback", subj, _vkey(d.st, v, s),
                             "%s = %s wrote %r (valid for %s) but reading raised %s: %s"
                             % (where, _short(v), s, tn, type(e).__name__, e))]
    if not same(name, v, r):
        return "accepted", [("readback", subj, _vkey(d.st, v, s), "%s = %s wrote %r which reads back %s"
                             % (where, _short(v), s, _short(r)))]
    return "accepted", []


def attr_read(M, d, s):
    el = M.new_el(d, s)
    try:
        getattr(el, d.prop)
    except Exception as e:
        return "raised:" + type(e).__name__, [("unreadable", d.st_name, lex_category(M.S, d.types, s),
                                               "<%s %s=%r>.%s raised %s: %s; the form is valid for %s"
                                               % (d.tagname, d.attr_name, s, d.prop, type(e).__name__, e,
                                                  ",".join(t[1] for t in d.types)))]
    return "read", []


# ---- run ------------------------------------------------------------------------------------------------------
#
# The parent process never calls to_xml/from_xml or an element property itself. Every case runs in a forked
# child (one child per class and walk direction, one per declaration group), all forked from the same pristine
# parent. Each child publishes, in a shared anonymous mmap, which case it is about to evaluate; the parent is a
# watchdog: a child that burns STALL_CPU_S of CPU (or STALL_WALL_S of wall time) inside ONE evaluation, or
# exceeds the per-child deadline, is SIGKILLed, the evaluation is reported under rule `hang`, and the job is
# re-run with every value of that python type (or that lexical alternative) skipped.

_M = None
_CLASS_VIOL = frozenset()
_GROUPS = []
_PROG = None

STALL_CPU_S = 3.0          # CPU seconds inside a single evaluation (a normal one takes well under a millisecond)
STALL_WALL_S = 20.0        # wall seconds inside a single evaluation (a hang that does not burn CPU)
MAX_RETRIES = 6            # hangs tolerated per job before its remaining cases are given up
K_CW, K_CR, K_CP, K_CREV, K_AW, K_AR, K_AP = 1, 2, 3, 4, 5, 6, 7


def _child_deadline(thorough):
    return 600.0 if thorough else 60.0


class _Progress:
    FMT = "qiii"

    def __init__(self):
        self.mm = mmap.mmap(-1, 64)
        self.seq = 0

    def mark(self, kind, i, j=0):
        self.seq += 1
        struct.pack_into(self.FMT, self.mm, 0, self.seq, kind, i, j)

    def read(self):
        return struct.unpack_from(self.FMT, self.mm, 0)


def _mark(kind, i, j=0):
    if _PROG is not None:
        _PROG.mark(kind, i, j)


class _Found:
    """First witness per signature plus the labels of the other failing values (deterministic order)."""

    def __init__(self):
        self.d = {}

    def add(self, sig, msg, replay_data, label):
        e = self.d.get(sig)
        if e is None:
            self.d[sig] = [msg, replay_data, [], label]
        elif label not in e[2] and label != e[3]:
            e[2].append(label)

    def emit(self, part):
        for sig in sorted(self.d):
            msg, rp, others, _ = self.d[sig]
            if others:
                msg += " [also: %s%s]" % (", ".join(str(o) for o in others[:10]),
                                         " and %d more" % (len(others) - 10) if len(others) > 10 else "")
            part.violation(sig, msg, rp)


def _sig_class(rule, subject, key):
    if rule == "enum-unreadable":
        return "C11|enum-unreadable|%s|%s" % (subject, key)
    return "C11|%s|*|%s|%s" % (rule, subject, key)


def _read_key(S, types, s):
    return "read:" + lex_category(S, types, s)


# ---- jobs (run in a child) -------------------------------------------------------------------------------------------

def _job_class_fwd(args):
    """Forward walk of one class. -> (Partial, violation keys, verdicts {label: verdict})."""
    from mc.core.run import Partial
    name, skip = args
    M = _M
    ctx = Partial()
    viol, verdicts, found = set(), {}, _Found()
    K = M.by_name[name]
    if _writable(K):
        types = M.alpha_types(name)
        for i, (label, spec) in enumerate(M.alpha(name)):
            if types[i] in skip:
                ctx.count("not_evaluated")
                continue
            _mark(K_CW, i)
            ctx.count("evaluations")
            ctx.count("class_write_cases")
            out, fails, verdict = class_write(M, name, spec)
            verdicts[label] = verdict
            ctx.outcome("to_xml:" + name, out)
            if out == "accepted":
                ctx.count("nontrivial_count")
            for rule, subj, key, msg in fails:
                viol.add((rule, subj, key))
                found.add(_sig_class(rule, subj, key), msg,
                          {"kind": "class_write", "cls": name, "label": label, "spec": spec, "rule": rule,
                           "key": key}, label)
    else:
        ctx.add("classes_read_only", name)
    if not M.rtypes[name]:
        ctx.add("classes_not_declared_on_any_attribute", name)
    for i, s in enumerate(M.class_read_pool(name)):
        if _read_key(M.S, M.rtypes[name], s) in skip:
            ctx.count("not_evaluated")
            continue
        _mark(K_CR, i)
        ctx.count("evaluations")
        ctx.count("class_read_cases")
        ctx.count("nontrivial_count")
        out, fails = class_read(M, name, s)
        ctx.outcome("from_xml:" + name, out)
        for rule, subj, key, msg in fails:
            viol.add((rule, subj, key))
            found.add(_sig_class(rule, subj, key), msg,
                      {"kind": "class_read", "cls": name, "s": s, "rule": rule, "key": key}, repr(s))
    for i, (a, b, key) in enumerate(M.class_pairs(name)):
        if _read_key(M.S, M.rtypes[name], a) in skip or _read_key(M.S, M.rtypes[name], b) in skip:
            ctx.count("not_evaluated")
            continue
        _mark(K_CP, i)
        ctx.count("evaluations")
        ctx.count("class_equivalent_pair_cases")
        ctx.count("nontrivial_count")
        out, fails = class_read_pair(M, name, a, b, key)
        ctx.outcome("from_xml-pair:" + name, out)
        for rule, subj, k2, msg in fails:
            viol.add((rule, subj, k2))
            found.add(_sig_class(rule, subj, k2), msg,
                      {"kind": "class_pair", "cls": name, "a": a, "b": b, "key": key, "rule": rule},
                      "%r~%r" % (a, b))
    found.emit(ctx)
    return ctx, viol, verdicts


def _enum_tokens(K):
    """The distinct non-empty XML tokens of enumeration K, in definition order."""
    out = []
    for m in K:
        t = getattr(m, "xml_value", None)
        if t and t not in out:
            out.append(t)
    return out


def cross_enum_read(M, first, second, token):
    """`second.from_xml(token)` after enumeration `first` was read: the member must belong to `second` and be
    written as `token` again (the first member carrying the token, for aliases). -> failure message or None"""
    B = M.enums[second]
    try:
        r = B.from_xml(token)
    except Exception as e:
        return "%s.from_xml(%r) raised %s after %s had been read; the token is a member of %s" % (
            second, token, type(e).__name__, first, second)
    if type(r) is not B or getattr(r, "xml_value", None) != token:
        return "%s.from_xml(%r) returned %s.%s (written %r) after every token of %s had been read in the same process" % (
            second, token, type(r).__name__, getattr(r, "name", r), getattr(r, "xml_value", None), first)
    return None


def _job_cross_enum(args):
    """One child per FIRST enumeration A: every token of A is read, then every token of every other XML-mapped
    enumeration; a read must not depend on what another enumeration read before. -> Partial"""
    from mc.core.run import Partial
    first, _skip = args
    M = _M
    ctx = Partial()
    found = _Found()
    _mark(K_CR, 0)
    A = M.enums[first]
    for t in _enum_tokens(A):
        try:
            A.from_xml(t)
        except Exception:
            pass   # an unreadable own token is phase 1's business
    for second in sorted(M.enums):
        if second == first:
            continue
        shared = set(_enum_tokens(A))
        for t in _enum_tokens(M.enums[second]):
            ctx.count("evaluations")
            ctx.count("cross_enum_read_cases")
            if t in shared:
                ctx.count("nontrivial_count")
            msg = cross_enum_read(M, first, second, t)
            ctx.outcome("from_xml-after-other-enum:" + second, "own member" if msg is None else "foreign")
            if msg:
                found.add("C11|enum-read-history|%s|after:%s" % (second, first), msg,
                          {"kind": "cross_enum", "first": first, "second": second, "token": t,
                           "rule": "enum-read-history"}, t)
    found.emit(ctx)
    return ctx


def _job_class_rev(args):
    """Backward walk of one class's alphabet in a pristine process: only the verdicts are wanted."""
    name, skip = args
    M = _M
    verdicts = {}
    al = M.alpha(name)
    types = M.alpha_types(name)
    n_skipped = 0
    for i in range(len(al) - 1, -1, -1):
        if types[i] in skip:
            n_skipped += 1
            continue
        _mark(K_CREV, i)
        verdicts[al[i][0]] = class_write(M, name, al[i][1])[2]
    return verdicts, n_skipped


def _job_group(args):
    """All declarations sharing (class, XSD type set): every attribute-level signature is produced inside one
    job, in sorted declaration order, so the kept witness does not depend on scheduling."""
    from mc.core.run import Partial
    gi, skip = args
    M = _M
    part = Partial()
    (st_name, tnames), idxs = _GROUPS[gi]
    found = _Found()
    target = "@" + "+".join(tnames)
    types = M.alpha_types(st_name)
    for di in idxs:
        d = M.decls[di]
        al = M.alpha(d.st_name)
        for preset in (False, True):
            if preset and M.preset(d) is None:
                raise HarnessError("no schema-valid lexical form found for %s (%s)" % (d.key, d.types))
            for i, (label, spec) in enumerate(al):
                if types[i] in skip:
                    part.count("not_evaluated")
                    continue
                _mark(K_AW, di, 2 * i + int(preset))
                part.count("evaluations")
                part.count("attr_write_cases")
                out, fails = attr_write(M, d, spec, preset)
                part.outcome("set:" + d.key, out)
                if out in ("accepted", "removed"):
                    part.count("nontrivial_count")
                for rule, subj, key, msg in fails:
                    if (rule, subj, key) in _CLASS_VIOL:
                        part.count("folded_into_class_level")
                        continue
                    found.add("C11|%s|%s|%s|%s" % (rule, target, subj, key), msg,
                              {"kind": "attr_write", "tag": d.tagname, "prop": d.prop, "label": label,
                               "spec": spec, "preset": preset, "rule": rule, "key": key},
                              "%s=%s" % (d.key, label))
        for i, s in enumerate(M.decl_read_pool(d)):
            if _read_key(M.S, d.types, s) in skip:
                part.count("not_evaluated")
                continue
            _mark(K_AR, di, i)
            part.count("evaluations")
            part.count("attr_read_cases")
            part.count("nontrivial_count")
            out, fails = attr_read(M, d, s)
            part.outcome("get:" + d.key, out)
            for rule, subj, key, msg in fails:
                if (rule, subj, key) in _CLASS_VIOL or ("enum-unreadable", subj, repr(s)) in _CLASS_VIOL:
                    part.count("folded_into_class_level")
                    continue
                found.add("C11|%s|%s|%s|%s" % (rule, target, subj, key), msg,
                          {"kind": "attr_read", "tag": d.tagname, "prop": d.prop, "s": s, "rule": rule,
                           "key": key}, "%s=%r" % (d.key, s))
        for i, (a, b, key) in enumerate(M.decl_pairs(d)):
            if _read_key(M.S, d.types, a) in skip or _read_key(M.S, d.types, b) in skip:
                part.count("not_evaluated")
                continue
            _mark(K_AP, di, i)
            part.count("evaluations")
            part.count("attr_equivalent_pair_cases")
            part.count("nontrivial_count")
            out, fails = attr_read_pair(M, d, a, b, key)
            part.outcome("get-pair:" + d.key, out)
            for rule, subj, k2, msg in fails:
                if (rule, subj, k2) in _CLASS_VIOL:
                    part.count("folded_into_class_level")
                    continue
                found.add("C11|%s|%s|%s|%s" % (rule, target, subj, k2), msg,
                          {"kind": "attr_pair", "tag": d.tagname, "prop": d.prop, "a": a, "b": b, "key": key,
                           "rule": rule}, "%s=%r~%r" % (d.key, a, b))
    found.emit(part)
    return part


def _decode(M, cls_name, prog):
    """(hang key, description, replay data of the single case) of the evaluation a killed child was in."""
    _, kind, i, j = prog
    if kind in (K_CW, K_CREV):
        label, spec = M.alpha(cls_name)[i]
        return (M.alpha_types(cls_name)[i], "%s.to_xml(%s)" % (cls_name, label),
                {"kind": "class_write", "cls": cls_name, "label": label, "spec": spec})
    if kind == K_CR:
        s = M.class_read_pool(cls_name)[i]
        return (_read_key(M.S, M.rtypes[cls_name], s), "%s.from_xml(%r)" % (cls_name, s),
                {"kind": "class_read", "cls": cls_name, "s": s})
    if kind == K_CP:
        a, b, key = M.class_pairs(cls_name)[i]
        return (_read_key(M.S, M.rtypes[cls_name], a), "%s.from_xml(%r | %r)" % (cls_name, a, b),
                {"kind": "class_pair", "cls": cls_name, "a": a, "b": b, "key": key})
    d = M.decls[i]
    if kind == K_AW:
        label, spec = M.alpha(d.st_name)[j // 2]
        return (M.alpha_types(d.st_name)[j // 2], "<%s>.%s = %s" % (d.tagname, d.prop, label),
                {"kind": "attr_write", "tag": d.tagname, "prop": d.prop, "label": label, "spec": spec,
                 "preset": bool(j % 2)})
    if kind == K_AR:
        s = M.decl_read_pool(d)[j]
        return (_read_key(M.S, d.types, s), "<%s %s=%r>.%s" % (d.tagname, d.attr_name, s, d.prop),
                {"kind": "attr_read", "tag": d.tagname, "prop": d.prop, "s": s})
    if kind == K_AP:
        a, b, key = M.decl_pairs(d)[j]
        return (_read_key(M.S, d.types, a), "<%s %s=%r | %r>.%s" % (d.tagname, d.attr_name, a, b, d.prop),
                {"kind": "attr_pair", "tag": d.tagname, "prop": d.prop, "a": a, "b": b, "key": key})
    return ("?", "before the first evaluation", None)


# ---- watchdog scheduler ---------------------------------------------------------------------------------------------------

_TCK = os.sysconf("SC_CLK_TCK") if hasattr(os, "sysconf") else 100


def _cpu_seconds(pid):
    try:
        with open("/proc/%d/stat" % pid) as f:
            rest = f.read().rsplit(")", 1)[1].split()
        return (int(rest[11]) + int(rest[12])) / float(_TCK)
    except Exception:
        return None


def _child_main(conn, prog, fn, arg):
    global _PROG
    _PROG = prog
    try:
        res = ("ok", fn(arg))
    except BaseException:
        res = ("error", traceback.format_exc())
    try:
        conn.send(res)
    finally:
        conn.close()
        os._exit(0)


def _watch(jobs, nproc, deadline):
    """jobs: list of (fn, arg). Runs each in its own forked child under the watchdog.
    -> list of ('ok', result) | ('hang', progress tuple, why)."""
    mpctx = mp.get_context("fork")
    results = [None] * len(jobs)
    pending = list(range(len(jobs)))[::-1]
    running = {}
    while pending or running:
        while pending and len(running) < nproc:
            idx = pending.pop()
            prog = _Progress()
            rconn, wconn = mpctx.Pipe(duplex=False)
            proc = mpctx.Process(target=_child_main, args=(wconn, prog, jobs[idx][0], jobs[idx][1]))
            proc.daemon = True
            proc.start()
            wconn.close()
            now = time.time()
            running[rconn] = {"idx": idx, "proc": proc, "prog": prog, "t0": now, "seq": -1, "t_seq": now,
                              "cpu_seq": 0.0}
        for conn in _mpwait(list(running), timeout=0.05):
            st = running.pop(conn)
            try:
                res = conn.recv()
            except (EOFError, OSError):
                res = ("error", "child exited without a result (exit code %s)" % st["proc"].exitcode)
            conn.close()
            st["proc"].join()
            st["prog"].mm.close()
            if res[0] == "error":
                for o in running.values():
                    o["proc"].kill()
                raise HarnessError("child crashed:\n" + res[1])
            results[st["idx"]] = res
        now = time.time()
        for conn in list(running):
            st = running[conn]
            prog = st["prog"].read()
            cpu = _cpu_seconds(st["proc"].pid)
            if prog[0] != st["seq"]:
                st["seq"], st["t_seq"], st["cpu_seq"] = prog[0], now, (cpu or 0.0)
                continue
            why = None
            if cpu is not None and cpu - st["cpu_seq"] > STALL_CPU_S:
                why = "used more than %.0f s of CPU inside one evaluation" % STALL_CPU_S
            elif now - st["t_seq"] > STALL_WALL_S:
                why = "spent more than %.0f s inside one evaluation" % STALL_WALL_S
            elif now - st["t0"] > deadline:
                why = "child exceeded its deadline of %.0f s" % deadline
            if why:
                try:
                    os.kill(st["proc"].pid, signal.SIGKILL)
                except OSError:
                    pass
                st["proc"].join()
                prog = st["prog"].read()
                del running[conn]
                conn.close()
                st["prog"].mm.close()
                results[st["idx"]] = ("hang", prog, why)
    return results


def _run_with_retries(M, specs, nproc, deadline, learned):
    """specs: list of (fn, key, cls_name) where the job argument is (key, frozenset(skip)).
    -> (results per spec or None when given up, hangs [(spec index, hang key, description, case, why)])."""
    skips = [set(learned.get(sp[2], ())) for sp in specs]
    results = [None] * len(specs)
    hangs = []
    todo = list(range(len(specs)))
    for _round in range(MAX_RETRIES + 1):
        if not todo:
            break
        out = _watch([(specs[i][0], (specs[i][1], frozenset(skips[i]))) for i in todo], nproc, deadline)
        again = []
        for i, r in zip(todo, out):
            if r[0] == "ok":
                results[i] = r[1]
                continue
            key, desc, case = _decode(M, specs[i][2], r[1])
            hangs.append((i, key, desc, case, r[2]))
            if case is not None and key not in skips[i]:
                skips[i].add(key)
                learned.setdefault(specs[i][2], set()).add(key)
                again.append(i)
        todo = again
    return results, hangs, skips


def _peers(M, name, label):
    al = M.alpha(name)
    spec = dict(al)[label]
    w = mk(spec)
    out = []
    for l2, s2 in al:
        if l2 == label:
            continue
        try:
            x = mk(s2)
            if type(x) is not object and x == w and not isinstance(x, str):
                out.append(s2)
        except Exception:
            pass
    return spec, out


def _tname(t):
    return ("xsd:" if t[0] == XS else "") + t[1]


def run(ctx):
    global _M, _CLASS_VIOL, _GROUPS
    M = _M = model(ctx.thorough)
    S = M.S
    deadline = _child_deadline(ctx.thorough)
    nproc = max(1, ncpu())

    # oracle self-test: libxml2 must discriminate, else everything below is vacuous
    probes = [((X.NS_A, "ST_PositiveFixedAngle"), "21599999", True), ((X.NS_A, "ST_PositiveFixedAngle"), "21600000", False),
              ((X.NS_A, "ST_Coordinate"), "1.5pt", True), ((X.NS_A, "ST_Coordinate"), "True", False),
              ((X.NS_C, "ST_BarDir"), "bar", True), ((X.NS_C, "ST_BarDir"), "baz", False),
              ((XS, "unsignedInt"), "-1", False), ((XS, "boolean"), "true", True), ((XS, "boolean"), "True", False),
              ((NS_CT, "ST_Extension"), "xml", True), ((NS_CT, "ST_Extension"), "a b", False),
              ((NS_PR, "ST_TargetMode"), "External", True), ((NS_PR, "ST_TargetMode"), "external", False)]
    for t, s, exp in probes:
        if S.ok(t, s) != exp:
            raise HarnessError("schema oracle self-test failed: %s %r expected %s" % (t, s, exp))

    used_enums = {d.st_name for d in M.decls if _is_enum(d.st)}
    if len(M.decls) < FLOOR_DECLS or len(M.classes) < FLOOR_CLASSES or len(M.enums) < FLOOR_ENUMS \
            or len(used_enums) < FLOOR_ENUMS_USED:
        raise HarnessError("discovery below floor: %d declarations, %d simple-type classes, %d enums, %d enums in use"
                           % (len(M.decls), len(M.classes), len(M.enums), len(used_enums)))
    if len(M.no_type) > 3:
        raise HarnessError("attribute declarations without an XSD type: %s" % M.no_type)

    # everything the children need is computed here, before any fork (and before the library is exercised)
    names = []
    n_class = n_class_writes = 0
    for name in sorted(M.by_name):
        if not M.wtypes[name]:
            ctx.add("classes_without_xsd_type", name)
            continue
        names.append(name)
        if _writable(M.by_name[name]):
            n_class_writes += len(M.alpha(name))
            M.alpha_types(name)
        n_class += len(M.class_read_pool(name)) + len(M.class_pairs(name))
    groups = {}
    n_attr = 0
    for i, d in enumerate(M.decls):
        n_attr += 2 * len(M.alpha(d.st_name)) + len(M.decl_read_pool(d)) + len(M.decl_pairs(d))
        M.alpha_types(d.st_name)
        M.preset(d)
        groups.setdefault((d.st_name, tuple(_tname(t) for t in d.types)), []).append(i)
    _GROUPS = sorted(groups.items())
    n_pair_families = len({k.split("~")[0] for d in M.decls for _, _, k in M.decl_pairs(d)})
    if sum(len(M.decl_pairs(d)) for d in M.decls) < 100 or n_pair_families < 8:
        raise HarnessError("differential reading oracle is vacuous: too few equivalent pairs")
    n_own = sum(1 for n in names if M.own_range(n))
    if n_own < 15:
        raise HarnessError("rejects-valid rule is vacuous: own range found for %d classes only" % n_own)

    learned = {}
    all_hangs = []

    # phase 1: class level, forward walk, one pristine child per class
    order1 = ctx.rotate(names)
    specs1 = [(_job_class_fwd, n, n) for n in order1]
    res1, hangs1, _ = _run_with_retries(M, specs1, nproc, deadline, learned)
    viol = set()
    fwd = {}
    by_name1 = dict(zip(order1, res1))
    for name in names:
        r = by_name1[name]
        if r is None:
            continue
        part, v, verdicts = r
        ctx.merge(part)
        viol |= v
        fwd[name] = verdicts
    hang_found = _Found()
    for i, key, desc, case, why in sorted(hangs1, key=lambda h: (order1[h[0]], h[1])):
        name = order1[i]
        viol.add(("hang", name, key))
        hang_found.add(_sig_class("hang", name, key),
                       "%s did not return: the child %s and was killed" % (desc, why),
                       {"kind": "hang", "case": case, "rule": "hang"}, desc)
    hang_found.emit(ctx)

    # phase 2: class level backward walk (history) and attribute level, with the skips learned in phase 1
    wnames = [n for n in names if _writable(M.by_name[n]) and n in fwd]
    _CLASS_VIOL = frozenset(viol)
    order_r = ctx.rotate(wnames)
    order_g = ctx.rotate(range(len(_GROUPS)))
    specs2 = [(_job_class_rev, n, n) for n in order_r] + [(_job_group, gi, _GROUPS[gi][0][0]) for gi in order_g]
    res2, hangs2, _ = _run_with_retries(M, specs2, nproc, deadline, learned)
    rev = {}
    for n, r in zip(order_r, res2[:len(order_r)]):
        if r is not None:
            rev[n] = r[0]
            ctx.count("evaluations", len(r[0]))
            ctx.count("class_write_cases_reverse_order", len(r[0]))
            ctx.count("not_evaluated", r[1])
    gres = dict(zip(order_g, res2[len(order_r):]))
    for gi in range(len(_GROUPS)):
        if gres.get(gi) is not None:
            ctx.merge(gres[gi])
    hang_found = _Found()
    for i, key, desc, case, why in sorted(hangs2, key=lambda h: (str(specs2[h[0]][1]), h[1])):
        cls_name = specs2[i][2]
        if ("hang", cls_name, key) in _CLASS_VIOL:
            ctx.count("folded_into_class_level")
            continue
        if specs2[i][0] is _job_class_rev:
            sig = _sig_class("hang", cls_name, key)
        else:
            sig = "C11|hang|@%s|%s|%s" % ("+".join(_GROUPS[specs2[i][1]][0][1]), cls_name, key)
        hang_found.add(sig, "%s did not return: the child %s and was killed" % (desc, why),
                       {"kind": "hang", "case": case, "rule": "hang"}, desc)
    hang_found.emit(ctx)
    all_hangs = hangs1 + hangs2

    # phase 3: reads of one enumeration after another enumeration was read in the same process (two-step read
    # histories over every ordered pair of XML-mapped enumerations; one pristine child per first enumeration)
    order_x = ctx.rotate(sorted(M.enums))
    specs3 = [(_job_cross_enum, n, n) for n in order_x]
    res3, hangs3, _ = _run_with_retries(M, specs3, nproc, deadline, learned)
    n_cross = 0
    for n, r in zip(order_x, res3):
        if r is not None:
            ctx.merge(r)
    for a in M.enums:
        n_cross += sum(len(_enum_tokens(M.enums[b])) for b in M.enums if b != a)
    if hangs3:
        raise HarnessError("cross-enumeration read pass did not return for %s" % [order_x[h[0]] for h in hangs3])

    # history: forward against backward verdicts
    hist = _Found()
    for name in wnames:
        if name not in rev:
            continue
        f, r = fwd[name], rev[name]
        if not all_hangs and set(f) != set(r):
            raise HarnessError("forward and backward walks of %s differ in their case sets" % name)
        for label, spec in M.alpha(name):
            if label not in f or label not in r:
                continue
            ctx.outcome("history:" + name, "same" if f[label] == r[label] else "differs")
            if f[label] != r[label]:
                spec, peers = _peers(M, name, label)
                tname = type(mk(spec)).__name__
                hist.add(_sig_class("history", name, tname),
                         "%s.to_xml(%s): %s when the alphabet is walked forwards but %s when walked backwards; the "
                         "verdict on a value must not depend on what was written before it"
                         % (name, label, f[label], r[label]),
                         {"kind": "history", "cls": name, "label": label, "spec": spec, "peers": peers,
                          "rule": "history"}, label)
    hist.emit(ctx)

    expected = n_class + 2 * n_class_writes + n_attr + n_cross
    done = ctx.counters.get("evaluations", 0)
    if all_hangs:
        lost = expected - done
        ctx.cap("%d evaluation(s) hung and were killed; %d of %d cases not evaluated (values of the hanging python "
                "type or lexical alternative are skipped for that class)" % (len(all_hangs), lost, expected))
        ctx.extra["hung_evaluations"] = len(all_hangs)
    elif done != expected:
        raise HarnessError("evaluations %d != closed form %d" % (done, expected))

    ctx.extra["attribute_declarations"] = len(M.decls)
    ctx.extra["attribute_declarations_without_xsd_type"] = M.no_type
    ctx.extra["declaration_groups(class,xsd types)"] = len(_GROUPS)
    ctx.extra["simple_type_classes"] = len(M.classes)
    ctx.extra["xml_enums"] = len(M.enums)
    ctx.extra["xml_enums_used_by_attributes"] = len(used_enums)
    ctx.extra["xsd_types_of_declared_attributes"] = len({t for d in M.decls for t in d.types})
    ctx.extra["alphabet_sizes"] = {n: len(M.alpha(n)) for n in sorted(M._alpha)}
    ctx.extra["equivalent_pair_families"] = sorted({k for d in M.decls for _, _, k in M.decl_pairs(d)})
    ctx.extra["classes_with_own_range(rejects-valid)"] = {n: list(M.own_range(n)) for n in names if M.own_range(n)}
    ctx.extra["forked_children"] = len(specs1) + len(specs2) + len(specs3) + len(all_hangs)
    ctx.extra["cross_enum_read_cases(ordered pairs of enumerations x tokens of the second)"] = n_cross
    d0 = M._decl_by_key.get(("a:lin", "ang")) or M.decls[0]
    ctx.sample({"decl": d0.key, "class": d0.st_name, "xsd": [t[1] for t in d0.types],
                "values": [l for l, _ in M.alpha(d0.st_name)][:40], "lexical_forms_read": M.decl_read_pool(d0)[:20]})
    d1 = M._decl_by_key.get(("a:off", "x")) or M.decls[1]
    ctx.sample({"decl": d1.key, "class": d1.st_name, "xsd": [t[1] for t in d1.types],
                "lexical_forms_read": M.decl_read_pool(d1), "equivalent_pairs": M.decl_pairs(d1)})
    d2 = M._decl_by_key.get(("a:bodyPr", "anchor")) or M.decls[2]
    ctx.sample({"decl": d2.key, "class": d2.st_name, "xsd": [t[1] for t in d2.types],
                "lexical_forms_read": M.decl_read_pool(d2)})
    d3 = M._decl_by_key.get(("a:spcPct", "val")) or M.decls[3]
    ctx.sample({"decl": d3.key, "class": d3.st_name, "xsd": [t[1] for t in d3.types],
                "equivalent_pairs": M.decl_pairs(d3)})


# ---- replay -------------------------------------------------------------------------------------------------------

def _history_case(args):
    """One value w of class `cls`: verdict when it is the first thing written, then write its equal-valued
    peers, then the verdict again."""
    name, wspec, peers = args
    M = _M or model(False)
    v1 = class_write(M, name, wspec)[2]
    for p in peers:
        class_write(M, name, p)
    v2 = class_write(M, name, wspec)[2]
    return v1, v2


def _replay_child(data):
    kind = data["kind"]
    # evaluation of a single case does not depend on the tier (the tier only sizes the alphabets)
    M = _M or model(False)
    _mark(0, 0)
    if kind == "history":
        v1, v2 = _history_case((data["cls"], data["spec"], data["peers"]))
        if v1 != v2:
            return ("%s.to_xml(%s): %s as the first value written, %s after its equal-valued peers were written"
                    % (data["cls"], data["label"], v1, v2))
        return None
    if kind == "cross_enum":
        for t in _enum_tokens(M.enums[data["first"]]):
            try:
                M.enums[data["first"]].from_xml(t)
            except Exception:
                pass
        # the same sequence of reads as in the run: the enumerations before `second` (sorted), then `second`
        for other in sorted(M.enums):
            if other in (data["first"], data["second"]):
                continue
            if other > data["second"]:
                break
            for t in _enum_tokens(M.enums[other]):
                try:
                    M.enums[other].from_xml(t)
                except Exception:
                    pass
        for t in _enum_tokens(M.enums[data["second"]]):
            if t == data["token"]:
                break
            try:
                M.enums[data["second"]].from_xml(t)
            except Exception:
                pass
        return cross_enum_read(M, data["first"], data["second"], data["token"])
    if kind == "class_write":
        fails = class_write(M, data["cls"], data["spec"])[1]
    elif kind == "class_read":
        _, fails = class_read(M, data["cls"], data["s"])
    elif kind == "class_pair":
        _, fails = class_read_pair(M, data["cls"], data["a"], data["b"], data["key"])
    elif kind in ("attr_write", "attr_read", "attr_pair"):
        d = M._decl_by_key.get((data["tag"], data["prop"]))
        if d is None:
            return None
        if kind == "attr_write":
            _, fails = attr_write(M, d, data["spec"], data["preset"])
        elif kind == "attr_read":
            _, fails = attr_read(M, d, data["s"])
        else:
            _, fails = attr_read_pair(M, d, data["a"], data["b"], data["key"])
    else:
        raise ValueError(kind)
    msgs = [f[3] for f in fails if f[0] == data.get("rule", f[0])]
    return "; ".join(msgs) or None


def replay(data):
    """Each replay runs in a watched process forked from this one: replays do not share library state, and a
    case that does not return is killed after the same per-evaluation limits as in the run."""
    global _M
    if _M is None:
        _M = model(False)
    hang = data["kind"] == "hang"
    case = data["case"] if hang else data
    if case is None:
        return None
    r = _watch([(_replay_child, case)], 1, _child_deadline(False))[0]
    if r[0] == "hang":
        return "the evaluation did not return: the child %s and was killed" % r[2]
    return None if hang else r[1]
