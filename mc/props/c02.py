"""C02 — every saved file is a closed, self-consistent package, after any history.

Engine E1, replay mode: breadth-first over histories of public-API operations from several initial decks
(default template; slide part names out of presentation order; non-contiguous names; a corpus deck with notes,
pictures and a chart). In EVERY visited state the presentation is saved to memory and

 * an independent OPC reader (mc.oracles.opc_ref: zipfile + bare lxml) checks the closure rules of the
   statement: unique member names, one resolvable content type per part, every internal relationship target
   present, every r:* attribute value an Id of that part's .rels, officeDocument -> presentation part;
 * the content type of every part equals the type it was loaded/created with (reference model: a dict
   partname -> type, loaded from the initial package by the independent reader and extended by a table of the
   types the standard assigns to the kinds of part the alphabet creates; renames of slide parts are followed
   through the live object's own part names);
 * the file is re-opened with python-pptx and a semantic snapshot (slides, shapes, text, pictures, charts,
   tables, notes, hyperlinks, jump targets) is compared with the snapshot of the in-memory presentation.
"""

from __future__ import annotations

import re

from mc.core import explorer
from mc.core.explorer import SKIP
from mc.drivers import fixtures as F
from mc.drivers import prs_ops, state
from mc.oracles import opc_ref

LEVEL = "model_checking"
RULE = ("BFS over operation histories (replay mode) from 7 initial decks; a state is non-trivial when its history "
        "contains at least one mutating operation followed or preceded by a save/touch_slides (cache-sensitive) or "
        "has length >= 2; distinct = distinct canonical states (saved-package digest + populated lazy caches)")
ASSUMPTIONS = [
    "alphabet-bounded: operations and their argument values are those listed in coverage.alphabet",
    "depth-bounded BFS; bounds reported in coverage.bfs",
    "trusted: mc.oracles.opc_ref (independent OPC reader), zipfile, lxml c14n",
]

URL_A, URL_B = "https://example.com/a?x=1&y=2", "https://example.org/b"

FULL = [
    {"op": "save"},
    {"op": "touch_slides"},
    {"op": "add_slide", "layout": 6},
    {"op": "add_slide", "layout": 0},
    {"op": "add_slide", "layout": 8},
    {"op": "add_textbox"},
    {"op": "add_shape", "kind": "RECTANGLE", "text": "sh"},
    {"op": "add_picture", "img": "A", "via": "stream"},
    {"op": "add_picture", "img": "B", "via": "path"},
    {"op": "add_picture", "img": "A", "via": "stream", "slide": 0},
    {"op": "add_movie"},
    {"op": "add_movie", "poster": "A"},
    {"op": "add_chart", "kind": "bar"},
    {"op": "add_chart", "kind": "xy"},
    {"op": "replace_data"},
    {"op": "add_ole"},
    {"op": "add_table"},
    {"op": "add_group", "member": "shape"},
    {"op": "add_group", "member": "picture"},
    {"op": "add_connector"},
    {"op": "add_freeform"},
    {"op": "notes_access"},
    {"op": "notes_text", "text": "n1"},
    {"op": "hlink_shape", "url": URL_A},
    {"op": "hlink_shape", "url": URL_B},
    {"op": "hlink_shape", "url": None},
    {"op": "hlink_shape", "url": URL_A, "which": "first"},
    {"op": "hlink_shape", "url": None, "which": "first"},
    {"op": "hlink_run", "url": URL_A},
    {"op": "hlink_run", "url": None},
    {"op": "hlink_run", "url": URL_A, "which": "first"},
    {"op": "hlink_run", "url": None, "which": "first"},
    {"op": "add_picture", "img": "I11", "via": "stream"},
    {"op": "target_slide", "to": 0},
    {"op": "target_slide", "to": None},
    {"op": "target_slide", "to": 0, "which": "both"},       # two shapes of the slide jump to the same slide
    {"op": "target_slide", "to": None, "which": "first"},
    {"op": "remove_layout", "in_use": False},
    {"op": "remove_layout", "in_use": True},
    {"op": "remove_layout_cross"},                 # enabled on decks with several masters: documented ValueError
    {"op": "add_movie", "name": "CLIP.MP4"},       # media part named after the file: upper-case extension
    {"op": "core_props"},
    {"op": "core_props", "set": "T&<t>"},
    {"op": "bad_index"},
    {"op": "bad_merge"},
    {"op": "insert_picture_ph", "img": "A"},
    {"op": "save_reopen"},
]

# cache-sensitive sub-alphabet explored deeper (rationale: these are the operations that populate or depend
# on lazily cached relationship targets, part names, the image SHA1 index and rId allocation)
SUB = [
    {"op": "save"},
    {"op": "touch_slides"},
    {"op": "add_slide", "layout": 6},
    {"op": "add_picture", "img": "A", "via": "stream"},
    {"op": "add_picture", "img": "B", "via": "stream", "slide": 0},
    {"op": "hlink_shape", "url": URL_A},
    {"op": "hlink_shape", "url": None},
    {"op": "hlink_shape", "url": URL_A, "which": "first", "slide": 0},
    {"op": "hlink_shape", "url": URL_A, "slide": 0},
    {"op": "hlink_shape", "url": None, "slide": 0},
    {"op": "hlink_run", "url": URL_A, "which": "first", "slide": 0},
    {"op": "hlink_run", "url": URL_A, "slide": 0},
    {"op": "hlink_run", "url": None, "slide": 0},
    {"op": "notes_text", "text": "n1"},
    {"op": "target_slide", "to": 0},
    {"op": "target_slide", "to": None},
    {"op": "target_slide", "to": 0, "which": "both"},
    {"op": "target_slide", "to": None, "which": "first"},
    {"op": "core_props"},
    {"op": "save_reopen"},
]

CORPUS_INIT = "corpus:features/steps/test_files/test.pptx"
NOCORE_INIT = "corpus:tests/test_files/no-core-props.pptx"   # gains a default core-properties part on first access
HANDOUT_INIT = "corpus:features/steps/test_files/mst-slide-layouts.pptx"   # handout master -> its own theme part
MASTERS_INIT = "corpus:features/steps/test_files/prs-slide-masters.pptx"   # two slide masters
INITS = ["default", "out_of_order", "non_contiguous", CORPUS_INIT, "rich", "names_1_5_3", HANDOUT_INIT, NOCORE_INIT,
         MASTERS_INIT]

# one file-like object re-used for every save of a history (growing and shrinking packages)
STREAM = [
    {"op": "save_stream"},
    {"op": "save_stream", "reopen": True},
    {"op": "add_slide", "layout": 6},
    {"op": "add_picture", "img": "A", "via": "stream"},
    {"op": "remove_layout", "in_use": False},
]

# content types the standard assigns to the kinds of part the alphabet creates, by part-name pattern
CT = "application/vnd.openxmlformats-officedocument."
CREATED_TYPES = [
    (re.compile(r"^/ppt/slides/slide\d+\.xml$"), CT + "presentationml.slide+xml"),
    (re.compile(r"^/ppt/notesSlides/notesSlide\d+\.xml$"), CT + "presentationml.notesSlide+xml"),
    (re.compile(r"^/ppt/notesMasters/notesMaster\d+\.xml$"), CT + "presentationml.notesMaster+xml"),
    (re.compile(r"^/ppt/charts/chart\d+\.xml$"), CT + "drawingml.chart+xml"),
    (re.compile(r"^/ppt/theme/theme\d+\.xml$"), CT + "theme+xml"),
    (re.compile(r"^/ppt/embeddings/Microsoft_Excel_Sheet\d*\.xlsx$"), CT + "spreadsheetml.sheet"),
    (re.compile(r"^/ppt/embeddings/oleObject\d+\.bin$"), None),  # several legal types; not pinned here
    (re.compile(r"^/ppt/media/image\d+\.png$"), "image/png"),
    (re.compile(r"^/ppt/media/image\d+\.(jpg|jpeg)$"), "image/jpeg"),
    (re.compile(r"^/ppt/media/media\d+\.(?i:mp4)$"), "video/mp4"),
    (re.compile(r"^/docProps/core\.xml$"), "application/vnd.openxmlformats-package.core-properties+xml"),
]

CLOSURE_RULES_OUTSIDE_STATEMENT = {"unreachable-member", "override-for-missing-part", "orphan-rels-item"}


class System:
    name = "prs"

    def __init__(self, inits, alphabet_by_level):
        self._inits = inits
        self._alpha = alphabet_by_level

    def initials(self):
        return list(self._inits)

    def build(self, name):
        return prs_ops.build(name)

    def ops(self, level):
        return self._alpha(level)

    def apply(self, live, op):
        return prs_ops.apply(live, op)

    def canon(self, live):
        flags = state.cache_flags(live.prs.part.package)
        live._final_save = F.save_bytes(live.prs)
        st = getattr(live, "stream", None)
        return (state.package_digest(live._final_save), flags, len(live.saves), None if st is None else len(st.getvalue()))

    def check(self, live, init, hist, part):
        check_state(live, init, hist, part)


def _opsig(hist):
    return ">".join(o["op"] + ("" if len(o) == 1 else "(" + ",".join("%s=%s" % (k, v) for k, v in sorted(o.items()) if k != "op") + ")") for o in hist)


def _rp(init, hist, sig):
    return {"init": init, "history": hist, "signature": sig}


def check_state(live, init, hist, part):
    blob = getattr(live, "_final_save", None) or F.save_bytes(live.prs)
    hs = _opsig(hist)
    for op, label in live.unexpected:
        sig = "C02|op-raised|%s|%s" % (op["op"], label.split(":")[1] if ":" in label else label)
        part.violation(sig, "init=%s history=%s: %s" % (init, hs, label), _rp(init, hist, sig))
    try:
        pkg = opc_ref.read(blob)
    except Exception as e:  # noqa: BLE001
        sig = "C02|unreadable-zip|%s" % type(e).__name__
        part.violation(sig, "init=%s history=%s: %r" % (init, hs, e), _rp(init, hist, sig))
        return
    # -- closure rules ---------------------------------------------------------------------------
    init_pkg = _init_pkg(init)
    init_dangling = frozenset((s, r.id) for s, r in init_pkg.dangling())
    for rule, detail in opc_ref.closure_errors(pkg, already_dangling=init_dangling):
        if rule in CLOSURE_RULES_OUTSIDE_STATEMENT:
            continue
        det = re.sub(r"\d+", "N", detail)
        sig = "C02|closure|%s|%s" % (rule, det)
        part.violation(sig, "init=%s history=%s: %s %s" % (init, hs, rule, detail), _rp(init, hist, sig))
    # -- content types equal the created/loaded type -------------------------------------------------
    exp = _expected_types(live, init_pkg)
    for m in pkg.part_members():
        pn = "/" + m
        got, _ = pkg.content_type(pn)
        want = exp.get(pn)
        if want is not None and got != want:
            sig = "C02|content-type|%s|%s->%s" % (re.sub(r"\d+", "N", pn), want, got)
            part.violation(sig, "init=%s history=%s: %s has type %s, was created/loaded as %s" % (init, hs, pn, got, want), _rp(init, hist, sig))
    # -- re-open shows what memory showed ------------------------------------------------------------
    try:
        mem = state.semantic_snapshot(live.prs)
    except Exception as e:  # noqa: BLE001
        sig = "C02|snapshot-memory-raised|%s" % type(e).__name__
        part.violation(sig, "init=%s history=%s: reading the in-memory presentation raised %r" % (init, hs, e), _rp(init, hist, sig))
        return
    try:
        re_prs = F.open_prs(blob)
        reo = state.semantic_snapshot(re_prs)
    except Exception as e:  # noqa: BLE001
        sig = "C02|reopen-raised|%s" % type(e).__name__
        part.violation(sig, "init=%s history=%s: re-opening the saved file raised %r" % (init, hs, e), _rp(init, hist, sig))
        return
    d = state.diff(mem, reo)
    if d:
        cls = re.sub(r"\[\d+\]", "[]", d.split(":")[0])
        sig = "C02|reopen-differs|%s" % cls
        part.violation(sig, "init=%s history=%s: memory vs re-opened: %s" % (init, hs, d), _rp(init, hist, sig))
    # nontrivial accounting
    if len(hist) >= 2:
        part.count("nontrivial_count")


_INIT_PKGS = {}


def _init_pkg(init):
    if init not in _INIT_PKGS:
        _INIT_PKGS[init] = opc_ref.read(prs_ops.initial_blob(init))
    return _INIT_PKGS[init]


class _Expected:
    """Reference model of 'the type each part was created or loaded with', keyed by CURRENT part name:
    created kinds (and slide parts, the only kind that is renamed) by the standard's type for that kind of
    part; every other loaded part by the type the independent reader resolved in the initial package."""

    def __init__(self, init_pkg):
        self.names = {}
        for m in init_pkg.part_members():
            pn = "/" + m
            ct, _ = init_pkg.content_type(pn)
            self.names[pn] = ct

    def get(self, pn):
        if pn in self.names and not re.match(r"^/ppt/slides/slide\d+\.xml$", pn):
            return self.names[pn]
        for pat, ct in CREATED_TYPES:
            if pat.match(pn):
                return ct
        return None


def _expected_types(live, init_pkg):
    return _Expected(init_pkg)


def _alphabet_full(level):
    return FULL


def _alphabet_sub(level):
    return SUB


def _alphabet_stream(level):
    return STREAM


def run(ctx):
    ctx.extra["alphabet"] = {"full": [_opsig([o]) for o in FULL], "sub": [_opsig([o]) for o in SUB],
                             "reused-stream": [_opsig([o]) for o in STREAM]}
    gen = [i for i in INITS if not i.startswith("corpus:")]
    cor = [i for i in INITS if i.startswith("corpus:")]
    irregular = ["out_of_order", "non_contiguous", "names_1_5_3"]
    if ctx.thorough:
        explorer.explore(ctx, System(["default", "rich"], _alphabet_full), 3, name="full-alphabet/depth3")
        explorer.explore(ctx, System(irregular + cor, _alphabet_full), 2, name="full-alphabet/depth2")
        explorer.explore(ctx, System(irregular + [NOCORE_INIT], _alphabet_sub), 4, name="cache-sensitive-subalphabet")
        explorer.explore(ctx, System(["default", "rich"], _alphabet_sub), 3, name="cache-sensitive-subalphabet/other-decks")
        explorer.explore(ctx, System(["default", "two_slides"], _alphabet_stream), 5, name="reused-stream")
    else:
        explorer.explore(ctx, System(gen, _alphabet_full), 2, name="full-alphabet")
        explorer.explore(ctx, System(cor, _alphabet_full), 1, name="full-alphabet/corpus-decks")
        explorer.explore(ctx, System(["out_of_order", "non_contiguous", "names_1_5_3", NOCORE_INIT], _alphabet_sub), 3,
                         name="cache-sensitive-subalphabet")
        explorer.explore(ctx, System(["default", "rich"], _alphabet_sub), 2, name="cache-sensitive-subalphabet/other-decks")
        explorer.explore(ctx, System(["default"], _alphabet_stream), 4, name="reused-stream")
    single = [op for op, s in ctx.outcomes.items() if len(s) == 0]
    if single:
        from mc.core.run import HarnessError
        raise HarnessError("operations never enabled: %s" % single)


def replay(data):
    sysm = System(INITS, _alphabet_full)
    return explorer.replay_history(sysm, data)
