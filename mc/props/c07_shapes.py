"""Shared chart-data enumeration for C07 and C08.

A *shape* is a small JSON dict (a pure function of the bound) from which
  * `build(spec)`  makes the python-pptx chart-data object through the documented chart-data API, and
  * `model(spec)`  makes the independent reference model of what was supplied (names, values with None
                   holes, leaf labels, levels bottom-up with leaf offsets, root->leaf paths, X values, sizes).

Shape dict keys
  k      "cat" | "xy" | "bubble"
  cat shapes:  either  lab=<label kind>, n=<leaf count>   (flat categories, generated labels)
               or      tree=<nested lists>                 (uniform-depth category forest; [] is a leaf)
               or      labels=[str, ...]                   (explicit string labels, C08 alphabet)
               ns=<series count>, vk=<value kind>, optional names=[...] (explicit series names)
  xy/bubble:   lens=[points per series], vk=<value kind>
  optional number formats: nf (chart data level), snf (first series), cnf (categories)
  optional via=<how the flat categories get into the chart-data object> (VIA_KINDS; default: add_category calls)

Label kinds: str, int (small), float (short), int_wide / float_wide (numbers that need 7..17 significant
digits: yyyymmdd-style keys, 10^6+1, 2^31, 12-digit counts, 8-digit fractions, 0.1+0.2; every one prints
without an exponent), date_pre (before 1900-03-01 for n<=3; n=300 crosses the phantom leap day),
date_post (1900-03-01 and later), datetime (midnight), datetime_noon (C08 only), and the NUM_TYPES below.

Numeric TYPE alphabet (NUM_TYPES; as a value kind `vk` and as a label kind `lab`): numbers that are neither a
plain int nor a plain float — int_sub (a bare subclass of int), float_sub (a bare subclass of float), decimal
(decimal.Decimal in plain notation, one with a trailing zero), fraction (fractions.Fraction with denominator 1).
As a value kind every third point is None; for XY/bubble shapes X values and bubble sizes are of the type too.
Membership rule: a numeric type belongs to the alphabet when str() of its members is a plain decimal numeral —
that is what "the decimal text of the number" can mean and what the unchanged library handles.
VALUE_ONLY_NUM_TYPES: fraction_ratio (Fraction(5,2), Fraction(-1,3), Fraction(7,4), ...) — a number in the sense of
the statement (central triage decision), enumerated as series values and XY/bubble X, Y, size, NOT as labels. The
unchanged library writes c:v '5/2' for it and its own reader raises ValueError: that is REPORTED (signatures carry
`value-type=fraction_ratio`). Probed on the unchanged library and left OUT of the domain: bool (c:v 'True'),
Decimal in exponent notation ('1E+2': "decimal text" is ambiguous).
'slen' = per-series point counts of a category shape when they differ from the leaf count (RAGGED data:
empty / shorter / equal / longer series next to each other, see ragged_shapes).
`None` labels are NOT enumerated: `add_category` documents "a string, a number, a datetime.date, or
datetime.datetime object" only.
"""

from __future__ import annotations

import datetime
import decimal
import fractions
import itertools

STR_POOL = ["West", "a&b <c>", "Ünï © \U0001F4C8", " lead", "x'\"y", "日本"]   # index 2: non-ASCII BMP + a character outside the BMP
NAME_POOL = ["Series 1", "S&P <500>", "Ünï © 3 \U00020000"]
FLOATS = [1.5, 1e-07, -0.0, -2.25, 123456789.125, 1e+20]

LABEL_KINDS = ["str", "int", "float", "int_wide", "float_wide", "date_pre", "date_post", "datetime"]


class IntSub(int):
    """A bare subclass of int: a legal number that is not `type(x) is int`."""


class FloatSub(float):
    """A bare subclass of float."""


# numbers that are neither a plain int nor a plain float; str() of every member is a plain decimal numeral
NUM_TYPES = ["int_sub", "float_sub", "decimal", "fraction"]
_NUM_TABLE = {
    "int_sub": [3, -2, 0, 1000001, 41],
    "float_sub": [2.5, -0.125, 1234.5678, 0.1 + 0.2, 7.0],
    "decimal": ["10.25", "-3", "0.10", "1234567.891", "0.125"],
    "fraction": [7, -2, 0, 1000001, 12],
    "fraction_ratio": [(5, 2), (-1, 3), (7, 4), (1, 8), (22, 7)],
}
# numeric types enumerated in the VALUE role only (series values, XY/bubble X, Y, size), never as category labels:
# a Fraction with a denominator is a number (central triage decision), but "the decimal text of the number" is not
# defined for a label that has no finite decimal expansion
VALUE_ONLY_NUM_TYPES = ["fraction_ratio"]
VALUE_NUM_TYPES = NUM_TYPES + VALUE_ONLY_NUM_TYPES
NUMERIC_LABEL_KINDS = ("int", "float", "int_wide", "float_wide") + tuple(NUM_TYPES)


def typed_number(t, k):
    """k-th number of numeric type t: the table entry k mod 5, shifted by k // 5 (so labels stay distinct)."""
    base, shift = _NUM_TABLE[t][k % 5], k // 5
    if t == "int_sub":
        return IntSub(base + shift)
    if t == "float_sub":
        return FloatSub(base + shift)
    if t == "decimal":
        return decimal.Decimal(base) + shift
    if t == "fraction":
        return fractions.Fraction(base + shift, 1)
    if t == "fraction_ratio":
        return fractions.Fraction(base[0], base[1]) + shift
    raise ValueError(t)


def value_type(spec):
    """The numeric type of the shape's values when it is one of the typed value kinds, else None."""
    return spec["vk"] if spec.get("vk") in VALUE_NUM_TYPES else None


# how flat category labels get into a CategoryChartData object (default: one add_category call per label)
VIA_KINDS = ["assign", "assign_twice", "assign_over_other", "add_then_assign", "assign_over_tree", "assign_after_series"]
DRAFT_LABELS = ["draft 1", "draft 2"]
# numeric labels whose shortest exact decimal text needs 7..17 significant digits (none prints with an exponent)
WIDE_INTS = [20240131, 1000001, 86400001, -1234567, 2147483648, 999999999999]
WIDE_FLOATS = [1234.5678, 0.12345678, -98765.4321, 123456789.125, 0.1 + 0.2, 1.0000001]
CAT_COUNTS = [1, 2, 3, 300]
VALUE_KINDS = ["int", "float", "holes", "empty"]
NUMBER_FORMATS = ["#,##0.00", "0.0%", '"$"#,##0', "[<100]0;0"]
MARKUP_CHARS = "<&"


def kind_of(type_name: str) -> str:
    if type_name.startswith("XY_"):
        return "xy"
    if type_name.startswith("BUBBLE"):
        return "bubble"
    return "cat"


def family_of(type_name: str) -> str:
    """Writer family by the NAME of the chart type (no library internals)."""
    for pfx, fam in (("THREE_D_AREA", "area3d"), ("AREA", "area"), ("BAR", "bar"), ("COLUMN", "bar"),
                     ("BUBBLE", "bubble"), ("DOUGHNUT", "doughnut"), ("LINE", "line"), ("PIE", "pie"),
                     ("RADAR", "radar"), ("XY", "xy")):
        if type_name.startswith(pfx):
            return fam
    return "other"


def needs_series(type_name: str) -> bool:
    """Pie types need at least one series (property quantifier)."""
    return family_of(type_name) == "pie"


# ---- labels -------------------------------------------------------------------------------------------

def label_for(kind, i):
    if kind == "str":
        base = STR_POOL[i % len(STR_POOL)]
        return base if i < len(STR_POOL) else "%s %d" % (base, i)
    if kind == "int":
        return i - 1
    if kind == "float":
        return i * 1.25 + 0.5
    if kind == "int_wide":
        return WIDE_INTS[i % len(WIDE_INTS)] + 7 * (i // len(WIDE_INTS))
    if kind == "float_wide":
        return WIDE_FLOATS[i % len(WIDE_FLOATS)] + (i // len(WIDE_FLOATS))
    if kind == "date_pre":
        return datetime.date(1900, 2, 26) + datetime.timedelta(days=i)
    if kind == "date_post":
        return datetime.date(1900, 3, 1) + datetime.timedelta(days=i * 7919)
    if kind == "datetime":
        return datetime.datetime(2016, 12, 27, 0, 0, 0) + datetime.timedelta(days=i)
    if kind == "datetime_noon":
        return datetime.datetime(2016, 12, 27, 12, 0, 0) + datetime.timedelta(days=i)
    if kind in NUM_TYPES:
        return typed_number(kind, i)
    raise ValueError(kind)


def excel_serial(d, date1904=False):
    """Reference serial-date arithmetic: 1900 system counts a phantom 1900-02-29 (serial 60), so
    1900-02-28 -> 59 and 1900-03-01 -> 61; 1904 system is plain day difference from 1904-01-01."""
    day = datetime.date(d.year, d.month, d.day)
    if date1904:
        return (day - datetime.date(1904, 1, 1)).days
    if day >= datetime.date(1900, 3, 1):
        return (day - datetime.date(1899, 12, 30)).days
    return (day - datetime.date(1899, 12, 31)).days


# ---- category forests -----------------------------------------------------------------------------------

def compositions(n):
    """All ordered tuples of positive ints summing to n (2^(n-1) of them)."""
    if n == 0:
        yield ()
        return
    for first in range(1, n + 1):
        for rest in compositions(n - first):
            yield (first,) + rest


def forests(depth, n):
    """All ordered forests of uniform depth `depth` with exactly n leaves; a node is the list of its
    children, a leaf is []. There are depth^(n-1) of them."""
    if depth == 1:
        yield [[] for _ in range(n)]
        return
    for comp in compositions(n):
        options = [list(forests(depth - 1, k)) for k in comp]
        for combo in itertools.product(*options):
            yield [list(sub) for sub in combo]


def forest_count(depth, n):
    return depth ** (n - 1)


def all_forests(max_leaves, max_depth):
    out = []
    for d in range(2, max_depth + 1):
        for n in range(1, max_leaves + 1):
            out.extend(forests(d, n))
    return out


def all_forests_count(max_leaves, max_depth):
    return sum(forest_count(d, n) for d in range(2, max_depth + 1) for n in range(1, max_leaves + 1))


def forest_depth(forest):
    d, node = 1, forest[0]
    while node:
        d += 1
        node = node[0]
    return d


def _tree_model(forest):
    """levels bottom-up [[(leaf_offset, label)...]...] and root->leaf paths; labels by (height, ordinal)."""
    depth = forest_depth(forest)
    levels = [[] for _ in range(depth)]
    paths = []
    counter = [0]
    deco = {0: "%s", 1: "grp %s & co", 2: "<top %s>", 3: "root %s"}

    def walk(node, height, trail):
        label = deco[height] % ("%s%d" % ("ABCD"[height], len(levels[height])))
        if not node:
            off = counter[0]
            counter[0] += 1
            levels[0].append((off, label))
            paths.append(tuple(trail + [label]))
            return off
        slot = len(levels[height])
        levels[height].append(None)
        first = None
        for ch in node:
            o = walk(ch, height - 1, trail + [label])
            if first is None:
                first = o
        levels[height][slot] = (first, label)
        return first

    for top in forest:
        walk(top, depth - 1, [])
    return depth, levels, paths


def _build_tree(cd, forest):
    depth, levels, _ = _tree_model(forest)
    cursors = [0] * depth

    def add(parent, node, height):
        label = levels[height][cursors[height]][1]
        cursors[height] += 1
        cat = parent.add_category(label) if height == depth - 1 else parent.add_sub_category(label)
        for ch in node:
            add(cat, ch, height - 1)

    # labels are consumed in the same DFS pre-order in which _tree_model numbers them
    for top in forest:
        add(cd, top, depth - 1)


# ---- values ---------------------------------------------------------------------------------------------

def value_for(vk, s, i):
    if vk == "int":
        return (i - 1) * (s + 1)
    if vk == "float":
        return FLOATS[(s + i) % len(FLOATS)]
    if vk == "holes":
        return None if (i + s) % 3 == 0 else FLOATS[(s + 2 * i) % len(FLOATS)]
    if vk == "mixed":
        r = (i + s) % 4
        if r == 0:
            return (i + 1) * (s + 2)
        if r == 1:
            return FLOATS[(s + i) % len(FLOATS)]
        if r == 2:
            return None
        return -(i + 0.25)
    if vk in VALUE_NUM_TYPES:
        return None if (i + s) % 3 == 2 else typed_number(vk, s + 2 * i)
    raise ValueError(vk)


def series_name(spec, s):
    names = spec.get("names")
    if names is not None:
        return names[s]
    return NAME_POOL[s] if s < len(NAME_POOL) else "Series %d" % (s + 1)


def leaf_count(spec):
    if "tree" in spec:
        return len(_tree_model(spec["tree"])[1][0])
    if "labels" in spec:
        return len(spec["labels"])
    return spec["n"]


def series_count(spec):
    return spec["ns"] if spec["k"] == "cat" else len(spec["lens"])


def series_len(spec, s):
    """Points of series s of a category shape: the leaf count unless 'slen' gives per-series lengths."""
    if spec["vk"] == "empty":
        return 0
    sl = spec.get("slen")
    return sl[s] if sl is not None else leaf_count(spec)


def point_total(spec):
    if spec["k"] == "cat":
        return sum(series_len(spec, s) for s in range(spec["ns"]))
    return sum(spec["lens"])


def label_kind(spec):
    if spec["k"] != "cat":
        return spec["k"]
    if "tree" in spec:
        return "tree"
    if "labels" in spec:
        return "explicit"
    return spec["lab"]


def has_empty_label(spec):
    return "" in (spec.get("labels") or ())


def has_markup_number_format(spec):
    return any(ch in (spec.get(key) or "") for key in ("nf", "snf", "cnf") for ch in MARKUP_CHARS)


# ---- model + builder --------------------------------------------------------------------------------------

class Model:
    """What was supplied, computed without python-pptx."""

    def __init__(self):
        self.kind = None
        self.names = []
        self.values = []      # per series list (None = missing)
        self.leaves = []      # ("s", text) | ("n", number)   expected leaf labels
        self.depth = 0
        self.levels = None    # bottom-up [[(offset, label)]] when depth >= 2
        self.paths = None     # root->leaf label tuples when depth >= 2
        self.xs = []
        self.sizes = []
        self.date_labels = None  # list of date objects when labels are dates (for 1904 re-computation)


def model(spec, date1904=False) -> Model:
    m = Model()
    m.kind = spec["k"]
    if spec["k"] == "cat":
        if "tree" in spec:
            depth, levels, paths = _tree_model(spec["tree"])
            m.depth, m.levels, m.paths = depth, levels, paths
            m.leaves = [("s", lab) for _, lab in levels[0]]
        elif "labels" in spec:
            m.depth = 1
            m.leaves = [("s", lab) for lab in spec["labels"]]
        else:
            m.depth = 1
            labs = [label_for(spec["lab"], i) for i in range(spec["n"])]
            if spec["lab"] == "str":
                m.leaves = [("s", x) for x in labs]
            elif spec["lab"] in NUMERIC_LABEL_KINDS:
                m.leaves = [("n", x) for x in labs]
            else:
                m.date_labels = labs
                m.leaves = [("n", excel_serial(x, date1904)) for x in labs]
        for s in range(spec["ns"]):
            m.names.append(series_name(spec, s))
            m.values.append([value_for(spec["vk"], s, i) for i in range(series_len(spec, s))])
    else:
        for s, ln in enumerate(spec["lens"]):
            m.names.append(series_name(spec, s))
            pts = [_xy_point(spec, s, i) for i in range(ln)]
            m.xs.append([p[0] for p in pts])
            m.values.append([p[1] for p in pts])
            if spec["k"] == "bubble":
                m.sizes.append([p[2] for p in pts])
    return m


def build(spec):
    """Chart-data object for `spec`, through the documented python-pptx chart-data API."""
    from pptx.chart.data import BubbleChartData, CategoryChartData, XyChartData
    kw = {}
    if spec.get("nf") is not None:
        kw["number_format"] = spec["nf"]
    if spec["k"] == "cat":
        cd = CategoryChartData(**kw)
        if "tree" in spec:
            _build_tree(cd, spec["tree"])
        elif "labels" in spec:
            for lab in spec["labels"]:
                cd.add_category(lab)
        else:
            via = spec.get("via", "add_category")
            labs = [label_for(spec["lab"], i) for i in range(spec["n"])]
            if via == "add_category":
                for lab in labs:
                    cd.add_category(lab)
            elif via == "assign":                 # any iterable: here a generator
                cd.categories = (lab for lab in labs)
            elif via == "assign_twice":           # the second assignment is a no-op
                cd.categories = list(labs)
                cd.categories = tuple(labs)
            elif via == "assign_over_other":      # other labels (strings, other count) assigned first
                cd.categories = list(DRAFT_LABELS)
                cd.categories = list(labs)
            elif via == "add_then_assign":        # assignment wins over an earlier add_category
                cd.add_category(DRAFT_LABELS[0])
                cd.categories = list(labs)
            elif via == "assign_over_tree":       # a two-level hierarchy replaced by flat labels
                top = cd.add_category(DRAFT_LABELS[0])
                top.add_sub_category("draft 1.1")
                top.add_sub_category("draft 1.2")
                cd.categories = list(labs)
            elif via == "assign_after_series":    # series first, categories assigned afterwards
                pass
            else:
                raise ValueError("via=%r is not a construction path" % (via,))
        if spec.get("cnf") is not None:
            cd.categories.number_format = spec["cnf"]
        for s in range(spec["ns"]):
            vals = [value_for(spec["vk"], s, i) for i in range(series_len(spec, s))]
            cd.add_series(series_name(spec, s), vals, spec.get("snf") if s == 0 else None)
        if spec.get("via") == "assign_after_series":
            cd.categories = [label_for(spec["lab"], i) for i in range(spec["n"])]
        return cd
    cls = XyChartData if spec["k"] == "xy" else BubbleChartData
    cd = cls(**kw)
    for s, ln in enumerate(spec["lens"]):
        ser = cd.add_series(series_name(spec, s), spec.get("snf") if s == 0 else None)
        for i in range(ln):
            ser.add_data_point(*_xy_point(spec, s, i))
    return cd


def _xy_point(spec, s, i):
    """(x, y[, size]) of point i of series s; for a typed value kind X and size are of that type as well."""
    vk = spec["vk"]
    y = value_for(vk, s, i)
    if vk in VALUE_NUM_TYPES:
        x, size = typed_number(vk, 2 * s + i), typed_number(vk, 5 * (i % 3 + 1))
    else:
        x, size = s * 10 + i * 0.5, (i % 4) + 1 + 0.5 * s
    return (x, y) if spec["k"] == "xy" else (x, y, size)


# ---- one chart-data object used twice: (before, after) shape pairs and the delta between them --------------

def reuse_pairs(kind):
    """[(mutation name, shape before, shape after)]: `after` is what the SAME chart-data object holds once
    `apply_delta` has changed it through the documented API (add_category / add_sub_category / add_series /
    add_data_point; `categories = [...]` re-assignment when `after` says via="reassign": same labels, more
    labels with points added, fewer labels — the points stay, so the data is ragged —, numeric labels over
    strings, flat labels over a two-level hierarchy). XY/bubble: every series position (first, middle, last)
    of 2- and 3-series data grows."""
    if kind == "cat":
        flat = {"k": "cat", "labels": ["North", "East", "South"], "ns": 2, "vk": "float"}
        tree = {"k": "cat", "tree": [[[], []], [[]]], "ns": 2, "vk": "float"}
        return [
            ("add_category", flat, dict(flat, labels=flat["labels"] + ["Added later", "And another"])),
            ("add_category_multilevel", tree, dict(tree, tree=[[[], []], [[]], [[], []]])),
            ("add_sub_category", tree, dict(tree, tree=[[[], []], [[], [], []]])),
            ("add_series", flat, dict(flat, ns=3)),
            ("add_data_point", dict(flat, slen=[3, 1]), dict(flat, slen=[3, 3])),
            # `cd.categories = [...]` on an object that already HAS categories (and series): assignment replaces
            ("assign_same_categories", flat, dict(flat, via="reassign")),
            ("assign_more_categories", flat, dict(flat, labels=["Spring", "Summer", "Autumn", "Winter", "a&b <c>"], via="reassign")),
            ("assign_fewer_categories", flat, dict(flat, labels=["First half", "Second half"], slen=[3, 3], via="reassign")),
            ("assign_numeric_categories", flat, {"k": "cat", "lab": "float", "n": 3, "ns": 2, "vk": "float", "via": "reassign"}),
            ("assign_flat_over_tree", tree, dict(flat, via="reassign")),
        ]
    two = {"k": kind, "lens": [2, 3], "vk": "float"}
    three = {"k": kind, "lens": [2, 3, 1], "vk": "float"}
    return [
        ("grow_first_of_2", two, dict(two, lens=[4, 3])),
        ("grow_last_of_2", two, dict(two, lens=[2, 5])),
        ("grow_first_of_3", three, dict(three, lens=[4, 3, 1])),
        ("grow_middle_of_3", three, dict(three, lens=[2, 5, 1])),
        ("grow_last_of_3", three, dict(three, lens=[2, 3, 3])),
        ("add_series", two, dict(two, lens=[2, 3, 2])),
    ]


def apply_delta(cd, before, after):
    """Change the live chart-data object `cd` (built from `before`) to `after` through its documented API: the
    categories are re-assigned (`cd.categories = [...]`) when after["via"] == "reassign", else grown."""
    if before["k"] != after["k"] or before["vk"] != after["vk"]:
        raise ValueError("delta must keep kind and value kind")
    if before["k"] != "cat":
        for s, ln in enumerate(after["lens"]):
            if s < len(before["lens"]):
                ser = cd[s]
                start = before["lens"][s]
            else:
                ser = cd.add_series(series_name(after, s))
                start = 0
            for i in range(start, ln):
                ser.add_data_point(*_xy_point(after, s, i))
        return
    # categories first
    if after.get("via") == "reassign":
        if "tree" in after:
            raise ValueError("only flat labels can be assigned")
        na = leaf_count(after)
        cd.categories = list(after["labels"]) if "labels" in after else [label_for(after["lab"], i) for i in range(na)]
    elif "tree" in after:
        fb, fa = before["tree"], after["tree"]
        depth, levels, _ = _tree_model(fa)
        if depth != 2 or forest_depth(fb) != 2:
            raise ValueError("delta supports depth-2 forests")
        tops = [lab for _, lab in levels[1]]
        leaves = [lab for _, lab in levels[0]]
        pos = 0
        for t, node in enumerate(fa):
            if t < len(fb):
                if t < len(fb) - 1 and len(node) != len(fb[t]):
                    raise ValueError("only the last top-level category may gain sub-categories")
                top, have = cd.categories[t], len(fb[t])
            else:
                top, have = cd.add_category(tops[t]), 0
            for j in range(have, len(node)):
                top.add_sub_category(leaves[pos + j])
            pos += len(node)
    else:
        nb, na = leaf_count(before), leaf_count(after)
        labs = after["labels"] if "labels" in after else [label_for(after["lab"], i) for i in range(na)]
        for i in range(nb, na):
            cd.add_category(labs[i])
    # then series / points
    for s in range(after["ns"]):
        want = series_len(after, s)
        if s < before["ns"]:
            ser = cd[s]
            for i in range(series_len(before, s), want):
                ser.add_data_point(value_for(after["vk"], s, i))
        else:
            cd.add_series(series_name(after, s), [value_for(after["vk"], s, i) for i in range(want)])


# ---- enumerations ---------------------------------------------------------------------------------------

RAGGED_TREE = [[[], []], [[], []]]  # 2 top-level categories x 2 sub-categories = 4 leaves


def ragged_shapes(thorough):
    """Category data whose series do NOT all have as many points as there are leaf categories: every tuple of
    per-series point counts over a length alphabet that holds 0, 1, fewer than, exactly, and more than the leaf
    count. Returns (list of specs, closed-form size).
      flat, 3 string categories:  lengths {0..5}^ns,              ns in {1,2} (thorough: {1,2,3})
      2-level forest, 4 leaves:   lengths {0,2,4,6}^ns (quick) | {0..6}^ns (thorough), ns in {1,2}
    Values are 'mixed' (ints, floats, None holes), so a hole can sit inside the surplus tail too."""
    out = []
    flat_lens, flat_ns = list(range(6)), ((1, 2, 3) if thorough else (1, 2))
    tree_lens, tree_ns = (list(range(7)) if thorough else [0, 2, 4, 6]), (1, 2)
    for ns in flat_ns:
        for lens in itertools.product(flat_lens, repeat=ns):
            out.append({"k": "cat", "lab": "str", "n": 3, "ns": ns, "vk": "mixed", "slen": list(lens)})
    for ns in tree_ns:
        for lens in itertools.product(tree_lens, repeat=ns):
            out.append({"k": "cat", "tree": RAGGED_TREE, "ns": ns, "vk": "mixed", "slen": list(lens)})
    size = sum(len(flat_lens) ** ns for ns in flat_ns) + sum(len(tree_lens) ** ns for ns in tree_ns)
    return out, size


def is_ragged(spec):
    return spec["k"] == "cat" and spec.get("slen") is not None


REPLACE_BASE = {"k": "cat", "lab": "str", "n": 2, "ns": 1, "vk": "int"}
WIDE_REPLACE_COUNTS = [1, 7]  # 7 labels walk through the whole 6-member alphabet and wrap once


def replace_base(kind):
    """The one-series chart on which the replace_extra_shapes are applied."""
    return REPLACE_BASE if kind == "cat" else {"k": kind, "lens": [2], "vk": "int"}


TYPED_LABEL_COUNTS = [1, 6]  # 6 labels walk through the whole 5-member table and wrap once
TYPED_VALUE_SERIES = [1, 2]


def typed_number_shapes(kind):
    """Every numeric type of NUM_TYPES in every role a number can have, and every type of VALUE_ONLY_NUM_TYPES in
    the value roles (series values; XY/bubble X, Y, size). Returns (specs, closed-form size).
      cat:        as series values (1 series — all a pie chart shows — and 2 series, 3 string categories) |
                  as category labels x {1,6} categories | as values AND labels       -> 5 shapes per type
      xy/bubble:  X, Y (and size) of the type, series lengths [3,2] | [1]           -> 2 shapes per type"""
    out = []
    for t in VALUE_NUM_TYPES:
        labels_too = t in NUM_TYPES
        if kind == "cat":
            for ns in TYPED_VALUE_SERIES:
                out.append({"k": "cat", "lab": "str", "n": 3, "ns": ns, "vk": t})
            if labels_too:
                for n in TYPED_LABEL_COUNTS:
                    out.append({"k": "cat", "lab": t, "n": n, "ns": 1, "vk": "mixed"})
                out.append({"k": "cat", "lab": t, "n": 3, "ns": 2, "vk": t})
        else:
            out.append({"k": kind, "lens": [3, 2], "vk": t})
            out.append({"k": kind, "lens": [1], "vk": t})
    if kind != "cat":
        return out, 2 * len(VALUE_NUM_TYPES)
    return out, (len(NUM_TYPES) * (1 + len(TYPED_VALUE_SERIES) + len(TYPED_LABEL_COUNTS))
                 + len(VALUE_ONLY_NUM_TYPES) * len(TYPED_VALUE_SERIES))


VIA_LABEL_KINDS = ["str", "float", "date_post"]  # one per category cache kind: strRef, numRef, numRef with dates


def via_shapes():
    """Flat categories put into the chart-data object by `categories = <iterable>` instead of add_category calls:
    every construction path of VIA_KINDS x one label kind per cache kind; one series (what every chart type,
    pie included, reports in full). Returns (specs, closed-form size)."""
    out = [{"k": "cat", "lab": lab, "n": 3, "ns": 1, "vk": "mixed", "via": via} for via in VIA_KINDS for lab in VIA_LABEL_KINDS]
    return out, len(VIA_KINDS) * len(VIA_LABEL_KINDS)


def replace_extra_shapes(kind, thorough):
    """Data given to ONE replace_data on a chart created from replace_base(kind) (1 series: the first new series
    re-uses the surviving c:ser, a second/third one is cloned), beyond the six history shapes: every ragged
    shape, the wide numeric label kinds, the numeric TYPE alphabet in every role (typed_number_shapes) and every
    category construction path (via_shapes). Returns (list of specs, closed-form size). XY/bubble: the typed
    shapes only (their series lengths are independent anyway: creation/history shapes enumerate them)."""
    typed, typed_size = typed_number_shapes(kind)
    if kind != "cat":
        return list(typed), typed_size
    out, size = ragged_shapes(thorough)
    out = list(out)
    for lab in ("int_wide", "float_wide"):
        for n in WIDE_REPLACE_COUNTS:
            out.append({"k": "cat", "lab": lab, "n": n, "ns": 2, "vk": "float"})
    via, via_size = via_shapes()
    return out + list(typed) + list(via), size + 2 * len(WIDE_REPLACE_COUNTS) + typed_size + via_size


def series_counts(thorough, allow_zero=True):
    counts = list(range(0, 51)) if thorough else [0, 1, 2, 3, 26, 27]
    return counts if allow_zero else [c for c in counts if c > 0]


def creation_shapes(kind, thorough, allow_zero=True):
    """The E2 input enumeration for one chart kind; returns (list of specs, closed-form size)."""
    out = []
    zero = [0] if allow_zero else []
    if kind == "cat":
        # A. leaf counts x label kinds x {0,1,3} series, mixed values
        a_counts = zero + [1, 3]
        for n in CAT_COUNTS:
            for lab in LABEL_KINDS:
                for ns in a_counts:
                    out.append({"k": "cat", "lab": lab, "n": n, "ns": ns, "vk": "mixed"})
        size = len(CAT_COUNTS) * len(LABEL_KINDS) * len(a_counts)
        # B. every uniform-depth forest within the bound x {1,2} series, values with holes
        ml, md = (6, 4) if thorough else (4, 3)
        for f in all_forests(ml, md):
            for ns in (1, 2):
                out.append({"k": "cat", "tree": f, "ns": ns, "vk": "holes"})
        size += all_forests_count(ml, md) * 2
        # C. series counts x {1,3} leaves x value kinds
        sc = series_counts(thorough, allow_zero)
        for ns in sc:
            for n in (1, 3):
                for vk in VALUE_KINDS:
                    out.append({"k": "cat", "lab": "str", "n": n, "ns": ns, "vk": vk})
        size += len(sc) * 2 * len(VALUE_KINDS)
        # D. custom number formats at the three places a format can be given
        for nf in NUMBER_FORMATS:
            out.append({"k": "cat", "lab": "str", "n": 2, "ns": 2, "vk": "float", "nf": nf})
            out.append({"k": "cat", "lab": "str", "n": 2, "ns": 2, "vk": "float", "snf": nf})
            out.append({"k": "cat", "lab": "float", "n": 2, "ns": 1, "vk": "int", "cnf": nf})
        size += len(NUMBER_FORMATS) * 3
        # E. the empty string is a string too
        out.append({"k": "cat", "labels": ["North", "", "South"], "ns": 1, "vk": "int"})
        size += 1
        # F. ragged data: per-series point counts that differ from the leaf count (and from each other)
        rag, rag_size = ragged_shapes(thorough)
        out.extend(rag)
        size += rag_size
        # G. the numeric TYPE alphabet as values, as labels, as both
        typed, typed_size = typed_number_shapes("cat")
        out.extend(typed)
        size += typed_size
        # H. categories assigned (`categories = iterable`) instead of added one by one
        via, via_size = via_shapes()
        out.extend(via)
        size += via_size
        return out, size
    # xy / bubble
    sc = series_counts(thorough, allow_zero)
    patterns = {"all3": lambda s: 3, "ragged": lambda s: (0, 1, 3)[s % 3], "all1": lambda s: 1, "all0": lambda s: 0}
    for ns in sc:
        for pname in ("all3", "ragged", "all1", "all0"):
            for vk in ("int", "float", "holes"):
                out.append({"k": kind, "lens": [patterns[pname](s) for s in range(ns)], "vk": vk})
    size = len(sc) * 4 * 3
    out.append({"k": kind, "lens": [300], "vk": "mixed"})
    out.append({"k": kind, "lens": [300, 1, 300], "vk": "holes"})
    size += 2
    for nf in NUMBER_FORMATS:
        out.append({"k": kind, "lens": [2, 2], "vk": "float", "nf": nf})
        out.append({"k": kind, "lens": [2, 2], "vk": "float", "snf": nf})
    size += len(NUMBER_FORMATS) * 2
    typed, typed_size = typed_number_shapes(kind)
    out.extend(typed)
    size += typed_size
    return out, size


def history_shapes(kind):
    """Six representative shapes per kind: smallest, holes, multi-level/ragged, dates+format, bigger, zero series."""
    if kind == "cat":
        return [
            {"k": "cat", "lab": "str", "n": 1, "ns": 1, "vk": "int"},
            {"k": "cat", "lab": "str", "n": 3, "ns": 3, "vk": "holes"},
            {"k": "cat", "tree": [[[], []], [[]]], "ns": 2, "vk": "float"},
            {"k": "cat", "lab": "date_post", "n": 2, "ns": 1, "vk": "float", "snf": "#,##0.00"},
            {"k": "cat", "lab": "float", "n": 5, "ns": 5, "vk": "mixed"},
            {"k": "cat", "lab": "str", "n": 3, "ns": 0, "vk": "int"},
        ]
    return [
        {"k": kind, "lens": [1], "vk": "int"},
        {"k": kind, "lens": [0, 1, 3], "vk": "float"},
        {"k": kind, "lens": [3, 3], "vk": "holes"},
        {"k": kind, "lens": [3], "vk": "float", "snf": "#,##0.00"},
        {"k": kind, "lens": [5, 4, 3, 2, 1], "vk": "mixed"},
        {"k": kind, "lens": [], "vk": "int"},
    ]


def chain_forest(depth, leaves=3):
    """A ragged forest of the given depth with `leaves` leaves: first top node carries leaves-1, second carries 1."""
    def chain(k, d):
        node = [[] for _ in range(k)]
        for _ in range(d - 2):
            node = [node]
        return node
    if depth == 1:
        return None
    return [chain(leaves - 1, depth), chain(1, depth)]


# C08 string alphabet: (text kind, text)
ODD_TEXTS = [
    ("formula-like", "=x"),
    ("formula-like", "=1+1"),
    ("url-like", "http://example.com/a"),
    ("url-like", "internal:Sheet1!A1"),
    ("at-sign", "@at"),
    ("numeric-looking", "12"),
    ("numeric-looking", "1e3"),
    ("numeric-looking", " 007"),
    ("empty", ""),
    ("plain", "West"),
    # characters XML 1.0 cannot carry: the unchanged library refuses the call (nothing is added, nothing to compare);
    # IF a call with such a label is accepted, cache and workbook must still agree
    ("unrepresentable", "Q1\x1bForecast"),
    ("unrepresentable", "tab\x0bsep"),
    ("unrepresentable", "end\uffff"),
]


def text_kind(text):
    """Classify a supplied string the way a content-sniffing spreadsheet writer could misread it."""
    import re
    if text == "":
        return "empty"
    if text.startswith("=") or (text.startswith("{=") and text.endswith("}")):
        return "formula-like"
    if re.match(r"(ftp|http)s?://", text) or text.startswith(("mailto:", "internal:", "external:")):
        return "url-like"
    if text.startswith("@"):
        return "at-sign"
    try:
        float(text)
        return "numeric-looking"
    except ValueError:
        return "plain"
