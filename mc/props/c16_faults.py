"""C16 fault model: enumeration and application of package irregularities (harness side only).

Nothing here imports pptx (except the synthetic deck builders, which use the public API to *make* a
deck, never to judge one).  A *case* is a JSON-able dict

    {"deck": <corpus name | synthetic:...>, "rename": {old: new} | None, "faults": [fault, ...],
     "byte": byte_fault | None, "form": "stream" | "path" | "dir"}

member-level faults edit the dict {member name: bytes}; byte-level faults (truncation, non-zip bytes,
no file) edit the serialised zip; `form` is how the input is handed to `pptx.Presentation`.
"""

from __future__ import annotations

import io
import itertools
import os
import zipfile

from lxml import etree

from mc.drivers import fixtures as fx
from mc.oracles import opc_ref

CT_NS = opc_ref.CT_NS
REL_NS = opc_ref.REL_NS
RT_CORE = "http://schemas.openxmlformats.org/package/2006/relationships/metadata/core-properties"
CT_MEMBER = "[Content_Types].xml"
UNKNOWN_CT = "application/vnd.verif.unknown-type"
NULL_TARGET = "NULL"  # the idiom python-pptx's own comment mentions ("/ppt/slides/NULL")

WRONG_MAIN = {
    "wml": "application/vnd.openxmlformats-officedocument.wordprocessingml.document.main+xml",
    "sml": "application/vnd.openxmlformats-officedocument.spreadsheetml.sheet.main+xml",
    "slide": "application/vnd.openxmlformats-officedocument.presentationml.slide+xml",
    # the PresentationML relatives of a presentation (template, show): their part class is the presentation's, the
    # library's api documents that only a presentation (or macro-enabled presentation) main part is opened
    "potx": "application/vnd.openxmlformats-officedocument.presentationml.template.main+xml",
    "ppsx": "application/vnd.openxmlformats-officedocument.presentationml.slideshow.main+xml",
}
PRESENTATION_MAIN_TYPES = (
    "application/vnd.openxmlformats-officedocument.presentationml.presentation.main+xml",
    "application/vnd.ms-powerpoint.presentation.macroEnabled.main+xml",
)

EXTRAS = {
    "declared": ("ppt/verifExtra/extra1.xml", b'<?xml version="1.0" encoding="UTF-8" standalone="yes"?>\n<extra xmlns="urn:verif"/>'),
    "undeclared": ("verifExtra/blob.verifbin", bytes(range(256)) * 3),
    "orphan-rels": ("ppt/_rels/verifGhost.xml.rels",
                    ('<?xml version="1.0" encoding="UTF-8" standalone="yes"?>\n<Relationships xmlns="%s">'
                     '<Relationship Id="rId1" Type="urn:verif:ghost" Target="presentation.xml"/></Relationships>' % REL_NS).encode()),
    "dir-entry": ("verifExtraDir/", b""),
}
NONZIP = {
    "empty": b"",
    "text": b"This is not a package.\nIt is a plain text file, long enough to be read as one.\n" * 4,
    "png": None,  # filled lazily (Pillow)
}


def _xml_bytes(root) -> bytes:
    return etree.tostring(root, xml_declaration=True, encoding="UTF-8", standalone=True)


def short(uri: str | None) -> str:
    """Stable short class name of a relationship type / content type for signatures."""
    if not uri:
        return "none"
    s = uri.rsplit("/", 1)[-1]
    for pfx in ("vnd.openxmlformats-officedocument.", "vnd.openxmlformats-package.", "vnd.ms-"):
        if s.startswith(pfx):
            s = s[len(pfx):]
    return s


def clean_members(members: dict) -> dict:
    """Members that are files (zip directory entries are not package items)."""
    return {k: v for k, v in members.items() if not k.endswith("/")}


# ---- decks ------------------------------------------------------------------------------------------

_DECKS: dict = {}


def _synthetic(name: str) -> bytes:
    if name == "synthetic:slides4":
        blob = fx.deck_with_slides(4)
    elif name == "synthetic:min2":
        # the smallest corpus deck plus two distinguishable slides: smallest deck on which slide
        # renames can be paired with every other fault
        prs = fx.open_prs(os.path.join(fx.FEATURE_FILES, "minimal.pptx"))
        for i in range(2):
            s = prs.slides.add_slide(prs.slide_layouts[0])
            tb = s.shapes.add_textbox(100 * (i + 1), 200, 3000, 400)
            tb.text_frame.text = "slide-%d" % (i + 1)
        blob = fx.save_bytes(prs)
    else:
        raise ValueError(name)
    # normalise zip metadata (time stamps) so that the bytes are a pure function of the content
    m = fx.zip_members(blob)
    return fx.write_zip(m)


def deck_bytes(name: str) -> bytes:
    b = _DECKS.get(name)
    if b is None:
        b = _synthetic(name) if name.startswith("synthetic:") else fx.read_bytes(os.path.join(fx.REPO, name))
        _DECKS[name] = b
    return b


_BASES: dict = {}


FLIP_LABELS = {"ext-case": "Default", "name-case": "Override"}


def base_members(deck: str, rename: dict | None, label: str | None = None):
    """(zip bytes, ordered members) of the deck, after the optional part rename.

    label in FLIP_LABELS: the rename is a case flip of a part NAME; [Content_Types].xml keeps the
    declarations exactly as they were (that difference is the irregularity)."""
    keep_ct = label in FLIP_LABELS
    key = (deck, tuple(sorted(rename.items())) if rename else None, keep_ct)
    hit = _BASES.get(key)
    if hit is None:
        blob = deck_bytes(deck)
        if rename:
            orig_ct = fx.zip_members(blob).get(CT_MEMBER)
            blob = fx.rename_members(blob, dict(rename))
            if keep_ct:
                m = fx.zip_members(blob)
                m[CT_MEMBER] = orig_ct
                blob = write_zip_stored(m)
        hit = (blob, fx.zip_members(blob))
        if len(_BASES) > 64:
            _BASES.clear()
        _BASES[key] = hit
    return hit


# ---- enumeration ------------------------------------------------------------------------------------

def slide_names(members: dict):
    """Slide part names in presentation order (from sldIdLst of the main part), or None."""
    ref = opc_ref.RefPackage(clean_members(members))
    main = ref.main_part()
    if main is None or not ref.has_part(main):
        return None
    try:
        root = etree.fromstring(ref.blob(main))
    except etree.XMLSyntaxError:
        return None
    ns = {"p": "http://schemas.openxmlformats.org/presentationml/2006/main", "r": opc_ref.R_NS}
    ids = root.xpath("p:sldIdLst/p:sldId/@r:id", namespaces=ns)
    rmap = {r.id: r for r in ref.rels(main)}
    out = []
    for i in ids:
        r = rmap.get(i)
        out.append(r.target if (r is not None and r.mode != "External") else None)
    return out


def _idx(partname: str) -> int:
    stem = partname.rsplit("/", 1)[1].rsplit(".", 1)[0]
    digits = "".join(ch for ch in stem if ch.isdigit())
    return int(digits)


def enum_renames(members: dict, max_slides=4):
    """Every assignment of the first <=4 slides (presentation order) to (a) a permutation of their own
    names, (b) a permutation of a name pool with a gap; identity excluded.  -> list of (label, mapping)."""
    names = slide_names(members)
    if not names or any(n is None for n in names):
        return []
    n = len(names)
    k = min(n, max_slides)
    sel = names[:k]
    own = sorted(_idx(x) for x in sel)
    maxall = max(_idx(x) for x in names)
    if k == n:
        gapped = [i + 1 for i in own[:-1]] + [maxall + 2]
    else:
        gapped = own[:-1] + [maxall + 2]
    out = []
    for label, pool in (("perm", own), ("gap", gapped)):
        for perm in itertools.permutations(pool):
            mapping = {}
            for old, new_i in zip(sel, perm):
                new = "/ppt/slides/slide%d.xml" % new_i
                if new != old:
                    mapping[old] = new
            if mapping:
                out.append((label, mapping))
    return out


def enum_name_flips(members: dict):
    """Case differences between a part NAME and its content-type declaration, per reachable part:
    typed by a Default -> the name's extension is case-swapped (image1.png -> image1.PNG), the Default stays;
    typed by an Override -> the whole part name is case-swapped, the Override's PartName stays.
    Member, .rels item name and every relationship target follow the new name (fixtures.rename_members).
    -> list of (label, mapping)"""
    ref = opc_ref.RefPackage(clean_members(members))
    out = []
    for pn in ref.reachable():
        ct, how = ref.content_type(pn)
        if how == "default":
            head, fn = pn.rsplit("/", 1)
            stem, ext = fn.rsplit(".", 1)
            new = "%s/%s.%s" % (head, stem, ext.swapcase())
            label = "ext-case"
        elif how == "override":
            new = pn.swapcase()
            label = "name-case"
        else:
            continue
        if new != pn and new[1:] not in members:
            out.append((label, {pn: new}))
    return out


def enum_member_faults(members: dict):
    """All single member-level faults of a deck; a pure function of the members."""
    ref = opc_ref.RefPackage(clean_members(members))
    reach = ref.reachable()
    main = ref.main_part()
    faults = []
    for src in ["/"] + reach:
        for r in ref.rels(src):
            if r.mode == "External":
                continue
            faults.append({"k": "retarget", "src": src, "rid": r.id, "cls": short(r.type)})
    for pn in reach:
        faults.append({"k": "del-part", "part": pn, "cls": "main" if pn == main else short(ref.content_type(pn)[0])})
    for src in ["/"] + reach:
        if opc_ref.rels_member_for(src) in members:
            cls = "package" if src == "/" else ("main" if src == main else short(ref.content_type(src)[0]))
            faults.append({"k": "del-rels", "part": src, "cls": cls})
    if CT_MEMBER in members:
        root = etree.fromstring(members[CT_MEMBER])
        for i, el in enumerate(root):
            if not isinstance(el.tag, str):
                continue
            if el.tag == "{%s}Default" % CT_NS:
                cls = "Default"
            elif el.tag == "{%s}Override" % CT_NS:
                cls = "Override"
            else:
                continue
            faults.append({"k": "ct-flip", "i": i, "cls": cls})
            faults.append({"k": "ct-unknown", "i": i, "cls": cls})
    for v in EXTRAS:
        faults.append({"k": "extra", "v": v, "cls": v})
    for r in ref.rels("/"):
        if r.type == RT_CORE and r.mode != "External" and ref.has_part(r.target):
            faults.append({"k": "no-core", "rid": r.id, "part": r.target, "cls": "part+rel"})
            break
    for v in WRONG_MAIN:
        faults.append({"k": "wrong-main", "v": v, "cls": v})
    faults.append({"k": "missing", "m": CT_MEMBER, "cls": "content-types"})
    return faults


def enum_dirname_retargets(members: dict):
    """Second form of a dangling target: the relationship is voided to the name of the main part's
    directory ("/ppt"), which is not a member of a zip and not a file of a directory-form package.
    In a zip this is the retarget fault again, so it is only enumerated together with form=dir."""
    ref = opc_ref.RefPackage(clean_members(members))
    main = ref.main_part()
    if main is None or main.count("/") < 2:
        return []
    dirname = "/" + main.split("/")[1]
    out = []
    for src in ["/"] + ref.reachable():
        for r in ref.rels(src):
            if r.mode != "External":
                out.append({"k": "retarget", "src": src, "rid": r.id, "to": dirname, "cls": "dirname"})
    return out


def footprint(f: dict, members: dict):
    """(deleted member names, edit locations (member, key)) of a fault — used to drop pairs in which
    one fault removes the location of the other (such a pair is one of the two single faults again)."""
    k = f["k"]
    if k == "retarget":
        return set(), {(opc_ref.rels_member_for(f["src"]), f["rid"])}
    if k == "del-part":
        return {f["part"][1:]}, set()
    if k == "del-rels":
        return {opc_ref.rels_member_for(f["part"])}, set()
    if k == "ct-flip":
        return set(), {(CT_MEMBER, (f["i"], "name"))}
    if k == "ct-unknown":
        return set(), {(CT_MEMBER, (f["i"], "type"))}
    if k == "extra":
        name = EXTRAS[f["v"]][0]
        return set(), ({(CT_MEMBER, "append")} if f["v"] == "declared" else set()) | {(name, "add")}
    if k == "no-core":
        return {f["part"][1:]}, {("_rels/.rels", f["rid"])}
    if k == "wrong-main":
        i = _main_override_index(members)
        return set(), {(CT_MEMBER, (i, "type") if i is not None else "append-main")}
    if k == "missing":
        return {f["m"]}, set()
    raise ValueError(k)


def compatible(fa, fb, members) -> bool:
    da, ea = footprint(fa, members)
    db, eb = footprint(fb, members)
    ma = {m for m, _ in ea}
    mb = {m for m, _ in eb}
    if da & (db | mb) or db & (da | ma):
        return False
    if ea & eb:
        return False
    return True


def _main_override_index(members):
    ref = opc_ref.RefPackage(clean_members(members))
    main = ref.main_part()
    if main is None or CT_MEMBER not in members:
        return None
    root = etree.fromstring(members[CT_MEMBER])
    for i, el in enumerate(root):
        if isinstance(el.tag, str) and el.tag == "{%s}Override" % CT_NS and (el.get("PartName") or "").lower() == main.lower():
            return i
    return None


# ---- application ------------------------------------------------------------------------------------

def apply_faults(members: dict, faults) -> dict:
    m = dict(members)
    for f in faults:
        _apply_one(m, f)
    return m


def _apply_one(m: dict, f: dict):
    k = f["k"]
    if k == "retarget":
        name = opc_ref.rels_member_for(f["src"])
        if name not in m:
            return
        root = etree.fromstring(m[name])
        for el in root:
            if isinstance(el.tag, str) and el.get("Id") == f["rid"] and el.get("TargetMode") != "External":
                el.set("Target", f.get("to") or NULL_TARGET)
        m[name] = _xml_bytes(root)
    elif k == "del-part":
        m.pop(f["part"][1:], None)
    elif k == "del-rels":
        m.pop(opc_ref.rels_member_for(f["part"]), None)
    elif k in ("ct-flip", "ct-unknown"):
        if CT_MEMBER not in m:
            return
        root = etree.fromstring(m[CT_MEMBER])
        el = root[f["i"]]
        if k == "ct-flip":
            attr = "Extension" if el.tag == "{%s}Default" % CT_NS else "PartName"
            el.set(attr, el.get(attr).swapcase())
        else:
            el.set("ContentType", UNKNOWN_CT)
        m[CT_MEMBER] = _xml_bytes(root)
    elif k == "extra":
        name, blob = EXTRAS[f["v"]]
        m[name] = blob
        if f["v"] == "declared" and CT_MEMBER in m:
            root = etree.fromstring(m[CT_MEMBER])
            el = etree.SubElement(root, "{%s}Override" % CT_NS)
            el.set("PartName", "/" + name)
            el.set("ContentType", "application/vnd.verif.extra+xml")
            m[CT_MEMBER] = _xml_bytes(root)
    elif k == "no-core":
        m.pop(f["part"][1:], None)
        if "_rels/.rels" in m:
            root = etree.fromstring(m["_rels/.rels"])
            for el in list(root):
                if isinstance(el.tag, str) and el.get("Id") == f["rid"]:
                    root.remove(el)
            m["_rels/.rels"] = _xml_bytes(root)
    elif k == "wrong-main":
        if CT_MEMBER not in m:
            return
        ref = opc_ref.RefPackage(clean_members(m))
        main = ref.main_part()
        if main is None:
            return
        root = etree.fromstring(m[CT_MEMBER])
        done = False
        for el in root:
            if isinstance(el.tag, str) and el.tag == "{%s}Override" % CT_NS and (el.get("PartName") or "").lower() == main.lower():
                el.set("ContentType", WRONG_MAIN[f["v"]])
                done = True
        if not done:
            el = etree.SubElement(root, "{%s}Override" % CT_NS)
            el.set("PartName", main)
            el.set("ContentType", WRONG_MAIN[f["v"]])
        m[CT_MEMBER] = _xml_bytes(root)
    elif k == "missing":
        m.pop(f["m"], None)
    else:
        raise ValueError(k)


# ---- serialisation ------------------------------------------------------------------------------------

def write_zip_stored(members) -> bytes:
    """Harness zip writer without compression (a legal package; several times cheaper than deflate)."""
    buf = io.BytesIO()
    with zipfile.ZipFile(buf, "w", zipfile.ZIP_STORED) as z:
        for name, data in members.items():
            zi = zipfile.ZipInfo(name, date_time=(1980, 1, 1, 0, 0, 0))
            zi.compress_type = zipfile.ZIP_STORED
            z.writestr(zi, data)
    return buf.getvalue()


def case_zip_bytes(case) -> tuple[bytes, dict]:
    """(zip bytes before the byte-level fault, members after the member-level faults).

    An input without member-level faults is the deck's own bytes (or fixtures.rename_members' output).
    A faulted input is re-zipped: deflated (fixtures.write_zip) when it is going to be truncated, stored
    otherwise (cost)."""
    blob, members = base_members(case["deck"], case.get("rename"), case.get("rename_label"))
    if case["faults"]:
        members = apply_faults(members, case["faults"])
        if case["form"] == "dir":
            blob = None
        elif case.get("byte"):
            blob = fx.write_zip(members)
        else:
            blob = write_zip_stored(members)
    return blob, members


def trunc_points(zbytes: bytes):
    """Truncation offsets: every member boundary and the middle of every member, the start and the
    middle of the central directory, the start and the middle of the end record, and len-1.
    -> list of (offset, region).  2*m + 4 points for m entries."""
    with zipfile.ZipFile(io.BytesIO(zbytes)) as z:
        offs = sorted(i.header_offset for i in z.infolist())
        start_dir = z.start_dir
    eocd = zbytes.rfind(b"PK\x05\x06")
    pts = []
    bounds = offs + [start_dir]
    for j, o in enumerate(offs):
        if o != 0:
            pts.append((o, "member-boundary"))
        pts.append((o + (bounds[j + 1] - o) // 2, "mid-member"))
    pts.append((start_dir, "central-dir-start"))
    pts.append((start_dir + (eocd - start_dir) // 2, "mid-central-dir"))
    pts.append((eocd, "end-record-start"))
    pts.append((eocd + (len(zbytes) - eocd) // 2, "mid-end-record"))
    pts.append((len(zbytes) - 1, "last-byte"))
    return pts


def n_trunc_points(n_entries: int) -> int:
    return 2 * n_entries + 4


def nonzip_bytes(v: str) -> bytes:
    if v == "png":
        if NONZIP["png"] is None:
            NONZIP["png"] = fx.make_image("PNG", size=(8, 8))
        return NONZIP["png"]
    return NONZIP[v]


def apply_byte_fault(zbytes: bytes, bf):
    if bf is None:
        return zbytes
    if bf["k"] == "trunc":
        return zbytes[: bf["at"]]
    if bf["k"] == "nonzip":
        return "emptydir" if bf["v"] == "emptydir" else nonzip_bytes(bf["v"])
    if bf["k"] == "nofile":
        return None
    raise ValueError(bf["k"])


_SEQ = [0]


def materialise(case, zbytes, members):
    """-> (argument for pptx.Presentation, cleanup callable, input for opc_ref.read or None)."""
    form = case["form"]
    _SEQ[0] += 1
    if form == "dir":
        d = os.path.join(fx.tmpdir(), "d%d" % _SEQ[0])
        os.makedirs(d)
        for name, blob in members.items():
            p = os.path.join(d, name)
            if name.endswith("/"):
                os.makedirs(p, exist_ok=True)
                continue
            os.makedirs(os.path.dirname(p), exist_ok=True)
            with open(p, "wb") as f:
                f.write(blob)
        import shutil
        return d, (lambda: shutil.rmtree(d, True)), d
    data = apply_byte_fault(zbytes, case.get("byte"))
    if form == "path":
        p = os.path.join(fx.tmpdir(), "f%d.pptx" % _SEQ[0])
        if data is None:
            return p, (lambda: None), None
        if data == "emptydir":
            os.makedirs(p)
            return p, (lambda: os.rmdir(p)), p
        with open(p, "wb") as f:
            f.write(data)

        def rm():
            try:
                os.remove(p)
            except OSError:
                pass
        return p, rm, data
    if data is None:
        raise ValueError("nofile needs form=path")
    return io.BytesIO(data), (lambda: None), data


def kind_label(case) -> str:
    """fault=<...> part of a signature: kinds with their location class, sorted, '+'-joined."""
    atoms = []
    if case.get("rename"):
        label = case.get("rename_label", "perm")
        atoms.append("name-flip(%s)" % FLIP_LABELS[label] if label in FLIP_LABELS else "rename(%s)" % label)
    for f in case["faults"]:
        atoms.append("%s(%s)" % (f["k"], f.get("cls", "")))
    bf = case.get("byte")
    if bf:
        atoms.append("%s(%s)" % (bf["k"], bf.get("region") or bf.get("v") or ""))
    if case["form"] != "stream":
        atoms.append(case["form"])
    return "+".join(sorted(atoms)) or "none"


def kinds_only(case) -> str:
    atoms = []
    if case.get("rename"):
        atoms.append("name-flip" if case.get("rename_label") in FLIP_LABELS else "rename")
    atoms += [f["k"] for f in case["faults"]]
    if case.get("byte"):
        atoms.append(case["byte"]["k"])
    if case["form"] != "stream":
        atoms.append(case["form"])
    return "+".join(sorted(atoms)) or "none"
