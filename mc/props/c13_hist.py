"""C13 part C: histories. Engine E1 (mc.core.explorer, replay mode).

Operations: add_slide(L) for three layouts of the template (0 Title Slide: ctrTitle+subTitle with own xfrm;
1 Title and Content: title inherits from the master, content placeholder of absent type; 10 Vertical Title and
Text: orient=vert), move (set left and top of a placeholder of the first / last created slide), resize (set width
and height), text (type into a placeholder), notes (access notes_slide and type text), save, and rename: the public call
`placeholder.name = first.name` on every placeholder of the three layouts (target=layouts) or of the notes master
(target=notes_master; `prs.notes_master` creates the default one when the deck has none), so that the slides / notes
slides made AFTERWARDS come from sources whose placeholders all share one name. The model does not change on rename:
the names of a slide's placeholders must be pairwise distinct whatever the source calls its own.

Reference model: list of created slides, each {layout part name, overrides {placeholder position: {attr: value}},
text, notes}. Invariant in EVERY state, in memory and after save + re-open: every created slide mirrors its own
layout (mc.props.c13_lib.check_mirror) with exactly the overridden attributes replaced; slides appear in creation
order after the initial slides; initial slides are c14n-unchanged; a slide with notes has a notes slide that
mirrors the notes master. At every add_slide transition the other slides are compared before/after.
"""

from __future__ import annotations

from mc.core import explorer
from mc.core.explorer import SKIP
from mc.drivers import fixtures as F
from mc.drivers import prs_ops, state
from mc.props import c13_lib as L
from mc.props.c13_lib import Failure

INITS = ["default", "two_slides", "out_of_order"]
LAYOUTS = [0, 1, 10]
MOVE = {"left": 123456, "top": 654321}
SIZE = {"width": 2222222, "height": 333333}

OPS = (
    [{"op": "add_slide", "layout": l} for l in LAYOUTS]
    + [{"op": "move", "slide": s, "ph": k} for s in ("first", "last") for k in (0, 1)]
    + [{"op": "resize", "slide": "last", "ph": 0}]
    + [{"op": "text", "slide": s, "ph": k} for s, k in (("first", 0), ("last", 1))]
    + [{"op": "notes", "slide": s} for s in ("first", "last")]
    + [{"op": "save"}]
    + [{"op": "rename", "target": t} for t in ("layouts", "notes_master")]
)


class Live:
    def __init__(self, init):
        self.init = init
        self.blob = prs_ops.initial_blob(init)
        self.prs = F.open_prs(self.blob)
        self.snap0 = L.slides_snapshot(self.prs)
        self.n0 = len(self.snap0)
        self.model = []
        self.fails = []


_EXP = {}


def _exp(live, lpn):
    k = (live.init, lpn)
    if k not in _EXP:
        _EXP[k] = L.layout_exp_from_members(F.zip_members(live.blob), lpn)
    return _EXP[k]


def _created(live, which):
    if not live.model:
        return None, None
    j = 0 if which == "first" else len(live.model) - 1
    return j, live.prs.slides[live.n0 + j]


def _ph(slide, k):
    phs = [sh for sh in slide.shapes if sh.is_placeholder]
    return phs[k] if k < len(phs) else None


class System:
    name = "c13-histories"

    def __init__(self, inits=None):
        self._inits = inits or INITS

    def initials(self):
        return list(self._inits)

    def build(self, name):
        return Live(name)

    def ops(self, level):
        return OPS

    def apply(self, live, op):
        prs = live.prs
        kind = op["op"]
        if kind == "add_slide":
            layout = prs.slide_layouts[op["layout"]]
            lpn = str(layout.part.partname)
            before = L.slides_snapshot(prs)
            try:
                slide = prs.slides.add_slide(layout)
            except Exception as e:  # noqa: BLE001
                live.fails.append(Failure("add-slide-raised", [("type", "template-layout-%d" % op["layout"]), ("exc", type(e).__name__)], repr(e)))
                return "raised:" + type(e).__name__
            live.fails += L.check_position(prs, slide, layout, before)
            live.model.append({"layout": lpn, "overrides": {}, "text": {}, "notes": None})
            return "ok:%d-slides" % min(len(live.model), 3)
        if kind == "save":
            F.save_bytes(prs)
            return "ok"
        if kind == "rename":
            if op["target"] == "layouts":
                colls = [prs.slide_layouts[l].placeholders for l in LAYOUTS]
            else:
                colls = [prs.notes_master.placeholders]
            n = 0
            for coll in colls:
                phs = list(coll)
                for p in phs[1:]:
                    if p.name != phs[0].name:
                        n += 1
                    p.name = phs[0].name
            return "ok:%s" % ("renamed" if n else "no-change")
        j, slide = _created(live, op["slide"])
        if slide is None:
            return SKIP
        rec = live.model[j]
        if kind == "notes":
            had = slide.has_notes_slide
            slide.notes_slide.notes_text_frame.text = "note %d" % j
            rec["notes"] = "note %d" % j
            return "had=%s" % had
        sh = _ph(slide, op["ph"])
        if sh is None:
            return SKIP
        if kind in ("move", "resize"):
            vals = MOVE if kind == "move" else SIZE
            for a, v in vals.items():
                setattr(sh, a, v)
            rec["overrides"].setdefault(op["ph"], {}).update(vals)
            return "ok:%s" % ("first-override" if len(rec["overrides"][op["ph"]]) == 2 else "both")
        if kind == "text":
            if not sh.has_text_frame:
                return SKIP
            sh.text_frame.text = "typed %d" % op["ph"]
            rec["text"][op["ph"]] = "typed %d" % op["ph"]
            return "ok"
        raise ValueError(kind)

    def canon(self, live):
        flags = state.cache_flags(live.prs.part.package)
        live.saved = F.save_bytes(live.prs)
        return (state.package_digest(live.saved), flags)

    def check(self, live, init, hist, part):
        fails = list(live.fails)
        fails += _check_deck(live, live.prs, None, "memory")
        seen = {f.key() for f in fails}
        try:
            saved = getattr(live, "saved", None) or F.save_bytes(live.prs)
            prs2 = F.open_prs(saved)
            fails += L.mark_after(_check_deck(live, prs2, F.zip_members(saved), "reopen"), seen, "reopen")
        except Exception as e:  # noqa: BLE001
            fails.append(Failure("save-reopen-raised", [("exc", type(e).__name__)], repr(e)))
        if len(hist) >= 2:
            part.count("nontrivial_count")
        hs = ">".join(o["op"] + "(" + ",".join("%s=%s" % (k, v) for k, v in sorted(o.items()) if k != "op") + ")" for o in hist)
        done = set()
        for f in fails:
            f.attrs = list(f.attrs) + [("ctx", "history")]
            sig = f.sig()
            if sig in done:
                continue
            done.add(sig)
            part.violation(sig, ("init=%s history=%s: %s" % (init, hs, f.detail))[:600],
                           {"kind": "hist", "init": init, "history": hist, "signature": sig})


def _check_deck(live, prs, members, stage):
    fails = []
    try:
        snap = L.slides_snapshot(prs)
    except Exception as e:  # noqa: BLE001
        return [Failure("slides-raised", [("exc", type(e).__name__)], repr(e))]
    if len(snap) != live.n0 + len(live.model):
        return [Failure("slide-count", [], "%d slides, model has %d" % (len(snap), live.n0 + len(live.model)))]
    if [d for _, d in snap[:live.n0]] != [d for _, d in live.snap0] or [i for i, _ in snap[:live.n0]] != [i for i, _ in live.snap0]:
        fails.append(Failure("other-slide-changed", [("which", "initial")], "initial slides changed (ids/digests %r -> %r)" % (live.snap0, snap[:live.n0])))
    if len({i for i, _ in snap}) != len(snap):
        fails.append(Failure("slide-id-dup", [], "slide ids %r" % ([i for i, _ in snap],)))
    for j, rec in enumerate(live.model):
        slide = prs.slides[live.n0 + j]
        try:
            layout = slide.slide_layout
            lpn = str(layout.part.partname)
        except Exception as e:  # noqa: BLE001
            fails.append(Failure("layout-rel", [("exc", type(e).__name__)], repr(e)))
            continue
        if lpn != rec["layout"]:
            fails.append(Failure("layout-rel", [], "created slide %d is related to %s, was added from %s (order broken?)" % (j, lpn, rec["layout"])))
            continue
        exp = _exp(live, lpn) if members is None else L.layout_exp_from_members(members, lpn)
        fl = L.check_mirror(slide, layout, exp, overrides=rec["overrides"])
        if rec["overrides"]:
            for f in fl:
                if f.rule.startswith("geometry"):
                    f.attrs = list(f.attrs) + [("slide-overrides", "+".join(sorted({a for o in rec["overrides"].values() for a in o})))]
        fails += fl
        phs = [sh for sh in slide.shapes if sh.is_placeholder]
        for k, t in rec["text"].items():
            if k < len(phs) and phs[k].text_frame.text != t:
                fails.append(Failure("text-lost", [], "placeholder %d of created slide %d reads %r, typed %r" % (k, j, phs[k].text_frame.text, t)))
        if rec["notes"] is not None:
            if not slide.has_notes_slide:
                fails.append(Failure("notes-lost", [], "created slide %d lost its notes slide" % j))
            else:
                from mc.props.c13 import _saved_notes_master, check_notes_mirror
                ns = slide.notes_slide
                mblob = _saved_notes_master(members) if members is not None else prs.notes_master.part.blob
                fails += check_notes_mirror(ns, mblob)
                tf = ns.notes_text_frame
                if tf is None or tf.text != rec["notes"]:
                    fails.append(Failure("notes-text", [], "notes of created slide %d read %r, typed %r" % (j, None if tf is None else tf.text, rec["notes"])))
        elif slide.has_notes_slide:
            fails.append(Failure("notes-unexpected", [], "created slide %d has a notes slide nobody asked for" % j))
    return fails


def run(ctx):
    depth = 4 if ctx.thorough else 3
    ctx.extra["alphabet"] = [explorer.opkey(o) for o in OPS]
    explorer.explore(ctx, System(), depth, name="c13-histories")
