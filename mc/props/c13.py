"""C13 — a new slide mirrors its layout's placeholders and inherits their geometry.

Engine E2 (parts A, B, N) + engine E1 replay-mode BFS (part C, mc/props/c13_hist.py).

 A. every layout reachable from a master in every corpus deck: fresh open, `prs.slides.add_slide(layout)`, oracle;
    then the same on a second fresh open after every placeholder of the layout has been renamed to the name of the
    first one by public calls (`placeholder.name = first.name`): 2 evaluations per layout.
 B. generated layouts: the placeholder population of layouts of the default template is replaced harness-side
    (string templates + zipfile; mc/props/c13_gen.py) by every population of the closed-form spaces below;
    master variants 'template' (title, body, dt, ftr, sldNum present) and 'bare' (no master placeholder).
    The NAMES of the layout's placeholders are a dimension of the populations: per member D (distinct 'Gen k') | S (one
    shared literal) | E (empty) | G (the name the library generates for another clone of the population, e.g. 'Title 1')
    | O (its own generated name, singles); populations of one: {E, O}; pairs: the 9 vectors SS EE GG DE ED DG GD EG GE
    (every class of {D,S,E,G}^2 not equivalent to DD) x types^2 x orient vectors x idx vectors; triples (thorough):
    SSS SSD SDS DSS x types^3. All other spaces carry distinct names (DD..).
 N. notes slides: `slide.notes_slide` on a new slide of every corpus deck (notes master of the deck, or the
    default one python-pptx creates), the same again after the notes master's placeholders were renamed to one name by
    public calls, and on generated notes-master populations (singles: 17 types x 2 orient x 4 idx x 2 xfrm x 4 sz;
    ordered pairs over {sldImg, body, sldNum, hdr, dt, ftr}^2 x idx^2 (2 idx values | all 4) x xfrm^2; names: singles
    17 x 2 orient x {E, O}, pairs 6^2 x 9 name vectors x 1 | 4 idx vectors).
 C. histories (BFS depth 3 | 4): add_slide(L) for three layouts, move / resize a placeholder, type text, notes,
    save, rename (all placeholders of the three layouts | of the notes master get one name by public calls); every
    slide created so far is re-checked in every state, overridden attributes taken from the model.

Oracle (mc/props/c13_lib.py). The expected placeholder list is computed from the layout part's XML by a bare-lxml
reader (p:sp|p:pic|p:graphicFrame children of the shape tree with p:nvPr/p:ph, document order, minus dt/ftr/sldNum;
schema defaults type 'obj', idx 0, orient 'horz', sz 'full'). The slide part's XML (bare reading of `part.blob`)
must show the same (type, idx, orient, sz) one-for-one in the same document order; `slide.shapes` /
`slide.placeholders` / `placeholder_format` must agree; names pairwise distinct and non-empty (slides: rule 'names',
notes slides: 'notes-names'; both in memory and after save + re-open, in parts A, B, N and in every state of C; the
source's own names are never consulted by the oracle); each slide placeholder reports
left/top/width/height = its layout counterpart's own a:xfrm numbers, else those of the first master placeholder
of the base type (title/ctrTitle -> title; dt, ftr, sldNum -> same; otherwise body), else None; and (differential)
what python-pptx reads for the layout placeholder itself; the slide is last, related to the layout, slide ids are
distinct, every other slide's c14n is unchanged; everything again after save + re-open (expected side re-read
from the saved zip).

Deviations from DESIGN / weaker readings chosen on purpose:
 * "same order" is demanded of the slide's shape tree (document order); `slide.placeholders` is documented to
   iterate in idx order, so only its multiset is compared.
 * when several placeholders of a layout share one idx (only generated populations: equal idx, or absent next to
   0) "its layout counterpart" is ambiguous (by position / by idx); the weaker reading is used: the geometry of any
   layout placeholder with that idx is accepted. The number of such cases where the positional reading would have
   failed is reported as coverage.dup_idx_positional_mismatch (informational).
 * hdr and sldImg do not occur on slide masters; for them the master placeholder of the same type is accepted as
   well as the body placeholder.
 * ELEMENT FORM of the layout placeholder (the corpus has no p:pic / p:graphicFrame layout placeholder): generated
   placeholders are p:sp, except in the spaces singles_forms (8 (form, type): p:pic for pic, clipArt, media, absent;
   p:graphicFrame for tbl, chart, dgm, absent; x 2 orient x 4 idx x 4 sz x {(xfrm, template), (xfrm, bare), (no xfrm,
   bare)}) and pairs_forms (8 (form, type) with explicit geometry next to a p:sp of each of the 17 types x 2 xfrm, both
   document orders). The same oracle applies: the clone is a placeholder of the same type/idx/orient/sz in the same
   place, reporting the geometry of its layout counterpart. A non-p:sp layout placeholder WITHOUT geometry of its own
   under a master that has a body placeholder is not enumerated: the library then reports None instead of the
   master's geometry (probed; the layout proxy of such an element is a plain Picture / GraphicFrame without the
   master fallback), a document state PowerPoint does not write for a filled placeholder.
   19 "schema types" in DESIGN is 16 in pml.xsd; 'type absent' is enumerated as a 17th value.
 * the cross product is reduced for pairs (quick: 4 idx vectors (a,a),(a,1),(1,1),(10,1), sz absent, template master;
   thorough: idx^2 in full, plus sz (half,quarter) on the bare master for the 4 idx vectors) and for triples (thorough:
   17^3 types x 2 orient vectors x 3 idx vectors x 2 xfrm vectors); singles are the full product. The closed forms are
   asserted against the number of evaluations (coverage.spaces).
 * batching: up to 11 generated populations share one deck (one per layout of the template) to amortise open /
   save / re-open; after an add_slide that raises, the deck is discarded and re-opened. Replay uses a deck with
   the single population for failures computed from the new slide and its layout alone; a context-dependent failure
   (position, other slides, re-open) that the single-population deck does not show is recorded with the whole batch.
"""

from __future__ import annotations

import os

from mc.core import explorer
from mc.core.parallel import fanout
from mc.core.run import HarnessError
from mc.drivers import fixtures as F
from mc.props import c13_gen as G
from mc.props import c13_lib as L
from mc.props.c13_lib import Failure

LEVEL = "model_checking"
RULE = ("A: every (corpus deck, master, layout); non-trivial = layout with >= 1 non-latent placeholder, distinct by "
        "(deck, layout part). B: generated populations, closed forms in coverage.spaces (singles: 17 types x 2 orient x "
        "4 idx x 2 xfrm x 4 sz x 2 masters; pairs quick: 17^2 x 2^2 orient x 4 idx vectors x 2^2 xfrm; pairs thorough: 17^2 x 2^2 x "
        "4^2 x 2^2 + 17^2 x 2^2 x 4 x 2^2 with sz (half,quarter) on the bare master; triples: 17^3 x 2 x 3 x 2; "
        "source-placeholder names: singles 17 x 2 orient x {E,O}; pairs quick 17^2 x 2 orient vectors x 1 idx vector x 9 name "
        "vectors, thorough 17^2 x 2^2 x 4 idx vectors x 9; triples thorough 17^3 x 4 name vectors; element forms p:pic / "
        "p:graphicFrame: singles 8 (form,type) x 2 orient x 4 idx x 4 sz x 3 (xfrm,master), pairs 8 x 17 types x 2 xfrm x 2 orders); "
        "non-trivial = population with >= 1 non-latent placeholder (distinct by construction). A also evaluates every "
        "corpus layout a second time with its placeholders renamed to one name by public calls. N: notes slide on every "
        "corpus deck (as shipped + notes-master placeholders renamed to one name) + generated notes-master populations "
        "(incl. name vectors: 17 x 2 x {E,O} singles, 6^2 x 9 x 1|4 idx vectors pairs); non-trivial = notes master with >= 1 cloned type. "
        "C: BFS over histories (replay mode), distinct canonical states; non-trivial = history with >= 2 operations.")
ASSUMPTIONS = [
    "trusted: lxml parsing/c14n, zipfile, mc.oracles.opc_ref (relationship resolution), pml.xsd token list",
    "generated layouts: types from ST_PlaceholderType plus 'absent'; idx in {absent,0,1,4294967295}; p:sp placeholders, and p:pic / "
    "p:graphicFrame forms for the 8 (form, type) combinations of coverage.element_forms in the spaces singles_forms / pairs_forms "
    "(a non-p:sp layout placeholder without own geometry only on the bare master)",
    "source-placeholder names: letters D/S/E/G/O as in mc/props/c13_gen.py; the 'G'/'O' literals come from a base-name table "
    "that is input generation only (its hit rate against the library is coverage.generated_name_prediction, never a verdict); "
    "name vectors are crossed with types (and orient) in full, with idx / xfrm / sz / master only at the points listed in RULE",
    "an empty name on a slide / notes-slide placeholder counts as not uniquely named",
    "duplicate idx inside one layout: weaker reading (any layout placeholder with that idx)",
    "part C alphabet and depth as listed in coverage.alphabet / coverage.bfs",
    "notes base deck (slide + default notes master) is constructed with python-pptx, then edited harness-side",
]

CORPUS_LAYOUT_FLOOR = 160
MAX_WHAT = 600


# ---- reporting ------------------------------------------------------------------------------------------

def _report(part, fails, where, replay):
    for f in fails:
        sig = f.sig()
        rp = dict(replay)
        rp["signature"] = sig
        part.violation(sig, ("%s: %s" % (where, f.detail))[:MAX_WHAT], rp)


def _match(fails, data):
    sig = data.get("signature")
    for f in fails:
        if sig is None or f.sig() == sig:
            return f.detail
    return None


# ---- the single evaluation used by A and B -----------------------------------------------------------------

def _add_and_check(prs, layout, exp, part=None, snap=None):
    """add_slide(layout) on a live deck + in-memory oracle. Returns (slide | None, [Failure]). `snap`: a one-item
    list carrying slides_snapshot(prs) from the previous addition to the next (nothing happens in between)."""
    try:
        before = snap[0] if snap and snap[0] is not None else L.slides_snapshot(prs)
    except Exception as e:  # noqa: BLE001
        return None, [Failure("slides-raised", [("exc", type(e).__name__)], "iterating prs.slides raised %r" % (e,))]
    if snap:
        snap[0] = None
    try:
        slide = prs.slides.add_slide(layout)
    except Exception as e:  # noqa: BLE001
        if part is not None:
            part.outcome("add_slide", "raised:" + type(e).__name__)
        types = [p["type"] for p in exp.phs]
        return None, [Failure("add-slide-raised", [("type", "+".join(types)), ("exc", type(e).__name__)],
                              "add_slide raised %r for a layout with placeholders %r" % (e, [L.key4(p) for p in exp.phs]))]
    if part is not None:
        part.outcome("add_slide", "ok:%d-placeholders" % min(len(exp.clone), 4))
    after = []
    fails = L.check_mirror(slide, layout, exp) + L.check_position(prs, slide, layout, before, after)
    if snap and len(after) == len(before) + 1:
        snap[0] = after
    return slide, fails


def _recheck_saved(prs, expected, mem_fails):
    """Save + re-open; `expected` = [(position from the end is implied by order) (slide index, layout part name)].
    Returns {slide index: [Failure]} for failures that the in-memory stage did not already report."""
    out = {si: [] for si, _ in expected}
    try:
        saved = F.save_bytes(prs)
        members = F.zip_members(saved)
        prs2 = F.open_prs(saved)
        slides2 = list(prs2.slides)
        order, related = L.saved_slide_order(members)
    except Exception as e:  # noqa: BLE001
        for si, _ in expected:
            out[si].append(Failure("save-reopen-raised", [("exc", type(e).__name__)], "save / re-open raised %r" % (e,)))
        return out
    for si, lpn in expected:
        seen = {f.key() for f in mem_fails.get(si, [])}
        fails = []
        if si >= len(slides2) or si >= len(order):
            fails.append(Failure("slide-count", [], "re-opened deck has %d slides, expected index %d" % (len(slides2), si)))
            out[si] = L.mark_after(fails, seen, "reopen")
            continue
        s2 = slides2[si]
        got_lpn = L.saved_slide_layout(members, order[si]) if order[si] else None
        if got_lpn != lpn:
            fails.append(Failure("layout-rel", [], "saved slide %s is related to layout %s, added from %s" % (order[si], got_lpn, lpn)))
        try:
            layout2 = s2.slide_layout
            if str(layout2.part.partname) != lpn:
                fails.append(Failure("layout-rel", [], "re-opened slide.slide_layout is %s, added from %s" % (layout2.part.partname, lpn)))
            exp2 = L.layout_exp_from_members(members, lpn)
            fails += L.check_mirror(s2, layout2, exp2)
        except Exception as e:  # noqa: BLE001
            fails.append(Failure("reopen-read-raised", [("exc", type(e).__name__)], repr(e)))
        out[si] = L.mark_after(fails, seen, "reopen")
    return out


# ---- part A ------------------------------------------------------------------------------------------------

def corpus_layouts():
    out = []
    for path in F.corpus():
        prs = F.open_prs(path)
        for mi, m in enumerate(prs.slide_masters):
            for li in range(len(m.slide_layouts)):
                out.append([F.corpus_name(path), mi, li])
    return out


def share_names(placeholders):
    """Public calls only: every placeholder of the collection is given the name of the first one
    (`placeholder.name = first.name`). Returns the number of placeholders renamed."""
    phs = list(placeholders)
    for p in phs[1:]:
        p.name = phs[0].name
    return max(len(phs) - 1, 0)


def eval_corpus(rel, mi, li, repeat=1, part=None, names=None):
    """names: None (layout as shipped) | 'shared' (before add_slide every placeholder of the layout is renamed to the
    name of the first one through the public API)."""
    blob = F.read_bytes(os.path.join(F.REPO, rel))
    members = F.zip_members(blob)
    prs = F.open_prs(blob)
    layout = prs.slide_masters[mi].slide_layouts[li]
    lpn = str(layout.part.partname)
    exp = L.layout_exp_from_members(members, lpn)
    if names == "shared":
        try:
            share_names(layout.placeholders)
        except Exception as e:  # noqa: BLE001
            return [Failure("layout-rename-raised", [("exc", type(e).__name__)], "layout placeholder.name = ... raised %r" % (e,))], exp
    n0 = len(prs.slides)
    other0 = L.slides_snapshot(prs)
    fails, mem, expected = [], {}, []
    for r in range(repeat):
        slide, f = _add_and_check(prs, layout, exp, part)
        if r:
            for x in f:
                x.attrs = list(x.attrs) + [("addition", "repeated")]
        mem[n0 + r] = f
        fails += f
        if slide is None:
            break
        expected.append((n0 + r, lpn))
    if expected:
        for si, fl in _recheck_saved(prs, expected, mem).items():
            fails += fl
        # the deck's original slides after the round trip: unchanged
        try:
            again = L.slides_snapshot(F.reopen(prs))[:n0]
            if [d for _, d in again] != [d for _, d in other0]:
                fails.append(Failure("other-slide-changed", [("after", "reopen")], "original slides differ after add_slide + save + re-open"))
        except Exception as e:  # noqa: BLE001
            fails.append(Failure("save-reopen-raised", [("exc", type(e).__name__)], repr(e)))
    # de-duplicate by signature
    seen, uniq = set(), []
    for f in fails:
        if f.sig() not in seen:
            seen.add(f.sig())
            uniq.append(f)
    return uniq, exp


def _work_corpus(part, chunk):
    for rel, mi, li, repeat in chunk:
        part.count("evaluations")
        part.count("corpus_layouts")
        fails, exp = eval_corpus(rel, mi, li, repeat, part)
        if exp.clone:
            part.add("nontrivial", ("A", rel, mi, li))
        # the same layout once more with its placeholders renamed to ONE name by public calls; only what the
        # as-shipped run did not show already is reported from it
        part.count("evaluations")
        part.count("corpus_layouts_shared_names")
        if len(exp.clone) >= 2:
            part.count("corpus_layouts_shared_names_2plus_clones")
        shown = {f.sig() for f in fails}
        fails2, _ = eval_corpus(rel, mi, li, repeat, None, names="shared")
        _report(part, [f for f in fails2 if f.sig() not in shown], "corpus %s master %d layout %d, placeholders renamed to one name" % (rel, mi, li),
                {"kind": "corpus", "deck": rel, "master": mi, "layout": li, "repeat": repeat, "names": "shared"})
        for i in exp.clone:
            ph = exp.phs[i]
            part.add("corpus_kinds", (ph["type"], ph["orient"], ph["sz"]))
            part.outcome("geometry_source", "own-xfrm" if ph["has_xfrm"] else ("master" if any(v is not None for v in exp.eff[i]) else "none"))
            if len(exp.same_idx(i)) > 1:
                part.count("corpus_dup_idx_placeholders")
        _report(part, fails, "corpus %s master %d layout %d" % (rel, mi, li),
                {"kind": "corpus", "deck": rel, "master": mi, "layout": li, "repeat": repeat})
        if li == 1 and mi == 0 and rel.endswith("default.pptx"):
            part.sample({"part": "A", "deck": rel, "layout": li, "expected": [L.key4(exp.phs[i]) for i in exp.clone],
                         "geometry": [exp.eff[i] for i in exp.clone]})


# ---- part B ------------------------------------------------------------------------------------------------

def _pop_exp(pop, master):
    b = G.base()
    mblob = (b["members"] if master == "template" else b["bare"])[b["master"][1:]]
    return L.LayoutExp(G.layout_xml(pop), mblob)


def eval_gen_batch(pops, master, part=None):
    """Evaluate up to batch_size() populations in one deck. Returns ([ [Failure] per population ], [LayoutExp])."""
    blob, lpns = G.build_deck(pops, master)
    exps = [_pop_exp(p, master) for p in pops]
    res = [[] for _ in pops]

    def fresh():
        prs = F.open_prs(blob)
        for i, pn in enumerate(lpns):
            if str(prs.slide_layouts[i].part.partname) != pn:
                raise HarnessError("layout order: python-pptx layout %d is %s, bare reading says %s" % (i, prs.slide_layouts[i].part.partname, pn))
        return prs

    def flush(prs, seg, mem):
        if not seg:
            return
        back = _recheck_saved(prs, [(pos, lpns[i]) for pos, i in enumerate(seg)], {pos: mem[i] for pos, i in enumerate(seg)})
        for pos, i in enumerate(seg):
            res[i] += back[pos]

    prs, seg, mem, snap = fresh(), [], {}, [None]
    for i in range(len(pops)):
        slide, f = _add_and_check(prs, prs.slide_layouts[i], exps[i], part, snap)
        res[i] += f
        mem[i] = f
        if slide is None:
            flush(prs, seg, mem)
            prs, seg, snap = fresh(), [], [None]
            continue
        seg.append(i)
    flush(prs, seg, mem)
    return res, exps


_SINGLE_FAILS = {}


def _single_fails(spec, master):
    """Failures of the layout holding only `spec` (memoised per worker): [(rule, attrs)]."""
    # the failures attributed to a member (raising add_slide / geometry) do not depend on its name, but on its element form
    spec = list(spec[:5]) + ([None, G.spec_form(spec)] if G.spec_form(spec) != "sp" else [])
    k = (tuple(spec), master)
    if k not in _SINGLE_FAILS:
        res, _ = eval_gen_batch([[list(spec)]], master)
        _SINGLE_FAILS[k] = [(f.rule, list(f.attrs)) for f in res[0]]
    return _SINGLE_FAILS[k]


def _attribute(pop, master, fails, exp=None):
    """Minimal witness: a failure of a population of two or more that a member's singleton population shows as
    well is reported under the singleton's signature. add-slide-raised: first member whose singleton raises the
    same exception; geometry-raised: the placeholder itself, else a member sharing its idx (the by-idx lookup may
    resolve to that one)."""
    if len(pop) == 1:
        return fails
    for f in fails:
        if f.rule == "add-slide-raised":
            exc = dict(f.attrs)["exc"]
            for spec in pop:
                hit = [a for r, a in _single_fails(spec, master) if r == f.rule and dict(a).get("exc") == exc]
                if hit:
                    f.attrs = hit[0]
                    break
        elif f.rule in ("geometry-raised", "layout-geometry-raised") and f.pos is not None and f.pos < len(pop):
            exc = dict(f.attrs).get("exc")
            tail = [kv for kv in f.attrs if kv[0] in ("after",)]
            eff_idx = lambda sp: sp[2] or 0  # noqa: E731
            cands = [f.pos] + [j for j in range(len(pop)) if j != f.pos and eff_idx(pop[j]) == eff_idx(pop[f.pos])]
            for j in cands:
                hit = [a for r, a in _single_fails(pop[j], master) if r in ("geometry-raised", "layout-geometry-raised") and dict(a).get("exc") == exc]
                if hit:
                    f.rule = "geometry-raised"
                    f.attrs = [kv for kv in hit[0] if kv[0] != "after"] + tail
                    break
            else:
                f.attrs = list(f.attrs) + [("with", "+".join(sp[0] or "obj" for sp in pop))]
    return fails


def _dup_positional_mismatch(exp):
    """Informational: number of cloned placeholders sharing their idx with an earlier layout placeholder that
    has a different effective geometry (the by-position reading of 'counterpart' would disagree with by-idx)."""
    n = 0
    for i in exp.clone:
        first = exp.same_idx(i)[0]
        if first != i and exp.eff[first] != exp.eff[i]:
            n += 1
    return n


LOCAL_RULES = ("add-slide-raised", "mirror-count", "mirror", "mirror-api-count", "mirror-api", "mirror-api-collection",
               "names", "names-api", "geometry-raised", "geometry", "layout-geometry-raised", "geometry-differential",
               "placeholders-raised", "layout-placeholders-raised")


def _is_local(f):
    """Failure computed in memory from the slide object add_slide returned and its layout only."""
    return f.rule in LOCAL_RULES and not any(k == "after" for k, _ in f.attrs)


def _work_gen(part, chunk):
    for master, cases in chunk:
        pops = [c for c in cases]
        res, exps = eval_gen_batch(pops, master, part)
        for bi, (pop, fails, exp) in enumerate(zip(pops, res, exps)):
            part.count("evaluations")
            part.count("generated_populations_%d" % len(pop))
            if exp.clone:
                part.count("nontrivial_count")
            if any(exp.phs[i]["tag"] != "sp" for i in exp.clone):
                part.count("non_sp_form_populations")
            src_names = [exp.phs[i]["name"] for i in exp.clone]
            if len(set(src_names)) != len(src_names):
                part.count("dup_source_name_populations")
            if any(not n for n in src_names):
                part.count("empty_source_name_populations")
            if any(len(exp.same_idx(i)) > 1 for i in exp.clone):
                part.count("dup_idx_populations")
                if _dup_positional_mismatch(exp):
                    part.count("dup_idx_positional_mismatch")
            for i in exp.clone:
                part.outcome("geometry_source", "own-xfrm" if exp.phs[i]["has_xfrm"] else ("master" if any(v is not None for v in exp.eff[i]) else "none"))
            if pop in SAMPLE_POPS and master == "template":
                part.sample({"part": "B", "population": pop, "master": master, "expected": [L.key4(exp.phs[i]) for i in exp.clone],
                             "geometry": [exp.eff[i] for i in exp.clone], "failures": [f.sig() for f in fails]})
            if not fails:
                continue
            _attribute(pop, master, fails)
            single_sigs = None
            done = set()
            where = "generated layout %r master=%s" % (pop, master)
            for f in fails:
                sig = f.sig()
                if sig in done:
                    continue
                done.add(sig)
                if not _is_local(f):
                    # context-dependent rule: minimal replay is the single-population deck if it shows the same,
                    # else the whole batch (several slides in one deck are needed to see it)
                    if single_sigs is None:
                        sres, _ = eval_gen_batch([pop], master)
                        single_sigs = {x.sig() for x in _attribute(pop, master, sres[0])}
                    if sig not in single_sigs:
                        _report(part, [f], where + " (slide %d of a deck with %d generated layouts)" % (bi, len(pops)),
                                {"kind": "gen-batch", "pops": pops, "master": master, "index": bi})
                        continue
                _report(part, [f], where, {"kind": "gen", "pop": pop, "master": master})


SAMPLE_POPS = [
    [["body", "vert", 1, False, "half"]],
    [["title", None, None, False, None], ["pic", None, 1, True, None]],
    [["ctrTitle", "vert", 1, False, None], ["dt", None, 1, True, None]],
]


def probe_state_after_raise(pop, master):
    """What the presentation looks like after add_slide raised (C02 territory; reported, not judged here)."""
    import warnings
    from mc.oracles import opc_ref
    warnings.simplefilter("ignore", UserWarning)  # zipfile warns about the duplicate member the library then writes
    blob, _ = G.build_deck([pop], master)
    prs = F.open_prs(blob)
    try:
        prs.slides.add_slide(prs.slide_layouts[0])
        return "did-not-raise"
    except Exception:  # noqa: BLE001
        pass
    obs = ["slides=%d" % len(prs.slides)]
    try:
        saved = F.save_bytes(prs)
        order, related = L.saved_slide_order(F.zip_members(saved))
        obs.append("saved:sldIdLst=%d,related-slide-parts=%d" % (len(order), len(related)))
        obs.append("closure-errors=%d" % len(list(opc_ref.closure_errors(opc_ref.read(saved)))))
        obs.append("reopen-slides=%d" % len(F.open_prs(saved).slides))
    except Exception as e:  # noqa: BLE001
        obs.append("save/reopen-raised:" + type(e).__name__)
    try:
        s = prs.slides.add_slide(prs.slide_layouts[6])
        obs.append("next-add:%s" % s.part.partname)
        saved = F.save_bytes(prs)
        order, related = L.saved_slide_order(F.zip_members(saved))
        obs.append("then-saved:sldIdLst=%d,related-slide-parts=%d,distinct-related=%d" % (len(order), len(related), len(set(related))))
        obs.append("then-reopen-slides=%d" % len(F.open_prs(saved).slides))
    except Exception as e:  # noqa: BLE001
        obs.append("next-add/save-raised:" + type(e).__name__)
    return ";".join(obs)


# ---- part N: notes slides -----------------------------------------------------------------------------------

def check_notes_mirror(notes_slide, master_blob, ctx_attr=()):
    """Notes slide against the notes master XML (bare): clones of sldImg / body / sldNum, document order."""
    fails = []
    mphs = L.read_phs(master_blob)
    want = [p for p in mphs if p["type"] in L.NOTES_CLONED]
    got = L.read_phs(notes_slide.part.blob)
    if [L.key4(p) for p in got] != [L.key4(p) for p in want]:
        fails.append(Failure("notes-mirror", [("expected", ",".join(p["type"] for p in want) or "-"), ("got", ",".join(p["type"] for p in got) or "-")],
                             "notes master gives %r, notes slide has %r" % ([L.key4(p) for p in want], [L.key4(p) for p in got])))
        return fails
    names = [p["name"] for p in got]
    if len(set(names)) != len(names) or any(not n for n in names):
        fails.append(Failure("notes-names", [], "notes placeholder names %r" % (names,)))
    try:
        api = [sh for sh in notes_slide.shapes if sh.is_placeholder]
        coll = list(notes_slide.placeholders)
    except Exception as e:  # noqa: BLE001
        return fails + [Failure("notes-placeholders-raised", [("exc", type(e).__name__)], repr(e))]
    if len(api) != len(want) or len(coll) != len(want):
        return fails + [Failure("notes-mirror-api-count", [], "shapes %d, placeholders %d, expected %d" % (len(api), len(coll), len(want)))]
    for k, (w, sh) in enumerate(zip(want, api)):
        tn = L._type_name(sh)
        if tn != L.TOKEN2NAME[w["type"]] or sh.placeholder_format.idx != w["idx"]:
            fails.append(Failure("notes-mirror-api", [("type", w["type"]), ("got", tn)], "notes placeholder %d" % k))
        g, exc = L.read_geo(sh)
        if exc is not None:
            fails.append(Failure("notes-geometry-raised", [("type", w["type"]), ("exc", type(exc).__name__)], repr(exc)))
            continue
        accept = [p["geo"] for p in mphs if p["type"] == w["type"]]
        if g not in accept:
            fails.append(Failure("notes-geometry", [("type", w["type"]), ("xfrm", L._xf(w))],
                                 "notes placeholder %d %r reads %r, notes master gives %r" % (k, L.key4(w), g, accept)))
    return fails


def _saved_notes_master(members):
    from mc.props.c13_gen import _rels
    nm = [t for ty, t in _rels(members, "/ppt/presentation.xml").values() if ty == L.RT + "notesMaster"]
    return members[nm[0][1:]] if nm else None


def eval_notes(blob, master_blob_hint=None, names=None):
    """New slide from the first layout, then slide.notes_slide; oracle in memory and after save + re-open.
    names: None | 'shared' (before the notes slide is made every placeholder of the notes master — the deck's, or the
    default one the library creates — is renamed to the name of the first one through the public API)."""
    members = F.zip_members(blob)
    prs = F.open_prs(blob)
    had_master = _saved_notes_master(members)
    try:
        slide = prs.slides.add_slide(prs.slide_layouts[0])
    except Exception as e:  # noqa: BLE001
        return [Failure("add-slide-raised", [("type", "first-layout"), ("exc", type(e).__name__)], repr(e))], had_master
    if names == "shared":
        try:
            share_names(prs.notes_master.placeholders)
        except Exception as e:  # noqa: BLE001
            return [Failure("notes-master-rename-raised", [("exc", type(e).__name__)], "notes master placeholder.name = ... raised %r" % (e,))], had_master
    try:
        ns = slide.notes_slide
    except Exception as e:  # noqa: BLE001
        return [Failure("notes-raised", [("exc", type(e).__name__)], "slide.notes_slide raised %r" % (e,))], had_master
    # the expected side is the notes master as it is NOW (bare reading of the part's serialisation): the one of the deck,
    # the default one the library created, or either of them after the renaming
    mblob = had_master if (had_master is not None and names is None) else prs.notes_master.part.blob
    fails = check_notes_mirror(ns, mblob)
    if slide.notes_slide.part is not ns.part:
        fails.append(Failure("notes-not-stable", [], "slide.notes_slide returned a different part on second access"))
    try:
        saved = F.save_bytes(prs)
        m2 = F.zip_members(saved)
        prs2 = F.open_prs(saved)
        s2 = prs2.slides[len(prs2.slides) - 1]
        if not s2.has_notes_slide:
            fails.append(Failure("notes-lost", [("after", "reopen")], "re-opened slide has no notes slide"))
        else:
            seen = {f.key() for f in fails}
            fails += L.mark_after(check_notes_mirror(s2.notes_slide, _saved_notes_master(m2)), seen, "reopen")
    except Exception as e:  # noqa: BLE001
        fails.append(Failure("save-reopen-raised", [("exc", type(e).__name__), ("ctx", "notes")], repr(e)))
    return fails, mblob


def _work_notes(part, chunk):
    for kind, arg in chunk:
        part.count("evaluations")
        part.count("notes_evaluations")
        if kind == "corpus":
            blob = F.read_bytes(os.path.join(F.REPO, arg))
            where, rp = "notes on corpus deck %s" % arg, {"kind": "notes-corpus", "deck": arg}
        else:
            blob, _ = G.build_notes_deck(arg)
            where, rp = "notes with generated notes master %r" % (arg,), {"kind": "notes-gen", "pop": arg}
        fails, mblob = eval_notes(blob)
        if kind == "corpus":
            part.outcome("notes_master", "deck-has-one" if _saved_notes_master(F.zip_members(blob)) is not None else "created-from-template")
        cl = [p for p in L.read_phs(mblob) if p["type"] in L.NOTES_CLONED] if mblob else []
        n = len(cl)
        part.outcome("notes_cloned", str(min(n, 3)))
        if n:
            part.add("nontrivial", ("N", kind, repr(arg)))
        if len({p["name"] for p in cl}) != n:
            part.count("notes_dup_source_name_populations")
        _report(part, fails, where, rp)
        if kind == "corpus":
            # once more with the notes master's placeholders renamed to ONE name by public calls
            part.count("evaluations")
            part.count("notes_evaluations")
            shown = {f.sig() for f in fails}
            fails2, _ = eval_notes(blob, names="shared")
            _report(part, [f for f in fails2 if f.sig() not in shown], where + ", notes-master placeholders renamed to one name",
                    dict(rp, names="shared"))


# ---- run -----------------------------------------------------------------------------------------------------

# ---- D: the layout is edited between two uses ----------------------------------------------------------------------
# "any layout ... repeated additions interleaved with other edits": a slide mirrors the layout AS IT IS when the slide
# is added. Per template layout x every cloneable placeholder k of it x warm-up {none, add a slide first, iterate
# layout.placeholders first, read an inherited dimension first}: warm up, remove placeholder k from the layout through
# the documented `shape.element` (`el.getparent().remove(el)`, the idiom users apply since there is no delete call),
# add a slide, compare with the expectations read (bare lxml) from the layout part's CURRENT blob.

LAYOUT_EDIT_WARMUPS = ["none", "add_slide", "iterate", "inherited-dimension"]


def layout_edit_cases():
    prs = F.open_prs()
    cases = []
    for li, layout in enumerate(prs.slide_layouts):
        exp = L.LayoutExp(layout.part.blob, layout.slide_master.part.blob)
        for k in range(len(exp.clone)):
            for w in LAYOUT_EDIT_WARMUPS:
                cases.append((li, k, w))
    return cases


def eval_layout_edit(li, k, warm):
    prs = F.open_prs()
    layout = prs.slide_layouts[li]
    if warm == "add_slide":
        prs.slides.add_slide(layout)
    elif warm == "iterate":
        for ph in layout.placeholders:
            ph.placeholder_format.idx
    elif warm == "inherited-dimension":
        for ph in layout.placeholders:
            ph.left, ph.width
    exp0 = L.LayoutExp(layout.part.blob, layout.slide_master.part.blob)
    target = exp0.phs[exp0.clone[k]]
    victim = [ph for ph in layout.placeholders if ph.placeholder_format.idx == target["idx"]]
    if len(victim) != 1:
        raise HarnessError("layout %d: %d placeholders with idx %r" % (li, len(victim), target["idx"]))
    el = victim[0].element
    el.getparent().remove(el)
    exp = L.LayoutExp(layout.part.blob, layout.slide_master.part.blob)
    if len(exp.clone) != len(exp0.clone) - 1:
        raise HarnessError("layout %d: removal of placeholder %d left %d cloneable placeholders of %d"
                           % (li, k, len(exp.clone), len(exp0.clone)))
    _slide, fails = _add_and_check(prs, layout, exp)
    for f in fails:
        f.attrs = list(f.attrs) + [("ctx", "layout-edited-after=%s" % warm)]
    return fails


def _work_layout_edit(part, chunk):
    for li, k, w in chunk:
        fails = eval_layout_edit(li, k, w)
        part.count("evaluations")
        part.count("layout_edit_cases")
        part.count("nontrivial_count")
        part.outcome("layout-edit", "ok" if not fails else "fail")
        _report(part, fails, "template layout %d, placeholder %d removed after warm-up %r, then add_slide" % (li, k, w),
                {"kind": "layout-edit", "layout": li, "ph": k, "warm": w})


def _batches(cases, ctx):
    """Group cases of one master variant into decks of batch_size() populations; the seed rotates the batch list."""
    bs = G.batch_size()
    out = []
    for master in G.MASTERS:
        pops = [p for p, m in cases if m == master]
        out += [(master, pops[i:i + bs]) for i in range(0, len(pops), bs)]
    return ctx.rotate(out)


def _selfcheck():
    """Prove the evaluation is a function of the case: a fixed mixed batch evaluated twice gives identical results."""
    pops = [[["title", None, None, True, None]], [["sldImg", None, 1, True, None]], [["hdr", None, 1, False, None]],
            [["body", "vert", 1, False, "half"], [None, None, 1, True, None]], [["pic", None, 10, False, None]]]
    r1, _ = eval_gen_batch(pops, "template")
    r2, _ = eval_gen_batch(pops, "template")
    if [[f.sig() for f in fl] for fl in r1] != [[f.sig() for f in fl] for fl in r2]:
        raise HarnessError("evaluation of a fixed batch is not deterministic")


def _has_dup_clone_names(pop):
    names = [G.spec_name(k, sp) for k, sp in enumerate(pop) if G._is_cloned(sp, "slide")]
    return len(set(names)) != len(names)


def _name_prediction(types):
    """Informational (never a verdict, never a harness error): how often the base-name table of c13_gen predicts the
    names the library gives to the clones of distinctly named layout / notes-master placeholders. The 'G' and 'O' name
    letters are as sharp as this table is right."""
    out = {}
    pops = [[[t, o, 1, False, None]] for t in types for o in G.ORIENTS if G._is_cloned([t], "slide")]
    pops += [[["title", None, None, False, None], ["body", "vert", 1, False, None]], [["dt", None, 10, False, None], ["pic", None, 1, False, None]]]
    hit = n = 0
    bs = G.batch_size()
    try:
        for i in range(0, len(pops), bs):
            blob, _ = G.build_deck(pops[i:i + bs], "template")
            prs = F.open_prs(blob)
            for j, pop in enumerate(pops[i:i + bs]):
                n += 1
                try:
                    got = [p["name"] for p in L.read_phs(prs.slides.add_slide(prs.slide_layouts[j]).part.blob)]
                except Exception:  # noqa: BLE001
                    prs = F.open_prs(blob)
                    continue
                want = [G.generated_name(pop, k) for k, sp in enumerate(pop) if G._is_cloned(sp, "slide")]
                hit += got == want
        out["slide"] = "%d/%d" % (hit, n)
    except Exception as e:  # noqa: BLE001
        out["slide"] = "probe raised %s" % type(e).__name__
    hit = n = 0
    try:
        for pop in [[[t, None, 1, False, None]] for t in G.NOTES_CLONED] + [[["sldImg", None, None, False, None], ["hdr", None, 1, False, None], ["body", None, 1, False, None]]]:
            n += 1
            prs = F.open_prs(G.build_notes_deck(pop)[0])
            try:
                got = [p["name"] for p in L.read_phs(prs.slides.add_slide(prs.slide_layouts[6]).notes_slide.part.blob)]
            except Exception:  # noqa: BLE001
                continue
            want = [G.generated_name(pop, k, "notes") for k, sp in enumerate(pop) if G._is_cloned(sp, "notes")]
            hit += got == want
        out["notes"] = "%d/%d" % (hit, n)
    except Exception as e:  # noqa: BLE001
        out["notes"] = "probe raised %s" % type(e).__name__
    return out


def run(ctx):
    from mc.props import c13_hist
    types = G.schema_types()
    _selfcheck()

    # ---- A
    layouts = corpus_layouts()
    if len(layouts) < CORPUS_LAYOUT_FLOOR:
        raise HarnessError("only %d corpus layouts discovered (floor %d)" % (len(layouts), CORPUS_LAYOUT_FLOOR))
    repeat = 2 if ctx.thorough else 1
    fanout(ctx, _work_corpus, ctx.rotate([l + [repeat] for l in layouts]), chunk_size=3)
    if ctx.counters.get("corpus_layouts") != len(layouts) or ctx.counters.get("corpus_layouts_shared_names") != len(layouts):
        raise HarnessError("corpus layouts evaluated %r (+ %r renamed) != discovered %d"
                           % (ctx.counters.get("corpus_layouts"), ctx.counters.get("corpus_layouts_shared_names"), len(layouts)))
    if not ctx.counters.get("corpus_layouts_shared_names_2plus_clones"):
        raise HarnessError("vacuous: no corpus layout with two or more cloneable placeholders to share a name")

    # ---- B (singles first so that the minimal witness is the one recorded)
    s_cases, s_n = G.singles(types)
    fanout(ctx, _work_gen, _batches(s_cases, ctx), chunk_size=2)
    sn_cases, sn_n = G.singles_names(types)
    fanout(ctx, _work_gen, _batches(sn_cases, ctx), chunk_size=2)
    sf_cases, sf_n = G.singles_forms()
    fanout(ctx, _work_gen, _batches(sf_cases, ctx), chunk_size=2)
    pf_cases, pf_n = G.pairs_forms(types)
    fanout(ctx, _work_gen, _batches(pf_cases, ctx), chunk_size=2)
    p_cases, p_n = G.pairs(types, ctx.thorough)
    fanout(ctx, _work_gen, _batches(p_cases, ctx))
    pn_cases, pn_n = G.pairs_names(types, ctx.thorough)
    fanout(ctx, _work_gen, _batches(pn_cases, ctx))
    spaces = {"singles": s_n, "singles_names": sn_n, "singles_forms": sf_n, "pairs": p_n, "pairs_names": pn_n, "pairs_forms": pf_n}
    total = s_n + sn_n + sf_n + p_n + pn_n + pf_n
    if ctx.counters.get("non_sp_form_populations") != sf_n + pf_n:
        raise HarnessError("populations with a p:pic / p:graphicFrame placeholder (bare reading of the generated layout): %r, generated %d"
                           % (ctx.counters.get("non_sp_form_populations"), sf_n + pf_n))
    ctx.extra["element_forms"] = ["%s:%s" % (f, t or "(absent)") for f, t in G.FORM_TYPES]
    if ctx.thorough:
        t_cases, t_n = G.triples(types)
        fanout(ctx, _work_gen, _batches(t_cases, ctx))
        tn_cases, tn_n = G.triples_names(types)
        fanout(ctx, _work_gen, _batches(tn_cases, ctx))
        spaces["triples"] = t_n
        spaces["triples_names"] = tn_n
        total += t_n + tn_n
    got = sum(ctx.counters.get("generated_populations_%d" % k, 0) for k in (1, 2, 3))
    if got != total:
        raise HarnessError("generated populations evaluated %d != closed form %d" % (got, total))
    ctx.extra["spaces"] = spaces
    ctx.extra["placeholder_types"] = ["(absent)"] + types[1:]
    ctx.extra["name_vectors"] = {"singles": G.SINGLE_NAME_VECTORS, "pairs": G.PAIR_NAME_VECTORS, "triples": G.TRIPLE_NAME_VECTORS}
    ctx.extra["generated_name_prediction"] = _name_prediction(types)
    want_dup = len([1 for p, _ in sn_cases + pn_cases + (tn_cases if ctx.thorough else []) if _has_dup_clone_names(p)])
    if ctx.counters.get("dup_source_name_populations", 0) != want_dup or not want_dup:
        raise HarnessError("populations whose cloneable placeholders share a name: evaluated %r, generated %d"
                           % (ctx.counters.get("dup_source_name_populations"), want_dup))

    # state after a raising add_slide (informational, C02 territory): one probe per distinct raising single type
    probes = {}
    for sig, what, rp in list(ctx.violations):
        if sig.startswith("C13|add-slide-raised|") and rp.get("kind") == "gen" and len(rp["pop"]) == 1:
            probes[sig] = probe_state_after_raise(rp["pop"], rp["master"])
    ctx.extra["state_after_add_slide_raised"] = probes

    # ---- N
    n_items = [("corpus", F.corpus_name(p)) for p in F.corpus()]
    ns_cases, ns_n = G.notes_singles(types)
    np_cases, np_n = G.notes_pairs(ctx.thorough)
    nsn_cases, nsn_n = G.notes_singles_names(types)
    npn_cases, npn_n = G.notes_pairs_names(ctx.thorough)
    n_items += [("gen", p) for p in ns_cases + np_cases + nsn_cases + npn_cases]
    fanout(ctx, _work_notes, ctx.rotate(n_items))
    n_total = 2 * len(F.corpus()) + ns_n + np_n + nsn_n + npn_n
    if ctx.counters.get("notes_evaluations") != n_total:
        raise HarnessError("notes evaluations %r != %d" % (ctx.counters.get("notes_evaluations"), n_total))
    if not ctx.counters.get("notes_dup_source_name_populations"):
        raise HarnessError("vacuous: no generated notes master whose cloned placeholders share a name")
    ctx.extra["spaces"]["notes_master_singles"] = ns_n
    ctx.extra["spaces"]["notes_master_pairs"] = np_n
    ctx.extra["spaces"]["notes_master_singles_names"] = nsn_n
    ctx.extra["spaces"]["notes_master_pairs_names"] = npn_n
    ctx.extra["spaces"]["notes_corpus_decks_x_names"] = 2 * len(F.corpus())

    # ---- D
    le = layout_edit_cases()
    fanout(ctx, _work_layout_edit, ctx.rotate(le), min_parallel=4)
    if ctx.counters.get("layout_edit_cases") != len(le) or len(le) < 40:
        raise HarnessError("layout-edit cases %r != %d" % (ctx.counters.get("layout_edit_cases"), len(le)))
    ctx.extra["spaces"]["layout_edited_between_uses"] = len(le)

    # ---- C
    c13_hist.run(ctx)

    for op in ("add_slide", "geometry_source", "notes_master"):
        if len(ctx.outcomes.get(op, ())) < 2:
            raise HarnessError("vacuous: operation %s showed %r outcomes" % (op, ctx.outcomes.get(op)))


def replay(data):
    k = data["kind"]
    if k == "corpus":
        fails, _ = eval_corpus(data["deck"], data["master"], data["layout"], data.get("repeat", 1), names=data.get("names"))
        return _match(fails, data)
    if k == "gen":
        res, _ = eval_gen_batch([data["pop"]], data["master"])
        return _match(_attribute(data["pop"], data["master"], res[0]), data)
    if k == "gen-batch":
        res, _ = eval_gen_batch(data["pops"], data["master"])
        i = data["index"]
        return _match(_attribute(data["pops"][i], data["master"], res[i]), data)
    if k == "notes-corpus":
        fails, _ = eval_notes(F.read_bytes(os.path.join(F.REPO, data["deck"])), names=data.get("names"))
        return _match(fails, data)
    if k == "notes-gen":
        fails, _ = eval_notes(G.build_notes_deck(data["pop"])[0])
        return _match(fails, data)
    if k == "layout-edit":
        return _match(eval_layout_edit(data["layout"], data["ph"], data["warm"]), data)
    if k == "hist":
        from mc.props import c13_hist
        return explorer.replay_history(c13_hist.System(), data)
    raise ValueError(k)
