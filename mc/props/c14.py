"""C14 — tables stay rectangular and merges consistent under any merge/split sequence.

Explicit-state model checker, SNAPSHOT mode (DESIGN 4/C14, engine E1):

* a state is the `p:graphicFrame` subtree holding the `a:tbl` of a table created through the public
  API (`shapes.add_table`, and `TablePlaceholder.insert_table` for the creation path through a
  placeholder); a successor is produced by `copy.deepcopy` of that element, appended to the same
  shape tree and re-wrapped through the public API (`slide.shapes[-1].table`); operations the
  reference model predicts to be refused are executed on the live state itself (nothing may
  change; the c14n of the frame is compared before/after, and the state is rebuilt when it did);
* frontier states are rebuilt in the workers by replaying their (minimal) operation history on a
  fresh table — tables are cheap — so that nothing but (configuration, history) crosses processes;
* level-synchronous BFS with duplicate detection on sha1(c14n(a:tbl) + frame cx/cy); exploration
  does not continue from a state in which a violation was observed;
* every transition is executed on the real implementation and compared with `mc.oracles.table_ref`
  (grid of regions + per-cell paragraph lists); every state reached is checked through the public
  API (is_merge_origin / is_spanned / span_height / span_width / cell.text / row & column sizes /
  frame size) AND by re-parsing the serialised frame with bare lxml (a:tc per a:tr, gridCol count,
  gridSpan/rowSpan/hMerge/vMerge, paragraph text, a:ext cx/cy).

Deviations from DESIGN.md: (1) the full-depth search runs on the (non-divisible, non-divisible)
size variant; the other eight (width, height) variants of every shape are explored to depth 1 (all
operations from the initial state) — sizes and merges are independent dimensions and row/column
assignments are additionally interleaved with merges/splits to full depth on tables up to 3x3;
(2) a second text configuration ("mixed": empty cells and two-paragraph cells) is explored next to
"a distinct letter in every cell"; (3) the 6x6 exploration is BFS depth 2 restricted to
merge/split/foreign-merge operations (level 1 = every rectangle, level 2 = every ordered cell pair
and every split from each of the 405 single-rectangle states) in the thorough tier; the quick tier
does the same on a 5x5 table (200 single-rectangle states) with the top-left/bottom-right orientation
of each pair only at level 2 — the 6x6 leg alone costs more than the rest of the quick tier together;
(4) text oracle: the origin of a merge reads exactly the paragraphs of the merged cells in row-major
order, where a cell holding nothing but ONE empty paragraph — however it is written: <a:p/>,
<a:p><a:endParaRPr/></a:p>, <a:p><a:pPr/></a:p> — contributes nothing; a difference that consists of
blank paragraphs only is reported under its own detail (`*-blank-paragraphs`);
(5) in the quick tier `cell.text` (public API) is read for the cells the last operation worked on and
the paragraph text of every cell is read from the bare-lxml view; the thorough tier reads every cell
through both; (6) a full state check is skipped when byte-identical table XML was already checked
against an identical model state in the same worker process (observations are a function of the XML).

Beyond DESIGN (added after independently seeded faults were missed): (7) API-built tables rewritten
harness-side (lxml base API on the element, before the first operation) to forms other producers
write — `api/endpara` (PowerPoint paragraphs: a:endParaRPr in empty and in text paragraphs),
`api/ppr` (a:pPr-only empty paragraphs), `api/notblpr` (the optional a:tblPr removed; the API-built
table itself carries the PowerPoint form of a:tblPr: firstRow/bandRow + a:tableStyleId) — shapes up
to 3x3 to depth 3 (endpara) / 2 (quick; thorough: 3, and shapes with a side of 4 to depth 2);
(8) every top-level table of the repository's PowerPoint-authored decks (12 tables, up to 4x5, two
with pre-existing merged regions) is an initial state as it is: the model starts from the bare-lxml
reading of the file (regions, paragraphs, sizes; frame size == sum is demanded from the first size
assignment on unless it already held in the file); depth 2 (<= 9 cells) / 1 in quick, 3 / 2 thorough;
row-height / column-width assignments are part of the alphabet on EVERY corpus table (one of them, 4x4, is
the only table of the corpus whose frame is taller than the sum of its row heights — PowerPoint does not
write auto-grown row heights back);
(9) starting states / histories in which the frame size does NOT equal the sum: the alphabet of the
full-depth configurations with size assignments (API-built 'letters' tables up to 3x3, corpus tables up to
9 cells) also holds `graphic_frame.width = v` / `graphic_frame.height = v`, v in {7, 2000001} — the caller
resizing the frame, which does not rescale rows / columns.  The model then knows nothing about that frame
dimension (nothing is demanded of it, weak reading) until the next column-width / row-height assignment,
after which the statement's last clause demands frame == sum again.  The run counts the size assignments
executed from an (observed) out-of-sync frame and refuses to pass vacuously (floor 100);
(10) blank paragraphs: per-cell paragraph alphabet KINDS = every sequence of one or two paragraphs each
blank or carrying text (b, t, bb, bt, tb, tt).  Text configuration 'blanks' (the six kinds in rotation, the
top-left cell starting with a blank paragraph) runs next to 'letters' / 'mixed' on every shape (depth 3 up to
3x3, depth 2 with a side of 4); and EVERY assignment of the six kinds to the cells ('k:<digit per cell>',
6**(r*c) configurations per shape, closed form asserted) is an initial state on the shapes 1x1, 1x2, 2x1,
1x3, 3x1, 2x2 (1806 configurations, depth 1 quick; thorough: depth 3, 2x2 depth 2, plus 1x4 / 4x1 at depth
1).  The text oracle is unchanged: blank paragraphs of a cell that is not exactly one empty paragraph move
with it; the verdict compares the non-empty paragraph sequence first (weak reading) and reports a
blank-only difference under its own detail.

Signatures: `C14|<family>|<rule>:<detail>|<r>x<c>|<creation path, text cfg, size variant>|<history>`.
Violating transitions are grouped by rule family (rectangular / regions / text / sizes / refusal /
op-raised); per family the minimal witness of the whole run (smallest table, shortest history,
canonical operation order — independent of seed and worker scheduling) is reported together with
the first problem observed at that witness.
"""

from __future__ import annotations

import copy
import hashlib
import json
import os
import string
import time

from lxml import etree

from mc.core.parallel import fanout
from mc.core.run import HarnessError
from mc.oracles.table_ref import NOOP, OK, REFUSE, TableRef, nonempty, op_str

LEVEL = "model_checking"
RULE = ("states: distinct sha1(c14n(a:tbl)+frame cx,cy) per table configuration (shape r x c, creation path, "
        "(width,height) variant, text configuration). transitions: from every state with fewer operations than "
        "the depth bound, EVERY operation of the alphabet — cell(a).merge(cell(b)) for every ordered pair of "
        "cells (all four corner orientations, a==b included), cell.split() for every cell, merge with a cell "
        "of a second table in both directions for every cell, rows[i].height=v / columns[j].width=v for every "
        "row/column and v in {11, 1000003}, and (configurations with frame operations) graphic_frame.width=v / "
        ".height=v for v in {7, 2000001} — each executed on the real implementation and compared with the "
        "table_ref model (expected: merged / refused-and-unchanged / split / resized) and, when the state "
        "changed, followed by the full state check (public API + bare-lxml view). A transition is non-trivial "
        "(and distinct by construction: each (state, operation) pair is executed once) unless it is a merge of "
        "one unmerged cell with itself or an assignment of the value already present. Text configurations: "
        "letters, mixed, blanks, and the full product of the six paragraph kinds (b,t,bb,bt,tb,tt) over the cells "
        "of the shapes with at most 3 cells and 2x2 (the product contains the all-'t' assignment, which repeats "
        "the 'letters' table of that shape: 6 of 1806 initial states are duplicates of another configuration).")
ASSUMPTIONS = [
    "bounded: shapes r,c in 1..3 to depth 3 and shapes with a side of 4 to depth 2 (quick); all shapes up to 4x4 "
    "to depth 3 (thorough); depth 1 from every single-rectangle merged state of a 6x6 table (thorough) / of a 5x5 "
    "table with one corner orientation per pair (quick)",
    "the statement's 'randomly on tables up to 12x12' is sampling, a different technique, and is NOT done; it is "
    "replaced by the exhaustive depth-1 exploration from every single-rectangle state of a 6x6 (quick: 5x5) table",
    "full-depth search on the (non-divisible, non-divisible) size variant only; the other 8 (width,height) "
    "variants (divisible / non-divisible / smaller than the count) are explored to depth 1",
    "text alphabet: a distinct letter in every cell; a 'mixed' configuration with empty cells and two-paragraph "
    "cells; a 'blanks' configuration rotating the six paragraph kinds b,t,bb,bt,tb,tt (b = blank paragraph, t = "
    "paragraph with text); every assignment of the six kinds to the cells only on shapes with <= 3 cells and 2x2 "
    "(thorough: also 1x4, 4x1); three or more paragraphs per cell only as produced by earlier merges; formatted "
    "runs / line breaks / fields only as far as the corpus tables have them",
    "frame size vs sum: the caller's frame resize (two values per dimension) is interleaved to full depth only on "
    "API-built 'letters' tables up to 3x3 and corpus tables up to 9 cells; on larger corpus tables row/column "
    "assignments are explored without it. While the frame is out of sync (file said so, or the caller resized it) "
    "nothing is demanded of that frame dimension; frame == sum is demanded after every row-height (column-width) "
    "assignment for the height (width)",
    "text oracle: origin paragraphs == paragraphs of the merged cells in row-major order, a cell with a single "
    "empty paragraph (in any XML form) contributing nothing; cells of a region other than the origin read as empty",
    "foreign XML forms (a:endParaRPr / a:pPr-only empty paragraphs, no a:tblPr) are produced by a harness-side "
    "rewrite of API-built tables; corpus tables are taken as they are, their initial model state is read from the "
    "file with bare lxml (trusted)",
    "quick tier: cell.text (public API) is read for the cells the last operation touched, all cells are read from "
    "the serialised XML with bare lxml; thorough tier: every cell through both",
    "a merge of a single unmerged cell with itself may either be a no-op or raise ValueError (unchanged either way)",
    "snapshot = copy.deepcopy of the p:graphicFrame element appended to the same shape tree (python-pptx relies "
    "on deepcopy keeping its element classes; asserted at run time); equal canon => equal future because table "
    "proxies are stateless views over the XML",
    "trusted base: lxml c14n / parser, mc.oracles.table_ref",
]

NS_A = "http://schemas.openxmlformats.org/drawingml/2006/main"
NS_P = "http://schemas.openxmlformats.org/presentationml/2006/main"
A = "{%s}" % NS_A
P = "{%s}" % NS_P

SIZE_VALUES = (11, 1000003)
FRAME_VALUES = (7, 2000001)   # the caller resizes the graphic frame: smaller / larger than any sum reachable
VARIANTS = ("div", "nondiv", "small")
PH_FILE = os.path.join(os.environ.get("VERIF_REPO", "/repo"), "features", "steps", "test_files",
                       "ph-unpopulated-placeholders.pptx")
PH_SLIDE_IDX = 4
LETTERS = string.ascii_uppercase + string.ascii_lowercase


def size_for(n, variant):
    if variant == "div":
        return n * 300000
    if variant == "nondiv":
        return n * 300000 + max(1, n - 1)
    return n - 1  # "small": smaller than the count (0 for a single row/column)


FORMS = ("endpara", "ppr", "notblpr")
VIA_ORDER = ("api", "api/endpara", "api/ppr", "api/notblpr", "ph")


def split_via(via):
    """'api' | 'ph' | 'api/<form>' | 'corpus:<deck relative to the repo>:<slide idx>:<shape idx>'."""
    if via.startswith("corpus:"):
        return "corpus", via[len("corpus:"):]
    if "/" in via:
        base, form = via.split("/", 1)
        return base, form
    return via, None


def rewrite_form(gf_element, form):
    """Harness-side rewrite (lxml base API on the element) of an API-built table to forms other producers write.

    endpara: PowerPoint's paragraphs — an empty cell is <a:p><a:endParaRPr lang="en-US"/></a:p>, a text
             paragraph has <a:endParaRPr lang="en-US" dirty="0"/> after its runs;
    ppr:     an empty paragraph carrying only properties, <a:p><a:pPr algn="ctr"/></a:p> (text paragraphs
             get the same a:pPr as first child);
    spans:   rowSpan="1" gridSpan="1" hMerge="0" vMerge="0" (the defaults) written on every cell;
    notblpr: the optional a:tblPr removed (the API-built table already has the PowerPoint form of a:tblPr:
             firstRow/bandRow attributes + a:tableStyleId child)."""
    tbl = gf_element.find(".//" + A + "tbl")
    if form == "spans":
        # every unmerged cell spells out the schema defaults of the span attributes (legal; some producers do)
        for tc in tbl.iter(A + "tc"):
            for k, v in (("rowSpan", "1"), ("gridSpan", "1"), ("hMerge", "0"), ("vMerge", "0")):
                if tc.get(k) is None:
                    tc.set(k, v)
        return
    if form == "notblpr":
        for el in tbl.findall(A + "tblPr"):
            tbl.remove(el)
        return
    for p in tbl.iter(A + "p"):
        if form == "endpara":
            e = etree.SubElement(p, A + "endParaRPr")
            e.set("lang", "en-US")
            if len(p) > 1:
                e.set("dirty", "0")
        elif form == "ppr":
            e = p.makeelement(A + "pPr", {"algn": "ctr"})
            p.insert(0, e)
        else:
            raise HarnessError("unknown form %r" % form)


def scan_table(gf_element):
    """Bare-lxml reading of a table that already exists in a file: shape, regions, paragraphs, sizes.
    Returns a dict, with key 'skip' set to a reason when the table is outside the model's vocabulary."""
    root = etree.fromstring(etree.tostring(gf_element))
    tbl = root.find(".//" + A + "tbl")
    out = {"skip": None}
    if tbl is None:
        out["skip"] = "no a:tbl"
        return out
    trs = tbl.findall(A + "tr")
    tcs = [tr.findall(A + "tc") for tr in trs]
    grid = tbl.findall(A + "tblGrid/" + A + "gridCol")
    r, c = len(trs), len(grid)
    out.update(r=r, c=c, widths=[int(g.get("w")) for g in grid], heights=[int(t.get("h")) for t in trs])
    if r == 0 or c == 0 or any(len(row) != c for row in tcs):
        out["skip"] = "not rectangular"
        return out
    rects, spanned, paras = [], set(), []
    for i in range(r):
        prow = []
        for j in range(c):
            tc = tcs[i][j]
            if tc.find(A + "txBody") is None:
                out["skip"] = "a cell without a:txBody (reading its text would add one)"
                return out
            ps = _bare_paragraphs(tc) or [""]
            if any("\n" in x for x in ps):
                out["skip"] = "newline inside a paragraph"
                return out
            prow.append(ps)
            hm, vm = _xml_bool(tc.get("hMerge")), _xml_bool(tc.get("vMerge"))
            gs_, rs_ = int(tc.get("gridSpan", "1")), int(tc.get("rowSpan", "1"))
            if hm or vm:
                spanned.add((i, j))
            elif gs_ > 1 or rs_ > 1:
                rects.append((i, j, rs_, gs_))
        paras.append(prow)
    model = TableRef(r, c, out["widths"], out["heights"], paras)
    if not model.set_regions(rects) or spanned != {(i, j) for i in range(r) for j in range(c) if model.is_spanned(i, j)}:
        out["skip"] = "pre-existing merges are not disjoint rectangles with hMerge/vMerge on exactly the other cells"
        return out
    out.update(rects=rects, paras=paras)
    return out


# per-cell paragraph alphabet: EVERY sequence of one or two paragraphs each of which is blank (b) or carries
# text (t) — 2 + 4 = 6 kinds; kind 0 is the empty cell, kind 1 the one-paragraph cell of the 'letters' configuration
KINDS = ("b", "t", "bb", "bt", "tb", "tt")
BLANKS_ROTATION = (3, 1, 4, 0, 5, 2)   # 'blanks': the top-left cell (origin of most merges) starts with a blank paragraph
PRODUCT_SHAPES_QUICK = ((1, 1), (1, 2), (2, 1), (1, 3), (3, 1), (2, 2))
PRODUCT_SHAPES_THOROUGH = PRODUCT_SHAPES_QUICK + ((1, 4), (4, 1))
TXT_ORDER = ("letters", "mixed", "blanks", "corpus")


WS_ONLY_LETTERS = "BF"   # the cells whose text paragraphs consist of Unicode white space only


def kind_paragraphs(kind, L):
    """Paragraph list of one cell for a pattern over {b, t}; text paragraphs read L (one) or L1, L2 (two)."""
    nt = kind.count("t")
    out, n = [], 0
    for ch in kind:
        if ch == "b":
            out.append("")
        else:
            n += 1
            if L in WS_ONLY_LETTERS:
                # text that a whitespace-stripping test would call empty (no-break space; ideographic space + line
                # separator): it is text, and moves with the rest of the cell's text on a merge
                out.append("\u00a0" if n == 1 else "\u3000\u2028")
            else:
                out.append(L if nt == 1 else "%s%d" % (L, n))
    return out


def cfg_texts(cfg):
    """Paragraph lists per cell for a configuration."""
    _via, r, c, _wv, _hv, txt, _depth, _sz, _ori = cfg
    if txt.startswith("k:") and (len(txt) != 2 + r * c or any(ch not in "012345" for ch in txt[2:])):
        raise HarnessError("bad text configuration %r for %dx%d" % (txt, r, c))
    out = []
    for i in range(r):
        row = []
        for j in range(c):
            k = i * c + j
            L = LETTERS[k]
            if txt == "letters":
                row.append([L])
            elif txt == "mixed":  # empty / one paragraph / two paragraphs, the top-left cell is empty
                row.append([[""], [L], [L + "1", L + "2"]][k % 3])
            elif txt == "blanks":  # the six kinds in rotation
                row.append(kind_paragraphs(KINDS[BLANKS_ROTATION[k % 6]], L))
            elif txt.startswith("k:"):  # one digit per cell (row-major): index into KINDS
                row.append(kind_paragraphs(KINDS[int(txt[2 + k])], L))
            else:
                raise HarnessError("unknown text configuration %r" % (txt,))
        out.append(row)
    return out


def cfg_label(cfg):
    via, r, c, wv, hv, txt, _depth, _sz, _ori = cfg
    return "%dx%d|%s,%s,w=%s,h=%s" % (r, c, via, txt, wv, hv)


def cfg_rank(cfg):
    via, r, c, wv, hv, txt = cfg[:6]
    wi = VARIANTS.index(wv) if wv in VARIANTS else 9  # placeholder-created / corpus tables have no size variant
    hi = VARIANTS.index(hv) if hv in VARIANTS else 9
    return (r * c, r, c, VIA_ORDER.index(via) if via in VIA_ORDER else 9, via,
            TXT_ORDER.index(txt) if txt in TXT_ORDER else 9, txt,
            0 if (wv, hv) == ("nondiv", "nondiv") else 1, wi, hi)


def ops_for(cfg, restricted_orientation=False):
    _via, r, c, _wv, _hv, _txt, _depth, size_ops, _ori = cfg
    cells = [(i, j) for i in range(r) for j in range(c)]
    ops = []
    for a in cells:
        for b in cells:
            if restricted_orientation and not (a[0] <= b[0] and a[1] <= b[1]):
                continue
            ops.append(("m", a[0], a[1], b[0], b[1]))
    for a in cells:
        ops.append(("s", a[0], a[1]))
    for a in cells:
        ops.append(("f", a[0], a[1], 0))
        ops.append(("f", a[0], a[1], 1))
    if size_ops:
        for i in range(r):
            for v in SIZE_VALUES:
                ops.append(("h", i, v))
        for j in range(c):
            for v in SIZE_VALUES:
                ops.append(("w", j, v))
    if size_ops >= 2:  # the caller resizes the graphic frame itself (rows / columns are not rescaled by that)
        for v in FRAME_VALUES:
            ops.append(("X", v))
        for v in FRAME_VALUES:
            ops.append(("Y", v))
    return ops


# ---- implementation driver ------------------------------------------------------------------------

_SPAN_DEFAULTS = {"rowSpan": ("1",), "gridSpan": ("1",), "hMerge": ("0", "false"), "vMerge": ("0", "false")}


def c14n(el):
    """c14n for "nothing changed" comparisons. A span attribute written with its schema default (rowSpan="1",
    hMerge="0" ...) means the same as the absent attribute, so it is dropped first: an operation that merely
    normalises the spelling has changed nothing (the 'api/spans' form makes the difference visible)."""
    if el.find(".//" + A + "tc[@rowSpan]") is None and el.find(".//" + A + "tc[@gridSpan]") is None \
            and el.find(".//" + A + "tc[@hMerge]") is None and el.find(".//" + A + "tc[@vMerge]") is None:
        return etree.tostring(el, method="c14n")
    import copy
    cp = copy.deepcopy(el)
    for tc in cp.iter(A + "tc"):
        for k, dflt in _SPAN_DEFAULTS.items():
            if tc.get(k) in dflt:
                del tc.attrib[k]
    return etree.tostring(cp, method="c14n")


def canon_of(gf_element):
    """State identity: sha1 of the c14n of the live a:tbl subtree + the frame's a:ext (bare lxml API only)."""
    tbl = gf_element.find(".//" + A + "tbl")
    ext = gf_element.find(P + "xfrm/" + A + "ext")
    if tbl is None or ext is None:
        return None
    return hashlib.sha1(c14n(tbl) + b"|" + (ext.get("cx") or "").encode() + b"|" + (ext.get("cy") or "").encode()).hexdigest()[:20]


class Live:
    __slots__ = ("slide", "gf", "foreign", "init_widths", "init_heights", "requested", "scan")

    def __init__(self, slide, gf, foreign):
        self.slide, self.gf, self.foreign = slide, gf, foreign
        self.init_widths = self.init_heights = None
        self.requested = None
        self.scan = None


class CreationFailed(Exception):
    """add_table / insert_table / initial text assignment raised."""


class Env:
    """One blank presentation per process; tables are added to / removed from its only slide."""

    def __init__(self):
        self._slide = None
        self._blobs = {}

    def _api_slide(self):
        if self._slide is None:
            from pptx import Presentation
            prs = Presentation()
            self._slide = prs.slides.add_slide(prs.slide_layouts[6])
            self._prs = prs
        slide = self._slide
        for sh in list(slide.shapes):
            el = sh.element
            el.getparent().remove(el)
        return slide

    def build(self, cfg, hist):
        try:
            return self._build(cfg, hist)
        except HarnessError:
            raise
        except CreationFailed:
            raise
        except Exception as e:  # noqa: BLE001
            raise CreationFailed("%s: %s" % (type(e).__name__, e)) from e

    def _build(self, cfg, hist):
        via, r, c, wv, hv, _txt, _depth, _sz, _ori = cfg
        base, arg = split_via(via)
        if base == "api":
            slide = self._api_slide()
            w, h = size_for(c, wv), size_for(r, hv)
            gf = slide.shapes.add_table(r, c, 91440, 182880, w, h)
            requested = (w, h)
        elif base == "ph":
            from pptx import Presentation
            prs = Presentation(PH_FILE)
            slide = prs.slides[PH_SLIDE_IDX]
            ph = slide.shapes[0]
            requested = (int(ph.width), None)
            gf = ph.insert_table(r, c)
            self._keep = prs
        else:  # a table of a PowerPoint-authored deck of the corpus, as it is
            import io
            from pptx import Presentation
            rel, si, hi = arg.rsplit(":", 2)
            blob = self._blobs.get(rel)
            if blob is None:
                with open(os.path.join(os.environ.get("VERIF_REPO", "/repo"), rel), "rb") as f:
                    blob = self._blobs[rel] = f.read()
            prs = Presentation(io.BytesIO(blob))
            slide = prs.slides[int(si)]
            gf = slide.shapes[int(hi)]
            if not getattr(gf, "has_table", False):
                raise HarnessError("%s is not a table" % via)
            requested = None
            self._keep = prs
        foreign = slide.shapes.add_table(r, c, 91440, 3000000, 1000000, 1000000)
        ft = foreign.table
        for i in range(r):
            for j in range(c):
                ft.cell(i, j).text = "f%d" % (i * c + j)
        live = Live(slide, gf, foreign)
        live.requested = requested
        root = etree.fromstring(etree.tostring(gf.element))
        live.init_widths = [int(g.get("w")) for g in root.iter(A + "gridCol")]
        live.init_heights = [int(t.get("h")) for t in root.iter(A + "tr")]
        if base == "corpus":
            live.scan = scan_table(gf.element)
            if live.scan["skip"] or (live.scan["r"], live.scan["c"]) != (r, c):
                raise HarnessError("corpus table %s changed under the run: %r" % (via, live.scan))
        else:
            texts = cfg_texts(cfg)
            table = gf.table
            for i in range(r):
                for j in range(c):
                    if texts[i][j] != [""]:
                        table.cell(i, j).text = "\n".join(texts[i][j])
            if arg is not None:
                rewrite_form(gf.element, arg)
        for op in hist:
            exc = apply_op(live, op)
            if exc is not None:
                raise HarnessError("history %r does not replay: %r at %r" % (hist, exc, op))
        return live

    def clone(self, live):
        el = copy.deepcopy(live.gf.element)
        live.gf.element.getparent().append(el)
        gf2 = live.slide.shapes[-1]
        if gf2.element is not el or type(el) is not type(live.gf.element) or not gf2.has_table:
            raise HarnessError("deepcopy snapshot was not re-wrapped as a table graphic frame")
        return Live(live.slide, gf2, live.foreign)

    def drop(self, live):
        el = live.gf.element
        el.getparent().remove(el)


def initial_model(cfg, live):
    r, c = cfg[1], cfg[2]
    if live.scan is not None:
        # a table that pre-exists in a file: the model starts from what the file says (bare-lxml reading)
        sc = live.scan
        m = TableRef(r, c, sc["widths"], sc["heights"], sc["paras"])
        m.set_regions(sc["rects"])
        root = etree.fromstring(etree.tostring(live.gf.element))
        ext = root.find(P + "xfrm/" + A + "ext")
        m.sync_w = ext is not None and int(ext.get("cx")) == sum(sc["widths"])
        m.sync_h = ext is not None and int(ext.get("cy")) == sum(sc["heights"])
        return m
    if len(live.init_widths) != c or len(live.init_heights) != r:
        # creation itself is broken; the model takes what is demanded and the state check reports it
        return TableRef(r, c, [0] * c, [0] * r, cfg_texts(cfg))
    return TableRef(r, c, live.init_widths, live.init_heights, cfg_texts(cfg))


def apply_op(live, op):
    """Execute one operation through the public API; return the exception it raised, or None."""
    table = live.gf.table
    k = op[0]
    try:
        if k == "m":
            table.cell(op[1], op[2]).merge(table.cell(op[3], op[4]))
        elif k == "s":
            table.cell(op[1], op[2]).split()
        elif k == "f":
            ft = live.foreign.table
            nr, nc = len(ft.rows), len(ft.columns)
            fcell = ft.cell(nr - 1 - op[1], nc - 1 - op[2])
            if op[3] == 0:
                table.cell(op[1], op[2]).merge(fcell)
            else:
                fcell.merge(table.cell(op[1], op[2]))
        elif k == "h":
            table.rows[op[1]].height = op[2]
        elif k == "w":
            table.columns[op[1]].width = op[2]
        elif k == "X":
            live.gf.width = op[1]
        elif k == "Y":
            live.gf.height = op[1]
        else:
            raise HarnessError("unknown op %r" % (op,))
    except HarnessError:
        raise
    except Exception as e:  # noqa: BLE001 - the exception IS the observation
        return e
    return None


OPNAME = {"m": "merge", "s": "split", "f": "merge_foreign", "h": "set_row_height", "w": "set_col_width",
          "X": "set_frame_size", "Y": "set_frame_size"}


def frame_ext(gf_element):
    """(cx, cy) of the frame, bare-lxml reading of the live element."""
    ext = gf_element.find(P + "xfrm/" + A + "ext")
    if ext is None:
        return (None, None)
    return (int(ext.get("cx")), int(ext.get("cy")))


# ---- state check ------------------------------------------------------------------------------------

def _xml_bool(v):
    return v is not None and v.strip() in ("1", "true")


def _bare_paragraphs(tc):
    out = []
    for p in tc.findall(A + "txBody/" + A + "p"):
        s = []
        for ch in p:
            if ch.tag in (A + "r", A + "fld"):
                s.append("".join(t.text or "" for t in ch.findall(A + "t")))
            elif ch.tag == A + "br":
                s.append("\v")
        out.append("".join(s))
    return out


def check_state(live, model, stats=None, touched=None):
    """Compare the implementation's table with the model. Return the list of problems.

    Paragraph text of EVERY cell is read from the bare-lxml view; `cell.text` (public API) is read for
    the cells in `touched` (the cells the last operation worked on), or for every cell when `touched`
    is None (creation, replay, thorough tier)."""
    pr = []
    r, c = model.r, model.c
    gf = live.gf
    table = gf.table

    # -- bare-lxml view of the serialised frame --
    root = etree.fromstring(etree.tostring(gf.element))
    ext = root.find(P + "xfrm/" + A + "ext")
    tbl = root.find(".//" + A + "tbl")
    if ext is None or tbl is None:
        return [("row-cells", "xml", "no p:xfrm/a:ext or no a:tbl in the graphic frame")]
    cx, cy = int(ext.get("cx")), int(ext.get("cy"))
    grid = tbl.findall(A + "tblGrid/" + A + "gridCol")
    trs = tbl.findall(A + "tr")
    tcs = [tr.findall(A + "tc") for tr in trs]
    if len(trs) != r or len(grid) != c or any(len(row) != c for row in tcs):
        pr.append(("row-cells", "xml", "expected %d a:tr of %d a:tc and %d a:gridCol, XML has rows of %r cells, %d gridCol"
                   % (r, c, c, [len(row) for row in tcs], len(grid))))
        return pr

    # -- public API: counts --
    nrows, ncols = len(table.rows), len(table.columns)
    cells = list(table.iter_cells())
    row_lens = [len(table.rows[i].cells) for i in range(nrows)]
    if nrows != r or ncols != c or row_lens != [c] * r or len(cells) != r * c:
        pr.append(("row-cells", "api", "expected %dx%d, API reports %d rows %d columns, row lengths %r, %d cells"
                   % (r, c, nrows, ncols, row_lens, len(cells))))
        return pr

    # -- regions: public API flags --
    for k, cell in enumerate(cells):
        i, j = divmod(k, c)
        eo, es = model.is_origin(i, j), model.is_spanned(i, j)
        go, gs = cell.is_merge_origin, cell.is_spanned
        if bool(go) != eo:
            pr.append(("origin-flag", "missing" if eo else "spurious",
                       "cell(%d,%d).is_merge_origin is %r, model says %r" % (i, j, go, eo)))
        if bool(gs) != es:
            pr.append(("spanned-flag", "missing" if es else "spurious",
                       "cell(%d,%d).is_spanned is %r, model says %r" % (i, j, gs, es)))
        if eo:
            _t, _l, h, w = model.region[i][j]
            if cell.span_height != h:
                pr.append(("span", "height", "origin cell(%d,%d).span_height is %r, region is %d rows" % (i, j, cell.span_height, h)))
            if cell.span_width != w:
                pr.append(("span", "width", "origin cell(%d,%d).span_width is %r, region is %d columns" % (i, j, cell.span_width, w)))

    # -- regions: XML attributes (origin = no hMerge/vMerge and a span > 1; spanned = hMerge or vMerge) --
    x_origins, x_spanned = {}, set()
    for i in range(r):
        for j in range(c):
            tc = tcs[i][j]
            hm, vm = _xml_bool(tc.get("hMerge")), _xml_bool(tc.get("vMerge"))
            gs_, rs_ = int(tc.get("gridSpan", "1")), int(tc.get("rowSpan", "1"))
            if hm or vm:
                x_spanned.add((i, j))
            elif gs_ > 1 or rs_ > 1:
                x_origins[(i, j)] = (rs_, gs_)
    m_origins = {(g[0], g[1]): (g[2], g[3]) for g in model.regions()}
    m_spanned = {(i, j) for i in range(r) for j in range(c) if model.is_spanned(i, j)}
    if x_origins != m_origins:
        pr.append(("xml-regions", "origins", "XML merge origins {cell: (rowSpan, gridSpan)} %r, model %r"
                   % (sorted(x_origins.items()), sorted(m_origins.items()))))
    if x_spanned != m_spanned:
        pr.append(("xml-regions", "spanned", "XML cells with hMerge/vMerge %r, model's spanned cells %r"
                   % (sorted(x_spanned), sorted(m_spanned))))

    # -- text --
    for k, cell in enumerate(cells):
        i, j = divmod(k, c)
        exp = model.paras[i][j]
        bare = _bare_paragraphs(tcs[i][j])
        use_api = touched is None or (i, j) in touched
        got = cell.text.split("\n") if use_api else bare
        if stats is not None and got != exp:
            stats["strict_paragraph_mismatch"] = stats.get("strict_paragraph_mismatch", 0) + 1
        we, wg = nonempty(exp), nonempty(got)
        if wg != we:
            if model.is_spanned(i, j):
                detail = "left-in-spanned-cell"
            else:
                who = "origin" if model.is_origin(i, j) else "cell"
                if sorted(wg) == sorted(we):
                    detail = who + "-order"
                elif [x for x in we if x not in wg]:
                    detail = who + "-text-lost"
                else:
                    detail = who + "-text-extra"
            pr.append(("text", detail, "cell(%d,%d).text paragraphs %r, model %r" % (i, j, got, exp)))
        elif got != exp:
            # same text, but blank paragraphs appeared / disappeared: an empty cell (one empty paragraph, however
            # it is written: <a:p/>, <a:p><a:endParaRPr/></a:p>, <a:p><a:pPr/></a:p>) contributes nothing
            who = "spanned" if model.is_spanned(i, j) else ("origin" if model.is_origin(i, j) else "cell")
            pr.append(("text", who + "-blank-paragraphs", "cell(%d,%d).text paragraphs %r, model %r" % (i, j, got, exp)))
        elif use_api and bare != exp:
            pr.append(("text", "xml-differs-from-api", "cell(%d,%d) XML paragraphs %r, model %r" % (i, j, bare, exp)))

    # -- sizes --
    widths = [int(table.columns[j].width) for j in range(c)]
    heights = [int(table.rows[i].height) for i in range(r)]
    if widths != model.widths:
        pr.append(("size-readback", "col", "column widths %r, model %r" % (widths, model.widths)))
    if heights != model.heights:
        pr.append(("size-readback", "row", "row heights %r, model %r" % (heights, model.heights)))
    if model.sync_w and int(gf.width) != sum(widths):
        pr.append(("frame-size", "width", "frame width %d != sum of column widths %d %r" % (gf.width, sum(widths), widths)))
    if model.sync_h and int(gf.height) != sum(heights):
        pr.append(("frame-size", "height", "frame height %d != sum of row heights %d %r" % (gf.height, sum(heights), heights)))
    xw = [int(g.get("w")) for g in grid]
    xh = [int(t.get("h")) for t in trs]
    if xw != widths or xh != heights:
        pr.append(("size-readback", "xml", "XML gridCol/@w %r tr/@h %r, API %r %r" % (xw, xh, widths, heights)))
    if model.sync_w and cx != sum(xw):
        pr.append(("frame-size", "xml-width", "a:ext/@cx %d != sum of gridCol/@w %d" % (cx, sum(xw))))
    if model.sync_h and cy != sum(xh):
        pr.append(("frame-size", "xml-height", "a:ext/@cy %d != sum of tr/@h %d" % (cy, sum(xh))))
    return pr


def creation_problems(live, cfg, model):
    """Checks specific to a freshly created table (the state check is run by the caller)."""
    pr = []
    if live.requested is None:
        return pr  # a table that pre-exists in a file: nothing was requested
    rw, rh = live.requested
    gf = live.gf
    if sum(live.init_widths) != rw:
        pr.append(("create", "width-sum", "column widths %r sum to %d, requested width %d" % (live.init_widths, sum(live.init_widths), rw)))
    if int(gf.width) != rw:
        pr.append(("create", "frame-width", "frame width %d, requested %d" % (gf.width, rw)))
    if rh is not None:
        if sum(live.init_heights) != rh:
            pr.append(("create", "height-sum", "row heights %r sum to %d, requested height %d" % (live.init_heights, sum(live.init_heights), rh)))
        if int(gf.height) != rh:
            pr.append(("create", "frame-height", "frame height %d, requested %d" % (gf.height, rh)))
    if any(v < 0 for v in live.init_widths + live.init_heights):
        pr.append(("create", "negative-size", "widths %r heights %r" % (live.init_widths, live.init_heights)))
    return pr


# ---- one transition -----------------------------------------------------------------------------------

_FULL_API_TEXT = True  # run() clears it in the quick tier


def touched_cells(model, op):
    """Cells an operation works on (model view): the merge rectangle / the region being split."""
    if op[0] == "m":
        top, left, h, w = model.rect(*op[1:5])
    elif op[0] == "s" and model.region[op[1]][op[2]] is not None:
        top, left, h, w = model.region[op[1]][op[2]]
    else:
        return frozenset()
    return frozenset((i, j) for i in range(top, top + h) for j in range(left, left + w))


_VERIFIED = {}  # per process: (cfg key, canon) -> fingerprint of the model state the full check passed against


def step(env, live, model, op, before=None, fbefore=None, stats=None, cache_key=None):
    """Execute `op` from the state `live` (history already applied) and compare with the model.

    Returns (problems, label, why, outcome, succ_canon, succ_model, dirty) where succ_* are None when the
    state did not change and `dirty` tells the caller that the live state was modified by an operation
    that should have been refused (it must be rebuilt)."""
    label, nxt = model.predict(op)
    why = model.why(op)
    pr = []
    kind = OPNAME[op[0]]
    if label == OK:
        target = env.clone(live)
        try:
            exc = apply_op(target, op)
            if exc is not None:
                pr.append(("op-raised", "%s:%s" % (kind, type(exc).__name__),
                           "%s (%s) raised %r; the model expects it to succeed" % (op_str(op), why, exc)))
                return pr, label, why, type(exc).__name__, None, None, False
            canon = canon_of(target.gf.element)
            # identical XML was already fully checked against an identical model state in this process:
            # the observations are a function of the XML, so the verdict carries over
            fp = nxt.fingerprint() if cache_key is not None else None
            if fp is None or canon is None or _VERIFIED.get((cache_key, canon)) != fp:
                p2 = check_state(target, nxt, stats, None if _FULL_API_TEXT else touched_cells(model, op))
                pr.extend(p2)
                if fp is not None and canon is not None and not p2:
                    if len(_VERIFIED) > 400000:
                        _VERIFIED.clear()
                    _VERIFIED[(cache_key, canon)] = fp
            return pr, label, why, "done", canon, nxt, False
        finally:
            env.drop(target)
    # REFUSE / NOOP: executed on the live state; nothing may change
    if before is None:
        before = c14n(live.gf.element)
    if op[0] == "f" and fbefore is None:
        fbefore = c14n(live.foreign.element)
    exc = apply_op(live, op)
    outcome = "no-exception" if exc is None else type(exc).__name__
    if exc is not None and not isinstance(exc, ValueError):
        pr.append(("wrong-exception", "%s:%s" % (why, type(exc).__name__),
                   "%s (%s) raised %r, ValueError is the documented refusal" % (op_str(op), why, exc)))
    if label == REFUSE and exc is None:
        pr.append(("not-refused", why, "%s (%s) did not raise; it must be refused" % (op_str(op), why)))
    dirty = False
    if c14n(live.gf.element) != before:
        dirty = True
        if exc is not None:
            pr.append(("refused-but-changed", why, "%s (%s) raised %r but the table XML changed" % (op_str(op), why, exc)))
        elif label == NOOP:
            pr.append(("self-merge-changed", why, "%s changed the table XML" % op_str(op)))
        else:
            pr.append(("not-refused", why + ":changed", "%s (%s) did not raise and changed the table XML" % (op_str(op), why)))
    if op[0] == "f" and c14n(live.foreign.element) != fbefore:
        dirty = True
        pr.append(("refused-but-changed", "foreign-table", "%s changed the XML of the other table" % op_str(op)))
    return pr, label, why, outcome, None, None, dirty


# ---- exploration ------------------------------------------------------------------------------------------

_CFGS = []
_ENVS = {}


def _env():
    e = _ENVS.get(os.getpid())
    if e is None:
        _ENVS.clear()
        e = _ENVS[os.getpid()] = Env()
    return e


# one signature per FAMILY of rules and run: the minimal witness (smallest table, shortest history, canonical
# order) and the first problem observed at that witness; the problem's rule:detail is part of the signature
FAMILY = {
    "row-cells": "rectangular",
    "origin-flag": "regions", "spanned-flag": "regions", "span": "regions", "xml-regions": "regions",
    "text": "text",
    "create": "sizes", "frame-size": "sizes", "size-readback": "sizes",
    "not-refused": "refusal", "refused-but-changed": "refusal", "wrong-exception": "refusal",
    "self-merge-changed": "refusal",
    "op-raised": "op-raised",
}


def _wkey(cfg, hist, op):
    return cfg_rank(cfg) + (len(hist) + (1 if op else 0),) + (tuple(hist) + ((tuple(op),) if op else ()),)


def _expand(part, chunk):
    env = _env()
    viol = {}   # family -> (key, what, replay-json)
    succ = {}   # (cfg_idx, canon) -> hist
    stats = {}

    def report(cfg, hist, op, problems):
        done = set()
        for rule, detail, msg in problems:
            part.count("violating_observations")
            fam = FAMILY[rule]
            if fam in done:
                continue  # first problem of a family per transition
            done.add(fam)
            key = _wkey(cfg, hist, op)
            cur = viol.get(fam)
            if cur is None or key < cur[0]:
                data = {"kind": "transition" if op else "create", "cfg": list(cfg), "history": [list(o) for o in hist],
                        "op": list(op) if op else None, "rule": rule, "detail": detail}
                what = "%s after [%s]%s: %s" % (cfg_label(cfg), " ".join(op_str(o) for o in hist),
                                                  (" then " + op_str(op)) if op else " (creation)", msg)
                viol[fam] = (key, what, json.dumps(data, sort_keys=True))

    for cfg_idx, hist in chunk:
        cfg = _CFGS[cfg_idx]
        depth, ori = cfg[6], cfg[8]
        try:
            live = env.build(cfg, hist)
        except CreationFailed as e:
            if hist:
                raise HarnessError("state %r of %s cannot be rebuilt: %s" % (hist, cfg_label(cfg), e))
            part.count("transitions")
            part.count("traces_validated_against_impl")
            part.outcome("create", "raised")
            report(cfg, (), None, [("op-raised", "create:" + str(e).split(":")[0],
                                    "creating the table raised %s" % e)])
            continue
        model = initial_model(cfg, live)
        if not hist:
            # the creation transition: requested sizes + full state check of the initial state
            part.count("transitions")
            part.count("traces_validated_against_impl")
            part.count("nontrivial_count")
            pr = creation_problems(live, cfg, model)
            pr.extend(check_state(live, model, stats))
            canon0 = canon_of(live.gf.element)
            part.outcome("create", "%s/%s" % (("w=%s,h=%s" % (cfg[3], cfg[4])) if cfg[0] == "api" else cfg[0].split(":")[0],
                                                "ok" if not pr else "problem"))
            report(cfg, (), None, pr)
            if canon0 is not None:
                part.add("succ", (cfg_idx, canon0, ()))
            if pr:
                continue
        for o in hist:
            lab, model = model.predict(o)
            if lab != OK:
                raise HarnessError("history %r is not a sequence of state-changing operations in the model" % (hist,))
        last_level = len(hist) + 1 >= depth
        restricted = bool(ori) and len(hist) >= 1
        before = c14n(live.gf.element)
        fbefore = c14n(live.foreign.element)
        cx0, cy0 = frame_ext(live.gf.element)
        for op in ops_for(cfg, restricted):
            part.count("transitions")
            pr, label, why, outcome, canon, nxt, dirty = step(env, live, model, op, before, fbefore, stats, cfg_idx)
            part.count("traces_validated_against_impl")
            same_value = ((op[0] == "h" and model.heights[op[1]] == op[2]) or (op[0] == "w" and model.widths[op[1]] == op[2])
                          or (op[0] == "X" and cx0 == op[1]) or (op[0] == "Y" and cy0 == op[1]))
            extra = ""
            if op[0] in "hw":
                insync = model.sync_h if op[0] == "h" else model.sync_w
                extra = "/same-value" if same_value else ("/%s-merged-table" % ("on" if model.regions() else "on-un"))
                extra += "/frame-%s-before" % ("in-sync" if insync else "out-of-sync")
            elif op[0] in "XY":
                extra = "/%s/%s" % ("width" if op[0] == "X" else "height",
                                    "same-value" if same_value else
                                    ("raised" if nxt is None else "now-in-sync" if (nxt.sync_w if op[0] == "X" else nxt.sync_h)
                                     else "now-out-of-sync"))
            elif op[0] == "f":
                extra = "/this.merge(other)" if op[3] == 0 else "/other.merge(this)"
            part.outcome(OPNAME[op[0]], "%s/%s/%s%s" % (why, label, outcome, extra))
            if label != NOOP and not same_value:
                part.count("nontrivial_count")
            if not same_value and ((op[0] == "h" and cy0 != sum(model.heights)) or (op[0] == "w" and cx0 != sum(model.widths))):
                # the last clause of the statement, from a state in which the frame did NOT equal the sum (observed)
                part.count("size_assignments_from_out_of_sync_frame")
            if pr:
                report(cfg, hist, op, pr)
            elif canon is not None:
                key = (cfg_idx, canon)
                if last_level:
                    part.add("states", key)
                else:
                    h2 = hist + (op,)
                    cur = succ.get(key)
                    if cur is None or h2 < cur:
                        succ[key] = h2
            if dirty:
                live = env.build(cfg, hist)
                before = c14n(live.gf.element)
                fbefore = c14n(live.foreign.element)
                cx0, cy0 = frame_ext(live.gf.element)
    for (ci, canon), h in succ.items():
        part.add("succ", (ci, canon, h))
    for fam, (key, what, js) in viol.items():
        part.add("viol", (fam, key, what, js))
    for k, v in stats.items():
        part.count(k, v)


def make_cfgs(thorough, have_ph, corpus_tables=()):
    cfgs = []
    n = 4
    for r in range(1, n + 1):
        for c in range(1, n + 1):
            big = max(r, c) >= 4
            depth = 3 if (thorough or not big) else 2
            # main variant: full depth; size assignments interleaved on tables up to 3x3
            # (size_ops 2 = row/column assignments AND the caller resizing the frame)
            cfgs.append(("api", r, c, "nondiv", "nondiv", "letters", depth, 0 if big else 2, 0))
            cfgs.append(("api", r, c, "nondiv", "nondiv", "mixed", depth if (thorough or not big) else 2, 0, 0))
            # blank paragraphs before / after / without text paragraphs, the six kinds in rotation
            cfgs.append(("api", r, c, "nondiv", "nondiv", "blanks", 2 if big else 3, 0, 0))
            for wv in VARIANTS:
                for hv in VARIANTS:
                    if (wv, hv) != ("nondiv", "nondiv"):
                        cfgs.append(("api", r, c, wv, hv, "letters", 1, 1, 0))
            if have_ph and not big:
                cfgs.append(("ph", r, c, "ph", "ph", "letters", 1, 1, 0))
    # tables in the forms other producers write (harness-side rewrite of an API-built table)
    for r in range(1, n + 1):
        for c in range(1, n + 1):
            big = max(r, c) >= 4
            if big and not thorough:
                continue
            d3 = 2 if big else 3
            d2 = 2 if (big or not thorough) else 3
            cfgs.append(("api/endpara", r, c, "nondiv", "nondiv", "mixed", d3, 0, 0))
            cfgs.append(("api/ppr", r, c, "nondiv", "nondiv", "mixed", d2, 0, 0))
            cfgs.append(("api/notblpr", r, c, "nondiv", "nondiv", "letters", d2, 0, 0))
            cfgs.append(("api/spans", r, c, "nondiv", "nondiv", "letters", d2, 0, 0))
    cfgs.extend(product_cfgs(thorough))
    # tables of the PowerPoint-authored corpus decks, as they are; size assignments on every one of them (their
    # frame need not equal the sum to begin with), the caller's frame resize interleaved on the small ones
    for via, r, c in corpus_tables:
        small = r * c <= 9
        depth = (3 if small else 2) if thorough else (2 if small else 1)
        cfgs.append((via, r, c, "corpus", "corpus", "corpus", depth, 2 if small else 1, 0))
    # 6x6: every rectangle, then every pair / split from each single-rectangle state
    # (quick: a 5x5 table and one orientation per pair at the second level; thorough: 6x6, all four orientations)
    big_n = 6 if thorough else 5
    cfgs.append(("api", big_n, big_n, "nondiv", "nondiv", "letters", 2, 0, 0 if thorough else 1))
    return cfgs


def product_cfgs(thorough):
    """Every assignment of the six paragraph kinds to the cells of the small shapes (6**(r*c) per shape)."""
    import itertools
    out = []
    for r, c in (PRODUCT_SHAPES_THOROUGH if thorough else PRODUCT_SHAPES_QUICK):
        depth = 1 if (not thorough or max(r, c) >= 4) else (2 if r * c >= 4 else 3)
        for digits in itertools.product("012345", repeat=r * c):
            out.append(("api", r, c, "nondiv", "nondiv", "k:" + "".join(digits), depth, 0, 0))
    return out


def discover_corpus_tables():
    """[(via, r, c)] for every top-level table shape of the repository's decks, plus the skipped ones."""
    from mc.drivers import fixtures
    from pptx import Presentation
    found, skipped = [], []
    repo = os.environ.get("VERIF_REPO", "/repo")
    for path in fixtures.corpus():
        try:
            prs = Presentation(path)
        except Exception:  # noqa: BLE001 - opening the corpus is C16's business
            continue
        rel = os.path.relpath(path, repo)
        for si, slide in enumerate(prs.slides):
            for hi, sh in enumerate(slide.shapes):
                if not getattr(sh, "has_table", False):
                    continue
                via = "corpus:%s:%d:%d" % (rel, si, hi)
                sc = scan_table(sh.element)
                if sc["skip"] or sc["r"] * sc["c"] > 36:
                    skipped.append("%s: %s" % (via, sc["skip"] or "too large"))
                else:
                    found.append((via, sc["r"], sc["c"]))
    return sorted(found), skipped


def run(ctx):
    global _CFGS, _FULL_API_TEXT
    _FULL_API_TEXT = bool(ctx.thorough)
    have_ph = os.path.exists(PH_FILE)
    ctx.extra["placeholder_creation_path"] = "explored" if have_ph else "skipped: %s not found" % PH_FILE
    corpus_tables, skipped = discover_corpus_tables()
    ctx.extra["corpus_tables_explored"] = [v for v, _r, _c in corpus_tables]
    ctx.extra["corpus_tables_skipped"] = skipped
    if os.path.isdir(os.path.join(os.environ.get("VERIF_REPO", "/repo"), "features", "steps", "test_files")) \
            and len(corpus_tables) < 5:
        raise HarnessError("only %d corpus tables found (floor 5): %r" % (len(corpus_tables), skipped))
    _CFGS = make_cfgs(ctx.thorough, have_ph, corpus_tables)
    shapes = PRODUCT_SHAPES_THOROUGH if ctx.thorough else PRODUCT_SHAPES_QUICK
    n_product = sum(1 for cfg in _CFGS if cfg[5].startswith("k:"))
    if n_product != sum(len(KINDS) ** (r * c) for r, c in shapes) or len(set(_CFGS)) != len(_CFGS):
        raise HarnessError("text-kind product: %d configurations, closed form %d"
                           % (n_product, sum(len(KINDS) ** (r * c) for r, c in shapes)))
    ctx.extra["text_kind_product"] = {"kinds": list(KINDS), "shapes": ["%dx%d" % s_ for s_ in shapes],
                                      "configurations": n_product}
    budget_s = float(os.environ.get("VERIF_C14_BUDGET_S", "900")) if ctx.thorough else 1e9
    t0 = time.time()

    seen = {}
    nops = {}
    expected_transitions = 0
    frontier = [(ci, ()) for ci in range(len(_CFGS))]
    level = 0
    completed = -1
    expanded = 0
    capped = False
    while frontier:
        # big tables first (a 6x6 state costs orders of magnitude more than a 1x2 state), small chunks
        items = ctx.rotate(sorted(frontier, key=lambda it: (-_CFGS[it[0]][1] * _CFGS[it[0]][2], it)))
        BATCH = 4000
        for b0 in range(0, len(items), BATCH):
            if time.time() - t0 > budget_s:
                capped = True
                break
            batch = items[b0:b0 + BATCH]
            for ci, h in batch:
                if ci not in nops:
                    nops[ci] = (len(ops_for(_CFGS[ci], False)), len(ops_for(_CFGS[ci], bool(_CFGS[ci][8]))))
                expected_transitions += (1 + nops[ci][0]) if not h else nops[ci][1]
            fanout(ctx, _expand, batch, chunk_size=max(1, min(6, len(batch) // 64)))
            expanded += len(batch)
        if capped:
            ctx.cap("time budget of %.0f s reached while expanding level %d (%d of %d states of that level expanded); "
                    "levels below are complete" % (budget_s, level, expanded, len(items)))
            break
        completed = level
        nxt = {}
        for ci, canon, h in ctx.sets.pop("succ", set()):
            key = (ci, canon)
            if key in seen:
                continue
            cur = nxt.get(key)
            if cur is None or h < cur:
                nxt[key] = h
        seen.update(nxt)
        if level == 0:
            missing = set(range(len(_CFGS))) - {ci for (ci, _c), h in nxt.items() if h == ()}
            if missing and not ctx.sets.get("viol"):
                raise HarnessError("no initial state for configurations %r" % sorted(missing))
        frontier = [(ci, h) for (ci, _canon), h in nxt.items() if h and len(h) < _CFGS[ci][6]]
        level += 1
        expanded = 0

    # ---- results ----
    if not ctx.sets.get("viol") and ctx.counters.get("transitions", 0) != expected_transitions:
        raise HarnessError("transitions executed %r != |expanded states| x |alphabet| + creations = %d"
                           % (ctx.counters.get("transitions"), expected_transitions))
    ctx.extra["closed_form_transitions"] = expected_transitions
    last = ctx.sets.pop("states", set())
    all_states = set(seen) | last
    ctx.count("states", len(all_states))
    ctx.extra["max_depth_completed_per_shape"] = "see caps" if capped else "all bounds completed"
    ctx.extra["operations_depth_completed"] = completed + 1
    ctx.extra["depth_bound_per_shape"] = {"%dx%d" % (c[1], c[2]): c[6] for c in _CFGS if c[0] == "api" and c[3:6] == ("nondiv", "nondiv", "letters")}
    ctx.extra["configurations"] = len(_CFGS)
    ctx.extra["strict_paragraph_model_mismatches"] = ctx.counters.pop("strict_paragraph_mismatch", 0)
    n_oos = ctx.counters.pop("size_assignments_from_out_of_sync_frame", 0)
    ctx.extra["size_assignments_from_out_of_sync_frame"] = n_oos
    if n_oos < 100 and not ctx.sets.get("viol"):
        raise HarnessError("only %d row-height / column-width assignments were made on a table whose frame size did "
                           "not equal the sum beforehand (floor 100)" % n_oos)
    per_shape = {}
    for ci, _canon in all_states:
        cfg = _CFGS[ci]
        k = "%dx%d" % (cfg[1], cfg[2])
        per_shape[k] = per_shape.get(k, 0) + 1
    ctx.extra["states_per_shape"] = dict(sorted(per_shape.items()))
    ctx.sample({"cfg": cfg_label(_CFGS[0]), "ops": [op_str(o) for o in ops_for(_CFGS[0])]})
    deep = sorted(h for (ci, _c), h in seen.items() if _CFGS[ci][1:3] == (3, 3) and len(h) == 2)
    if deep:
        ctx.sample({"3x3 state reached by": [op_str(o) for o in deep[len(deep) // 2]]})

    # one signature per rule family: the minimal witness over the whole run
    best = {}
    for fam, key, what, js in ctx.sets.pop("viol", set()):
        cur = best.get(fam)
        if cur is None or (key, what) < (cur[0], cur[1]):
            best[fam] = (key, what, js)
    for fam, (key, what, js) in sorted(best.items(), key=lambda kv: kv[1][0]):
        data = json.loads(js)
        cfg = tuple(data["cfg"])
        hist = [op_str(o) for o in data["history"]] + ([op_str(data["op"])] if data["op"] else [])
        sig = "C14|%s|%s:%s|%s|%s" % (fam, data["rule"], data["detail"], cfg_label(cfg), " ".join(hist) or "create")
        ctx.violation(sig, what, data)

    if ctx.counters.get("transitions", 0) < 1000 or len(all_states) < 100:
        raise HarnessError("vacuous run: %r transitions, %d states" % (ctx.counters.get("transitions"), len(all_states)))


def replay(data):
    cfg = tuple(data["cfg"])
    hist = tuple(tuple(o) for o in data["history"])
    env = Env()
    try:
        live = env.build(cfg, hist)
    except CreationFailed as e:
        if data["rule"] == "op-raised" and data["kind"] == "create":
            return "creating the table raised %s" % e
        raise
    model = initial_model(cfg, live)
    if data["kind"] == "create":
        pr = creation_problems(live, cfg, model)
        pr.extend(check_state(live, model))
    else:
        for o in hist:
            _lab, model = model.predict(o)
        pr = step(env, live, model, tuple(data["op"]))[0]
    msgs = [m for rule, detail, m in pr if (rule, detail) == (data["rule"], data["detail"])]
    return "; ".join(msgs) or None
