"""C16 — recoverable irregular packages open intact; non-packages are refused cleanly.

Fault enumeration (engine E2).  The injector (mc/props/c16_faults.py, bare zip + lxml) rewrites a deck:

  member level   retarget(rel)        every internal relationship of every reachable source -> Target="NULL"
                                      (with form=dir also -> Target="/ppt", a name that is a directory, not a part)
                 del-part(part)       every reachable part deleted (its .rels item stays: orphan item)
                 del-rels(part|pkg)   every existing .rels item deleted (incl. /_rels/.rels)
                 ct-flip(entry)       every Default/Override: Extension / PartName case-swapped
                 name-flip(part)      the symmetric irregularity on the part NAME: Default-typed part -> extension
                                      of the name case-swapped (image1.PNG), Override-typed part -> whole name
                                      case-swapped; member, .rels item and all relationship targets follow,
                                      [Content_Types].xml is left exactly as it was  (a base, like rename)
                 ct-unknown(entry)    every Default/Override: ContentType -> an unknown type
                 extra(variant)       unreferenced member: declared / undeclared / orphan .rels item / zip dir entry
                 no-core              core-properties part and its relationship removed
                 wrong-main(variant)  main part declared wordprocessing / spreadsheet / slide
                 missing              [Content_Types].xml removed  (/_rels/.rels and the main part are
                                      del-rels(package) and del-part(main))
  base           rename               slide parts renamed (fixtures.rename_members) by every permutation of
                                      the first <= 4 slides over their own names and over a pool with a gap
  byte level     trunc(offset)        zip cut at every member boundary, mid-member, central directory
                                      start/middle, end record start/middle, last byte
                 nonzip(variant)      empty / text / PNG ; empty directory and nofile (path only)
  form           stream | path | dir  (dir = the "directory-form package" irregularity)

Oracle: mc.oracles.opc_ref reads the *faulted input* independently and decides
  refuse  not a zip -> BadZipFile (stream) / PackageNotFoundError (path; BadZipFile also accepted when
          zipfile.is_zipfile() says yes but the directory cannot be read); no [Content_Types].xml, no package
          rels item, no officeDocument relationship or a dangling one -> KeyError; main part typed as
          something other than a presentation -> ValueError
  open    the loaded package must hold exactly the reachable parts (name, content type, payload byte-equal or,
          for XML, c14n-equal after blank-text stripping) and exactly the non-dangling relationships per source;
          one save must satisfy opc_ref.closure_errors except for relationships / r:* references already
          dangling in the input, and must still hold every reachable part with its payload.
          rename bases (when every slide relationship is intact): iterating prs.slides gives the slides in
          sldIdLst order with unchanged content and distinct part names; after save the order/content holds.
          no-core: prs.core_properties is accessed before the save (documented to create a default part).

Deviations from DESIGN 4/C16 (stated, none weakens the quantifier):
  * "delete the target member per relationship" is enumerated per distinct target part (several
    relationships to one part delete the same member).
  * pairs in which one fault deletes the member the other one edits are one of the two single faults again
    and are skipped (counted as pairs_subsumed); nonzip/nofile replace the whole input and are not paired.
  * the renaming of slide parts to slide1..n on `prs.slides` is recorded as an outcome, not demanded: the
    statement promises order and content, the numbering is mechanism.  `rel.target_part.partname` (not the
    caching `target_partname`) is read so that the check does not trip C02's stale-cache defect.
  * a pair violation is minimised (each atom dropped in turn, re-executed) before it is reported, so a defect
    of one single fault has one signature.
  * cost: a faulted input that is not going to be truncated is re-zipped without compression (own writer,
    not fixtures.write_zip); during exploration the reference package is built from the very member dict the
    input was written from, replay() re-reads the written zip / directory with opc_ref.read instead.
  * two non-listed but in-spirit variants: a relationship voided to the *directory* name "/ppt" (only with
    form=dir, where it differs from "NULL"), and a path to an empty directory (KeyError or
    PackageNotFoundError accepted).
"""

from __future__ import annotations

import hashlib
import io
import itertools
import zipfile
from collections import Counter

from lxml import etree

from mc.core.parallel import fanout
from mc.core.run import HarnessError
from mc.drivers import fixtures as fx
from mc.oracles import opc_ref
from mc.props import c16_faults as F

LEVEL = "fault_enumeration"
RULE = ("every single fault at every applicable location of every corpus deck (+2 synthetic decks): per internal "
        "relationship retarget-to-missing, per reachable part delete, per .rels item delete, per "
        "Default/Override case-flip and unknown-type, 4 kinds of extra member, core-properties removal, 3 wrong "
        "main types, missing [Content_Types].xml, every slide-part rename (permutations of <=4 slides, with and "
        "without a gap), directory form, truncation at 2m+4 offsets x {path,stream}, 3 non-zip inputs x "
        "{path,stream}, missing file; and every unordered pair of those on the smallest decks (member x member, "
        "member x dir, rename x member, rename x dir, member x truncation, rename x truncation, name-flip x dir; "
        "thorough also name-flip x member). Single faults also include, per reachable part, the case flip of "
        "the part NAME against an unchanged declaration (extension for Default-typed, whole name for "
        "Override-typed parts). A case is "
        "non-trivial when it carries at least one injected irregularity; cases are distinct by construction "
        "(deck, base, fault locations, form); fault-free baselines are evaluated but not counted.")
ASSUMPTIONS = [
    "stdlib zipfile decides what is a zip (is_zipfile / BadZipFile) for both the reference and the implementation",
    "reference reader mc/oracles/opc_ref.py (bare zipfile + lxml) defines 'still reachable' and the closure rules",
    "XML payload equality is c14n equality after lxml blank-text stripping (python-pptx parses with remove_blank_text)",
    "corrupt (not truncated) members, duplicate rIds, unparseable XML items are outside the statement and not injected",
    "pairs: quick = 3 smallest corpus decks + synthetic:min2; thorough = 12 smallest corpus decks + default template + synthetic:min2",
]

PRS_NS = {"p": "http://schemas.openxmlformats.org/presentationml/2006/main", "r": opc_ref.R_NS}
SLIDE_CT = "application/vnd.openxmlformats-officedocument.presentationml.slide+xml"
CORE_CT = "application/vnd.openxmlformats-package.core-properties+xml"

_STRIP = etree.XMLParser(remove_blank_text=True, resolve_entities=False)
_C14N: dict = {}
_RIDS: dict = {}


def _xml_digest(blob: bytes):
    h = hashlib.sha1(blob).digest()
    d = _C14N.get(h)
    if d is None:
        try:
            root = etree.fromstring(blob, _STRIP)
            d = hashlib.sha1(etree.tostring(root, method="c14n")).digest()
        except etree.XMLSyntaxError:
            d = b"not-well-formed:" + h
        if len(_C14N) > 20000:
            _C14N.clear()
        _C14N[h] = d
    return d


def same_payload(a: bytes, b: bytes) -> bool:
    if a == b:
        return True
    if not a.lstrip()[:1] == b"<" and not a[:3] == b"\xef\xbb\xbf":
        return False
    da, db = _xml_digest(a), _xml_digest(b)
    return da == db and len(da) == 20


_RIDFULL: dict = {}
_ORIG_RID_REFS = opc_ref.rid_refs


def _rid_refs_cached(blob: bytes):
    h = hashlib.sha1(blob).digest()
    if h not in _RIDFULL:
        if len(_RIDFULL) > 20000:
            _RIDFULL.clear()
        _RIDFULL[h] = _ORIG_RID_REFS(blob)
    return _RIDFULL[h]


def _rid_vals(blob: bytes):
    """r:* attribute values of an XML payload (cached); None when not XML."""
    if not (blob.lstrip()[:1] == b"<" or blob[:3] == b"\xef\xbb\xbf"):
        return None
    h = hashlib.sha1(blob).digest()
    if h not in _RIDS:
        refs = _rid_refs_cached(blob)
        if len(_RIDS) > 20000:
            _RIDS.clear()
        _RIDS[h] = None if refs is None else sorted({v for _, v, _ in refs if v != ""})
    return _RIDS[h]


# ---- reference side ---------------------------------------------------------------------------------

def reference_verdict(case, ref_input, arg, members=None):
    """-> ("refuse", tuple of accepted exception class names, reason) | ("open", RefPackage) | ("skip", reason)"""
    form = case["form"]
    if ref_input is None:  # no file at the path
        return ("refuse", ("PackageNotFoundError",), "no file at the path")
    try:
        if members is not None:
            # no byte-level fault: the input *is* these members (written by the harness's own zip/dir writer)
            ref = opc_ref.RefPackage(F.clean_members(members))
        else:
            ref = opc_ref.read(ref_input)
    except zipfile.BadZipFile:
        if form == "stream":
            return ("refuse", ("BadZipFile",), "not a zip, stream")
        if zipfile.is_zipfile(arg):
            return ("refuse", ("PackageNotFoundError", "BadZipFile"), "end record found but directory unreadable (path)")
        return ("refuse", ("PackageNotFoundError",), "not a zip, path")
    except (zipfile.LargeZipFile, NotImplementedError, EOFError, OSError, RuntimeError) as e:  # corrupt member
        return ("skip", "reference cannot read a member: %s" % type(e).__name__)
    if not ref.members and (case.get("byte") or {}).get("v") == "emptydir":
        # a path to an empty directory: "not a package, given as a path" and "mandatory member missing" both apply
        return ("refuse", ("KeyError", "PackageNotFoundError"), "empty directory")
    if F.CT_MEMBER not in ref.members:
        return ("refuse", ("KeyError",), "no [Content_Types].xml")
    if ref.ct_error:
        return ("skip", "unparseable content types")
    main = ref.main_part()
    if main is None or not ref.has_part(main):
        return ("refuse", ("KeyError",), "no main part (%s)" % ("no officeDocument relationship" if main is None else "target absent"))
    n_main = sum(1 for r in ref.rels("/") if r.type == opc_ref.RT_OFFICE_DOCUMENT)
    if n_main != 1:
        return ("skip", "several officeDocument relationships")
    ct, _ = ref.content_type(main)
    if ct is None:
        return ("skip", "main part has no content type")
    if ct not in F.PRESENTATION_MAIN_TYPES:
        return ("refuse", ("ValueError",), "main part typed %s" % ct)
    for pn in ref.reachable():
        if ref.content_type(pn)[0] is None:
            return ("skip", "reachable part without a content type")
    return ("open", ref)


def expected_rels(ref, src):
    out = set()
    for r in ref.rels(src):
        if r.mode == "External":
            out.add((r.id, r.type, "ext", r.target_raw))
        elif ref.has_part(r.target):
            out.add((r.id, r.type, "int", r.target))
    return out


def already_dangling(ref, reach):
    ad = set()
    for src in ["/"] + reach:
        live = set()
        for r in ref.rels(src):
            if r.mode != "External" and not ref.has_part(r.target):
                ad.add((src, r.id))
            else:
                live.add(r.id)
        if src == "/":
            continue
        vals = _rid_vals(ref.blob(src))
        for v in vals or ():
            if v not in live:
                ad.add((src, v))
    return ad


def ref_slides(ref):
    """[(partname, blob)] in sldIdLst order, or None when some slide relationship is not intact."""
    main = ref.main_part()
    root = etree.fromstring(ref.blob(main))
    ids = root.xpath("p:sldIdLst/p:sldId/@r:id", namespaces=PRS_NS)
    rmap = {r.id: r for r in ref.rels(main)}
    out = []
    for i in ids:
        r = rmap.get(i)
        if r is None or r.mode == "External" or not ref.has_part(r.target):
            return None
        if ref.content_type(r.target)[0] != SLIDE_CT:
            return None
        out.append((r.target, ref.blob(r.target)))
    return out


# ---- implementation side ----------------------------------------------------------------------------

def _rel_key(rel):
    if rel.is_external:
        return (rel.rId, rel.reltype, "ext", rel.target_ref)
    return (rel.rId, rel.reltype, "int", str(rel.target_part.partname))


def compare_loaded(prs, ref):
    """-> (rule, detail, text) for the first difference between the loaded package and the reference, or None."""
    pkg = prs.part.package
    parts = list(pkg.iter_parts())
    got = {}
    for p in parts:
        pn = str(p.partname)
        if pn in got:
            return ("parts-differ", "duplicate-part", "iter_parts yields %s twice" % pn)
        got[pn] = p
    reach = ref.reachable()
    exp = set(reach)
    for pn in sorted(exp - set(got)):
        return ("parts-differ", "missing:%s" % F.short(ref.content_type(pn)[0]), "reachable part %s is not in the loaded package" % pn)
    for pn in sorted(set(got) - exp):
        return ("parts-differ", "extra:%s" % F.short(got[pn].content_type), "loaded package holds %s which is not reachable in the input" % pn)
    for pn in reach:
        p = got[pn]
        ect = ref.content_type(pn)[0]
        if p.content_type != ect:
            return ("type-differs", F.short(ect), "%s: content type %r, input declares %r" % (pn, p.content_type, ect))
        if not same_payload(ref.blob(pn), p.blob):
            return ("payload-differs", F.short(ect), "%s: payload differs from the input member" % pn)
    total = Counter()
    for pn in reach:
        g = set(_rel_key(r) for r in got[pn].rels.values())
        total.update(g)
        e = expected_rels(ref, pn)
        if g != e:
            d = sorted(e - g) or sorted(g - e)
            kind = "missing" if e - g else "extra"
            return ("rels-differ", "%s:%s" % (kind, F.short(d[0][1])), "%s: relationships %s: %r" % (pn, kind, d[:3]))
    allrels = Counter(_rel_key(r) for r in pkg.iter_rels())
    pkg_level = allrels - total
    if total - allrels:
        return ("rels-differ", "iter_rels-misses-part-rels", "iter_rels lacks %r" % (sorted((total - allrels))[:3],))
    e = Counter(expected_rels(ref, "/"))
    if pkg_level != e:
        d = sorted((e - pkg_level)) or sorted((pkg_level - e))
        kind = "missing" if e - pkg_level else "extra"
        return ("rels-differ", "package-%s:%s" % (kind, F.short(d[0][1])), "package relationships %s: %r" % (kind, d[:3]))
    return None


def check_saved(saved: bytes, ref, reach, ad, name_map, allow_core):
    try:
        sref = opc_ref.read(saved)
    except Exception as e:  # noqa
        return ("saved-unreadable", type(e).__name__, "saved package cannot be read: %r" % (e,))
    ad2 = {(name_map.get(s, s), i) for s, i in ad}
    # closure_errors re-parses every XML part of every saved package; the payloads repeat from case to
    # case, so its r:* scanner is memoised by payload hash for the duration of the call (same results)
    orig = opc_ref.rid_refs
    opc_ref.rid_refs = _rid_refs_cached
    try:
        errs = opc_ref.closure_errors(sref, already_dangling=ad2)
    finally:
        opc_ref.rid_refs = orig
    if errs:
        rule, detail = sorted(errs)[0]
        return ("save-closure", rule, "saved package breaks closure rule %s: %s (%d errors)" % (rule, detail, len(errs)))
    sreach = set(sref.reachable())
    for pn in reach:
        new = name_map.get(pn, pn)
        if new not in sreach:
            return ("saved-parts-differ", "missing:%s" % F.short(ref.content_type(pn)[0]), "saved package lacks %s (input %s)" % (new, pn))
        if not same_payload(ref.blob(pn), sref.blob(new)):
            return ("saved-payload-differs", F.short(ref.content_type(pn)[0]), "saved %s differs from input %s" % (new, pn))
    extra = sreach - {name_map.get(pn, pn) for pn in reach}
    for pn in sorted(extra):
        if allow_core and sref.content_type(pn)[0] == CORE_CT:
            continue
        return ("saved-parts-differ", "extra:%s" % F.short(sref.content_type(pn)[0]), "saved package holds unexpected %s" % pn)
    return ("ok", sref)


def run_case(case, independent=False):
    """Execute one case on the implementation and judge it (independent=True: the reference re-reads the
    written zip / directory instead of trusting the member dict it was written from; used by replay).
    -> dict(outcome=label, viol=None|(rule, detail, text), skip=None|reason, info={...})"""
    from pptx import Presentation
    from pptx.exc import PackageNotFoundError

    zbytes, members = F.case_zip_bytes(case)
    arg, cleanup, ref_input = F.materialise(case, zbytes, members)
    info = {}
    try:
        verdict = reference_verdict(case, ref_input, arg, None if (case.get("byte") or independent) else members)
        if verdict[0] == "skip":
            return {"outcome": "skipped", "viol": None, "skip": verdict[1], "info": info}
        exc = None
        prs = None
        try:
            prs = Presentation(arg)
        except Exception as e:  # noqa - the class is what is judged
            exc = e
        if verdict[0] == "refuse":
            accepted = verdict[1]
            info["refusal"] = verdict[2].split(" (")[0].split(" typed ")[0]
            classes = {"PackageNotFoundError": PackageNotFoundError, "BadZipFile": zipfile.BadZipFile,
                       "KeyError": KeyError, "ValueError": ValueError}
            if exc is None:
                return {"outcome": "opened", "skip": None, "info": info,
                        "viol": ("not-refused", "expected=%s" % "/".join(accepted),
                                 "input is refused by the statement (%s) but Presentation() returned" % verdict[2])}
            ok = any(isinstance(exc, classes[a]) for a in accepted) and not isinstance(exc, UnicodeError)
            if not ok:
                return {"outcome": type(exc).__name__, "skip": None, "info": info,
                        "viol": ("wrong-exception", type(exc).__name__,
                                 "%s: expected %s, got %s: %s" % (verdict[2], "/".join(accepted), type(exc).__name__, str(exc)[:200]))}
            return {"outcome": type(exc).__name__, "viol": None, "skip": None, "info": info}

        ref = verdict[1]
        if exc is not None:
            return {"outcome": type(exc).__name__, "skip": None, "info": info,
                    "viol": ("open-raised", type(exc).__name__,
                             "recoverable input, Presentation() raised %s: %s" % (type(exc).__name__, str(exc)[:300]))}
        reach = ref.reachable()
        info["reachable"] = len(reach)
        info["dangling"] = len(ref.dangling())
        d = compare_loaded(prs, ref)
        if d:
            return {"outcome": "opened", "viol": d, "skip": None, "info": info}
        ad = already_dangling(ref, reach)
        name_map = {}
        slides_in = ref_slides(ref) if case.get("rename") else None
        if slides_in is not None and not (set(case["rename"].values()) & {pn for pn, _ in slides_in}):
            slides_in = None  # the rename does not touch a slide part: prs.slides is not part of the case
        if slides_in is not None:
            try:
                got = [(str(s.part.partname), s.part.blob) for s in prs.slides]
            except Exception as e:  # noqa
                return {"outcome": "opened", "skip": None, "info": info,
                        "viol": ("slides-raised", type(e).__name__, "iterating prs.slides raised %r" % (e,))}
            if len(got) != len(slides_in):
                return {"outcome": "opened", "skip": None, "info": info,
                        "viol": ("slides-differ", "count", "%d slides, input has %d" % (len(got), len(slides_in)))}
            for i, ((gn, gb), (en, eb)) in enumerate(zip(got, slides_in)):
                if not same_payload(eb, gb):
                    return {"outcome": "opened", "skip": None, "info": info,
                            "viol": ("slides-differ", "order-or-content", "slide %d is not the input's slide %d (%s)" % (i + 1, i + 1, en))}
                name_map[en] = gn
            if len(set(name_map.values())) != len(name_map):
                return {"outcome": "opened", "skip": None, "info": info,
                        "viol": ("slides-differ", "duplicate-partname", "slide part names after prs.slides: %r" % ([g for g, _ in got],))}
            info["renumbered"] = [g for g, _ in got] == ["/ppt/slides/slide%d.xml" % (i + 1) for i in range(len(got))]
            info["slides_distinct"] = len({_xml_digest(b) for _, b in slides_in}) == len(slides_in)
        allow_core = False
        if any(f["k"] == "no-core" for f in case["faults"]):
            try:
                prs.core_properties.title  # documented: creates a default part when absent
            except Exception as e:  # noqa
                return {"outcome": "opened", "skip": None, "info": info,
                        "viol": ("coreprops-raised", type(e).__name__, "prs.core_properties raised %r on a deck without core properties" % (e,))}
            allow_core = True
        buf = io.BytesIO()
        try:
            prs.save(buf)
        except Exception as e:  # noqa
            return {"outcome": "opened", "skip": None, "info": info,
                    "viol": ("save-raised", type(e).__name__, "save of the opened irregular package raised %s: %s" % (type(e).__name__, str(e)[:300]))}
        res = check_saved(buf.getvalue(), ref, reach, ad, name_map, allow_core)
        if res[0] != "ok":
            return {"outcome": "opened", "viol": res, "skip": None, "info": info}
        if slides_in is not None:
            s2 = ref_slides(res[1])
            if s2 is None or len(s2) != len(slides_in) or any(not same_payload(a[1], b[1]) for a, b in zip(slides_in, s2)):
                return {"outcome": "opened", "skip": None, "info": info,
                        "viol": ("slides-differ", "after-save", "slide order/content after save differs from the input")}
        return {"outcome": "opened", "viol": None, "skip": None, "info": info}
    finally:
        cleanup()


# ---- minimisation / reporting -------------------------------------------------------------------------

def _smaller(case):
    """Cases with one atom removed."""
    out = []
    if case.get("byte"):
        c = dict(case, byte=None)
        out.append(c)
    if case["form"] != "stream" and not (case.get("byte") and case["byte"]["k"] == "nofile"):
        out.append(dict(case, form="stream"))
    for i in range(len(case["faults"])):
        out.append(dict(case, faults=case["faults"][:i] + case["faults"][i + 1:]))
    if case.get("rename"):
        c = dict(case, rename=None)
        c.pop("rename_label", None)
        out.append(c)
    return out


def minimise(case, rule):
    changed = True
    while changed:
        changed = False
        for c in _smaller(case):
            try:
                r = run_case(c)
            except Exception:  # noqa - a reduced case that the harness cannot build is not adopted
                continue
            if r["viol"] and r["viol"][0] == rule:
                case, changed = c, True
                break
    return case


def _report(part, case, res):
    rule = res["viol"][0]
    atoms = len(case["faults"]) + bool(case.get("rename")) + bool(case.get("byte")) + (case["form"] != "stream")
    if atoms > 1:
        case = minimise(case, rule)
        res = run_case(case)
        if not res["viol"]:
            raise HarnessError("minimised case lost the violation: %r" % (case,))
    rule, detail, text = res["viol"]
    sig = "C16|%s|fault=%s|%s" % (rule, F.kind_label(case), detail)
    part.violation(sig, "%s [deck %s, case %s]" % (text, case["deck"], _case_str(case)), case)


def _case_str(case):
    bits = []
    if case.get("rename"):
        bits.append("rename %s" % ",".join("%s->%s" % (k.rsplit("/", 1)[1], v.rsplit("/", 1)[1]) for k, v in sorted(case["rename"].items())))
    for f in case["faults"]:
        bits.append(" ".join("%s" % f[k] for k in ("k", "src", "rid", "part", "i", "v", "m") if k in f))
    if case.get("byte"):
        bits.append("%s %s" % (case["byte"]["k"], case["byte"].get("at", case["byte"].get("v", ""))))
    bits.append("form=%s" % case["form"])
    return "; ".join(bits)


def _one(part, case, baseline=False):
    res = run_case(case)
    part.count("evaluations")
    kinds = F.kinds_only(case)
    part.outcome(kinds, res["outcome"])
    part.count("outcome_" + ("opened" if res["outcome"] == "opened" else "skipped" if res["skip"] else "raised"))
    if res["skip"]:
        part.count("skipped_outside_statement")
        part.add("skip_reasons", res["skip"])
        return res
    if not baseline:
        part.count("nontrivial_count")
    if res["info"].get("refusal"):
        part.count("refusal: " + res["info"]["refusal"])
    if res["info"].get("dangling"):
        part.count("cases_with_dangling_rels")
    if "renumbered" in res["info"]:
        part.count("slides_checked")
        part.outcome("prs.slides-renumbers", str(res["info"]["renumbered"]))
        if res["info"]["slides_distinct"]:
            part.count("slides_checked_distinct_content")
    if res["viol"]:
        _report(part, case, res)
    return res


def _work(part, items):
    for it in items:
        if it.get("trunc_all"):
            case = {k: v for k, v in it.items() if k != "trunc_all"}
            zbytes, _m = F.case_zip_bytes(case)
            pts = F.trunc_points(zbytes)
            for at, region in pts:
                for form in ("stream", "path"):
                    _one(part, dict(case, byte={"k": "trunc", "at": at, "region": region}, form=form))
            part.count("trunc_groups")
        else:
            _one(part, it, baseline=it.get("baseline", False))
        if it.get("sample"):
            part.sample({k: v for k, v in it.items() if k not in ("sample",)})


# ---- enumeration of the case space ----------------------------------------------------------------------

def _case(deck, faults=(), rename=None, rename_label=None, byte=None, form="stream"):
    c = {"deck": deck, "rename": rename, "faults": list(faults), "byte": byte, "form": form}
    if rename:
        c["rename_label"] = rename_label
    return c


def single_items(deck):
    """-> (items, expected evaluations, per-kind counts)"""
    zbytes, members = F.base_members(deck, None)
    items, n = [], 0
    kinds = Counter()
    for form in ("stream", "path"):
        items.append(dict(_case(deck, form=form), baseline=True))
    items.append(_case(deck, form="dir"))
    kinds["dir"] += 1
    n += 3
    mf = F.enum_member_faults(members)
    for f in mf:
        items.append(_case(deck, [f]))
        kinds[f["k"]] += 1
    n += len(mf)
    for label, mapping in F.enum_renames(members):
        items.append(_case(deck, rename=mapping, rename_label=label))
        kinds["rename"] += 1
        n += 1
    for label, mapping in F.enum_name_flips(members):
        items.append(_case(deck, rename=mapping, rename_label=label))
        kinds["name-flip:" + F.FLIP_LABELS[label]] += 1
        n += 1
    items.append(dict(_case(deck), trunc_all=True))
    m_entries = len(members)
    n += 2 * F.n_trunc_points(m_entries)
    kinds["trunc"] += 2 * F.n_trunc_points(m_entries)
    for v in ("empty", "text", "png"):
        for form in ("stream", "path"):
            items.append(_case(deck, byte={"k": "nonzip", "v": v}, form=form))
            kinds["nonzip"] += 1
            n += 1
    items.append(_case(deck, byte={"k": "nofile"}, form="path"))
    kinds["nofile"] += 1
    n += 1
    items.append(_case(deck, byte={"k": "nonzip", "v": "emptydir"}, form="path"))
    kinds["nonzip"] += 1
    n += 1
    return items, n, kinds, len(mf)


def pair_items(deck, thorough=False):
    """-> (items, expected evaluations, subsumed pair count)"""
    zbytes, members = F.base_members(deck, None)
    mf = F.enum_member_faults(members)
    items, n, subsumed = [], 0, 0
    for fa, fb in itertools.combinations(mf, 2):
        if not F.compatible(fa, fb, members):
            subsumed += 1
            continue
        items.append(_case(deck, [fa, fb]))
        n += 1
    for f in mf:
        items.append(_case(deck, [f], form="dir"))
        n += 1
        items.append(dict(_case(deck, [f]), trunc_all=True))
        n += 2 * F.n_trunc_points(len(F.apply_faults(members, [f])))
    for f in F.enum_dirname_retargets(members):
        items.append(_case(deck, [f], form="dir"))
        n += 1
    for label, mapping in F.enum_renames(members):
        _zb, rmembers = F.base_members(deck, mapping, label)
        rf = F.enum_member_faults(rmembers)
        if len(rf) != len(mf):
            raise HarnessError("rename changed the fault space of %s: %d != %d" % (deck, len(rf), len(mf)))
        for f in rf:
            items.append(_case(deck, [f], rename=mapping, rename_label=label))
            n += 1
        items.append(_case(deck, rename=mapping, rename_label=label, form="dir"))
        n += 1
        items.append(dict(_case(deck, rename=mapping, rename_label=label), trunc_all=True))
        n += 2 * F.n_trunc_points(len(rmembers))
    for label, mapping in F.enum_name_flips(members):
        items.append(_case(deck, rename=mapping, rename_label=label, form="dir"))
        n += 1
        if not thorough:
            continue
        _zb, rmembers = F.base_members(deck, mapping, label)
        rf = F.enum_member_faults(rmembers)
        if len(rf) != len(mf):
            raise HarnessError("name flip changed the fault space of %s: %d != %d" % (deck, len(rf), len(mf)))
        for f in rf:
            items.append(_case(deck, [f], rename=mapping, rename_label=label))
            n += 1
    return items, n, subsumed


def run(ctx):
    corpus = [fx.corpus_name(p) for p in fx.corpus()]
    if len(corpus) < 60:
        raise HarnessError("corpus has only %d decks" % len(corpus))
    by_size = sorted(corpus, key=lambda nm: (len(F.deck_bytes(nm)), nm))
    single_decks = corpus + ["synthetic:slides4", "synthetic:min2"]
    default = fx.corpus_name(fx.DEFAULT_PPTX)
    if ctx.thorough:
        pair_decks = by_size[:12] + ([default] if default not in by_size[:12] else []) + ["synthetic:min2"]
    else:
        pair_decks = by_size[:3] + ["synthetic:min2"]

    items, expected = [], 0
    kinds = Counter()
    n_member_faults = 0
    for i, deck in enumerate(single_decks):
        its, n, k, nm = single_items(deck)
        if i % 9 == 0:
            its[(5 + 11 * i) % len(its)]["sample"] = True
        items += its
        expected += n
        kinds.update(k)
        n_member_faults += nm
    n_single = expected
    subsumed = 0
    for deck in pair_decks:
        its, n, s = pair_items(deck, ctx.thorough)
        its[len(its) // 3]["sample"] = True
        items += its
        expected += n
        subsumed += s
    if n_member_faults < 5000:
        raise HarnessError("only %d member-level single faults enumerated (floor 5000)" % n_member_faults)

    # heavy items (a truncation group runs ~80 cases) are spread by the rotation-independent chunking
    fanout(ctx, _work, ctx.rotate(items), chunk_size=max(1, len(items) // 640))

    ctx.extra["decks_single"] = len(single_decks)
    ctx.extra["decks_pairs"] = pair_decks
    ctx.extra["single_fault_cases"] = n_single
    ctx.extra["pair_cases"] = expected - n_single
    ctx.extra["pairs_subsumed"] = subsumed
    ctx.extra["single_faults_by_kind"] = dict(sorted(kinds.items()))
    ctx.extra["skip_reasons"] = sorted(ctx.sets.get("skip_reasons", ()))
    if ctx.counters.get("evaluations", 0) != expected:
        raise HarnessError("evaluations %d != closed form %d" % (ctx.counters.get("evaluations", 0), expected))
    if ctx.counters.get("outcome_opened", 0) < n_member_faults // 2 or ctx.counters.get("outcome_raised", 0) < 1000:
        raise HarnessError("vacuous run: opened=%s raised=%s" % (ctx.counters.get("outcome_opened"), ctx.counters.get("outcome_raised")))


def replay(data):
    case = {k: v for k, v in data.items() if k not in ("sample", "baseline", "trunc_all")}
    res = run_case(case, independent=True)
    if res["viol"]:
        return "%s|%s: %s" % res["viol"]
    return None
