"""C04 -- text assigned is the text read back, with only the documented translations.

Engine E2 (bounded-exhaustive enumeration) with a one-step history extension.

Space
  * character alphabet S (14 characters, DESIGN 4/C04); ALL strings over S of length <= 3 (quick) /
    <= 4 (thorough), plus a fixed list of longer / out-of-alphabet strings (EXTRA, judged like the
    others) and a fixed list of strings that already look like an `_xHHHH_` escape (LOOKALIKE: the
    statement is silent about them, so only "no exception" and "same text after re-open" are judged);
  * assigned at the four levels TextFrame.text (on a text box), _Cell.text (on a table cell),
    _Paragraph.text and _Run.text (on the text box), onto six prior body states injected as XML;
  * all ordered pairs of assignments (level1, s1), (level2, s2) over all strings with
    len(s1) + len(s2) <= 2 (quick) / <= 3 (thorough) on each of the six prior states and all 16 level
    pairs: the second assignment is checked on the body the first one left behind (an
    enclosing-or-same level second assignment must fully supersede the first; an inner-level one
    must change only its own paragraph / run). The body after the first assignment is snapshotted
    (deepcopy of its a:p children) and restored before every second assignment.

Violations are reduced to one signature per minimal character-class set (see reduce_single), e.g.
`C04|getter|level=run|prior=any|chars=vt|s='\\x0b'`; a failure of the second assignment of a pair is
only reported when the same (rule, level, string) did not already fail as a single assignment.

Oracle: mc/oracles/text_ref.py (written from the property statement). Per case
  raised        the assignment (or a getter) raised
  getter        getter at the assigned level
  other-levels  getters at the other levels (run -> paragraph -> frame -> shape/cell; for a frame-level
                assignment the per-paragraph texts); untouched paragraphs keep their text
  paragraphs    number of a:p in the serialised part == number of frame-level segments (or unchanged)
  breaks        number of a:br per paragraph in the serialised part == number of breaks
  ppr           paragraph-level assignment: a:pPr of that paragraph c14n-identical (only if it had one)
  reparse       part blob re-loaded through the library's own part loader (the parser configuration
                of a re-open): every text that could be read before is read again
  reopen1/2     full save / Presentation() round trip, twice, batched 500 bodies per slide

Verdicts use public API values (`.text`, `.paragraphs`, `.runs`, `part.blob`, saved bytes) and bare
lxml on the blob. Harness-side fixture building (injecting the prior state, copying a finished shape
into the batch deck) manipulates the lxml tree reached through the public `.element` attributes.

Deviations from DESIGN 4/C04
  * pairs are bounded by total length len(s1)+len(s2) <= 2 | <= 3 (59 k | 1.1 M cases) instead of
    "both <= 2" (4.3 M cases, about 70 CPU-minutes); pairs get the in-memory checks and the part-level
    round trip, not the batched save round trip;
  * a:endParaRPr is not required to survive a paragraph-level assignment (weaker reading of
    "keeps that paragraph's properties" = a:pPr);
  * horizontal tab: statement ("every other C0 control") and docstrings ("other than newline, tab or
    vertical-tab") disagree; either read-back is accepted;
  * the number / boundaries of a:r elements are not judged (the statement does not mention them).
"""

from __future__ import annotations

import copy
import heapq
import io
import itertools

from mc.core.parallel import fanout
from mc.core.run import HarnessError
from mc.oracles import text_ref as T

LEVEL = "exploration"
RULE = ("every string over the 14-character alphabet up to the length bound (+ fixed extras) x 4 levels "
        "(TextFrame.text, _Cell.text, _Paragraph.text, _Run.text) x 6 prior body states; then every ordered "
        "pair of assignments with bounded total length x 16 level pairs x 6 prior states. Non-trivial = the "
        "assigned string is empty or contains at least one character the statement singles out (break, "
        "separator, control, whitespace, markup, astral), i.e. is not a plain letter string; every case is "
        "a distinct (levels, prior, strings) tuple by construction.")
ASSUMPTIONS = [
    "alphabet-bounded: strings over 14 representative characters up to length 3|4 plus 25 fixed longer strings",
    "prior body states: six hand-written XML bodies; histories: one prior assignment (pairs), not longer",
    "reference model mc/oracles/text_ref.py written from the statement; horizontal tab accepted kept or escaped",
    "escape look-alike literals (_x000A_) are only judged for 'no exception' and round-trip stability",
    "save/re-open is exercised on batch decks built by copying each finished body (lxml deepcopy) into one slide",
]

S = ["a", " ", "\n", "\v", "\t", "\r", "\x00", "\x07", "\x1f", "<", "&", "\U0001F600", "_", "x"]
CLASS = {"a": "txt", "x": "txt", "_": "txt", " ": "sp", "\n": "nl", "\v": "vt", "\t": "tab", "\r": "cr",
         "\x00": "c0", "\x07": "c0", "\x1f": "c0", "<": "mk", "&": "mk", "\U0001F600": "astral"}

# longer than the thorough bound or outside the alphabet: identical list in both tiers
EXTRA = [
    "a\n\nb\v\vc", "  a  b  ", "\n\n\n\n\n", "\v\v\v\v\v", " \n \v \n ", "line one\nline two\vsoft\n",
    "\x00\x07\x1f\r\t", "<a:br/>&amp;<a:t>", "]]>&#10;&lt;", "\n\v\n\v\n", "\r\n\r\n\r", "\t\t \t\t",
    "\x01\x02\x08\x0c\x0e\x1b", "\u00e9\u4e2d\u05d0", "\ud7ff\ue000\ufffd", "\x7f\x85\u2028 ", "a" * 64,
    " \U0001F600\U00010000\U0010FFFF ",
    # long runs: more breaks / paragraphs in one string than any small constant a splitter might cap at
    "\v".join("s%d" % i for i in range(12)), "\n".join("p%d" % i for i in range(12)), "x" + "\v" * 40 + "y",
    "\n\v" * 10 + "end", "~\x7f\x80\x9f\xa0",
    # _xHHHH_ look-alikes for code points the statement gives no escape to (not C0 controls): plain text, judged
    "col_x0041_total", "_x00E9__x0041_",
]
LOOKALIKE = ["_x000A_", "_x000B_a", "a_x0007_", "_x005F_", "_x000a_\n_x0020_"]

P_NS = T.P
A_NS = T.A
NSDECL = 'xmlns:a="%s" xmlns:p="%s" xmlns:r="http://schemas.openxmlformats.org/officeDocument/2006/relationships"' % (A_NS, P_NS)

PRIORS = [
    ("empty", "<a:p/>"),
    ("three", "<a:p><a:r><a:t>one</a:t></a:r></a:p>"
              "<a:p><a:r><a:t>two</a:t></a:r><a:r><a:t> bis</a:t></a:r></a:p>"
              "<a:p><a:r><a:t>three</a:t></a:r></a:p>"),
    ("ppr", '<a:p><a:pPr algn="ctr" lvl="2"><a:lnSpc><a:spcPct val="90000"/></a:lnSpc><a:buNone/></a:pPr>'
            '<a:r><a:t>old</a:t></a:r><a:endParaRPr lang="en-US" sz="1400"/></a:p>'),
    ("fld", '<a:p><a:fld id="{B7F3E1C2-0000-4000-8000-000000000001}" type="slidenum"><a:rPr lang="en-US"/>'
            '<a:t>7</a:t></a:fld><a:r><a:t> of 9</a:t></a:r></a:p>'),
    ("br-first", '<a:p><a:br><a:rPr lang="en-US"/></a:br><a:r><a:t>tail</a:t></a:r></a:p>'),
    ("rpr", '<a:p><a:r><a:rPr lang="en-US" b="1" dirty="0"/><a:t>bold</a:t></a:r>'
            '<a:r><a:rPr lang="en-US" i="1"/><a:t> ital</a:t></a:r></a:p>'),
]
PRIOR_NAMES = [n for n, _ in PRIORS]
LEVELS = ["frame", "cell", "para", "run", "shape"]  # "shape" = Shape.text, documented as the frame-level assignment
BATCH = 500


# ---- enumeration ---------------------------------------------------------------------------------------

def strings_upto(n):
    out = []
    for k in range(n + 1):
        for t in itertools.product(S, repeat=k):
            out.append("".join(t))
    return out


def closed_form(n):
    return sum(len(S) ** k for k in range(n + 1))


def order_key(s):
    """Tier-stable order: quick-tier strings (length <= 3 over S), then the fixed extras, then length 4."""
    in_s = all(c in S for c in s)
    rank = 0 if (in_s and len(s) <= 3) else (2 if (in_s and len(s) == 4) else 1)
    return (rank, len(s), tuple(S.index(c) if c in S else 100 + ord(c) for c in s))


def classes(s):
    out = set()
    for c in s:
        k = CLASS.get(c)
        if k is None:
            o = ord(c)
            k = "c0" if o < 0x20 else ("txt" if o < 0x7f else ("astral" if o > 0xFFFF else "uni"))
        out.add(k)
    return tuple(sorted(out))


def outcome_label(s, sn):
    """Coarse kind of translation observed (vacuity report): <= 16 labels per operation."""
    flags = []
    if len(sn[1]) > 1:
        flags.append("paragraphs")
    if "\v" in sn[0]:
        flags.append("break")
    if "_x00" in sn[0]:
        flags.append("escape")
    if sn[0] == s:
        flags.append("verbatim")
    return "+".join(flags) or "other"


def nontrivial(s):
    return s == "" or any(c not in "ax_" for c in s)


# ---- hosts (one per process) ---------------------------------------------------------------------------

class Hosts:
    """One text box and one 1x1 table, each alone on its slide, in one presentation."""

    def __init__(self):
        from pptx import Presentation
        from pptx.oxml import parse_xml
        from pptx.util import Emu
        prs = Presentation()
        lay = prs.slide_layouts[6]
        self.prs = prs
        self.s_tb = prs.slides.add_slide(lay)
        self.tb = self.s_tb.shapes.add_textbox(Emu(0), Emu(0), Emu(914400), Emu(914400))
        self.s_tbl = prs.slides.add_slide(lay)
        self.gf = self.s_tbl.shapes.add_table(1, 1, Emu(0), Emu(0), Emu(914400), Emu(914400))
        self.cell = self.gf.table.cell(0, 0)
        self.cell.text_frame  # make sure the a:txBody exists
        self.body = {"tb": self.tb.element.find("{%s}txBody" % P_NS),
                     "cell": next(self.gf.element.iter("{%s}txBody" % A_NS))}
        if self.body["tb"] is None:
            raise HarnessError("text box has no p:txBody")
        self.part = {"tb": self.s_tb.part, "cell": self.s_tbl.part}
        self.prior_ps = {}
        self.prior_obs = {}
        for name, xml in PRIORS:
            root = parse_xml("<a:txBody %s>%s</a:txBody>" % (NSDECL, xml))
            self.prior_ps[name] = list(root)
            self.prior_obs[name] = T.observe(root)

    def tf(self, host):
        return self.tb.text_frame if host == "tb" else self.cell.text_frame

    def set_paragraphs(self, host, ps):
        body = self.body[host]
        for p in [c for c in body if c.tag == T.A_P]:
            body.remove(p)
        for p in ps:
            body.append(copy.deepcopy(p))

    def set_prior(self, host, name):
        self.set_paragraphs(host, self.prior_ps[name])

    def save_paragraphs(self, host):
        return [copy.deepcopy(c) for c in self.body[host] if c.tag == T.A_P]

    def container(self, host):
        """element to copy into the batch deck: the p:sp or the a:tc"""
        return self.tb.element if host == "tb" else self.body["cell"].getparent()


_H = None


def hosts():
    global _H
    import os
    if _H is None or _H[0] != os.getpid():
        _H = (os.getpid(), Hosts())
    return _H[1]


def snap(tf):
    paras = tf.paragraphs
    return (tf.text, tuple(p.text for p in paras), tuple(tuple(r.text for r in p.runs) for p in paras))


def snap_diff(a, b):
    for name, x, y in zip(("frame", "para", "run"), a, b):
        if x != y:
            return name, x, y
    return None


def _find_body(root, host):
    tag = "{%s}txBody" % (P_NS if host == "tb" else A_NS)
    for el in root.iter(tag):
        return el
    return None


def reload_snap(part, blob, host):
    """Text read through a part re-loaded from `blob` by the library's own loader."""
    p2 = type(part).load(part.partname, part.content_type, part.package, blob)
    shape = p2.slide.shapes[0]
    tf = shape.text_frame if host == "tb" else shape.table.cell(0, 0).text_frame
    return snap(tf)


# ---- one assignment, checked ----------------------------------------------------------------------------

def do_op(H, host, pre, level, s, judged=True):
    """Apply one assignment to the live body of `host` whose observed state is `pre`.

    Returns (fails, post_observation | None, snapshot | None); fails = [(rule, message)].
    """
    from lxml import etree
    fails = []
    pi = 1 if len(pre) >= 2 else 0
    exp = None
    if judged:
        mpre = pre
        if level == "run" and T.first_run_index(pre[pi]) is None:
            # model of _Paragraph.add_run(): "a new run appended to the runs in this paragraph"
            mpre = list(pre)
            mpre[pi] = dict(pre[pi], items=pre[pi]["items"] + [("r", "")])
        exp = T.predict(mpre, "frame" if level == "shape" else level, s, pi)
    tf = H.tf(host)
    try:
        if level == "frame":
            tf.text = s
            got = tf.text
        elif level == "shape":
            H.tb.text = s
            got = H.tb.text
        elif level == "cell":
            H.cell.text = s
            got = H.cell.text
        elif level == "para":
            p = tf.paragraphs[pi]
            p.text = s
            got = p.text
        elif level == "run":
            p = tf.paragraphs[pi]
            runs = p.runs
            r = runs[0] if runs else p.add_run()
            r.text = s
            got = r.text
        else:
            raise ValueError(level)
        sn = snap(tf)
        outer = H.tb.text if host == "tb" else H.cell.text
        part = H.part[host]
        blob = part.blob
    except Exception as e:  # noqa: BLE001
        return [("raised:%s" % type(e).__name__, "%s-level assignment (or read-back) of %r raised %r" % (level, s, e))], None, None

    if judged:
        if got not in exp.level_text:
            fails.append(("getter", "%s.text = %r reads back %r, expected %s" % (
                level, s, got, " or ".join(repr(x) for x in exp.level_text))))
        else:
            ptexts = sn[1]
            bad = None
            if len(ptexts) != len(exp.para_texts):
                bad = "paragraph texts %r, expected %d paragraphs" % (ptexts, len(exp.para_texts))
            else:
                for i, (g, alts) in enumerate(zip(ptexts, exp.para_texts)):
                    if g not in alts:
                        bad = "paragraph %d reads %r, expected %s" % (i, g, " or ".join(repr(x) for x in alts))
                        break
            if bad is None:
                ft = T.frame_texts(exp.para_texts)
                if sn[0] not in ft:
                    bad = "text frame reads %r, expected %s" % (sn[0], " or ".join(repr(x) for x in ft))
                elif outer != sn[0]:
                    bad = "%s.text reads %r but its text_frame.text reads %r" % (
                        "shape" if host == "tb" else "cell", outer, sn[0])
            if bad is not None:
                fails.append(("other-levels", "after %s.text = %r: %s" % (level, s, bad)))

    root = etree.fromstring(blob)
    body = _find_body(root, host)
    if body is None:
        raise HarnessError("serialised part has no text body for host %s" % host)
    post = T.observe(body)

    if judged:
        if len(post) != len(exp.breaks):
            fails.append(("paragraphs", "after %s.text = %r the body holds %d a:p, expected %d" % (
                level, s, len(post), len(exp.breaks))))
        else:
            nb = [T.n_breaks(p) for p in post]
            if nb != exp.breaks:
                fails.append(("breaks", "after %s.text = %r a:br per paragraph %r, expected %r" % (
                    level, s, nb, exp.breaks)))
            if exp.ppr is not None:
                i, c14n = exp.ppr
                if post[i]["n_ppr"] != 1 or post[i]["ppr"] != c14n:
                    fails.append(("ppr", "after para.text = %r a:pPr is %r, was %r" % (s, post[i]["ppr"], c14n)))

    try:
        sn2 = reload_snap(part, blob, host)
    except Exception as e:  # noqa: BLE001
        fails.append(("reparse:raised:%s" % type(e).__name__, "re-loading the part after %s.text = %r raised %r" % (level, s, e)))
    else:
        d = snap_diff(sn, sn2)
        if d:
            fails.append(("reparse:%s" % d[0], "after %s.text = %r, %s text read %r before and %r after re-parsing the part" % (
                level, s, d[0], d[1], d[2])))
    return fails, post, sn


# ---- phase 3: strings of an unusual TYPE ---------------------------------------------------------------------
# "Assigning a string": a str subclass IS a string, whatever its __str__ / __repr__ / __format__ print. The value
# that must be read back is the subclass instance's character content (what str methods see), not what str(x)
# renders. Exhaustive over TYPED kinds x TYPED_STRINGS x levels x two priors; predictions come from the same model,
# fed the plain content.

TYPED_STRINGS = ["open", "a\nb", "x\vy", ""]
TYPED_KINDS = ["plain-subclass", "subclass-with-__str__", "str-enum-member"]
TYPED_PRIORS = ["empty", "three"]


def typed(kind, s):
    if kind == "plain-subclass":
        class Sub(str):
            pass
        return Sub(s)
    if kind == "subclass-with-__str__":
        class Tagged(str):
            def __str__(self):
                return "Tagged<%s>" % str.__str__(self)

            def __repr__(self):
                return "Tagged(%s)" % str.__repr__(self)

            def __format__(self, spec):
                return "formatted"
        return Tagged(s)
    if kind == "str-enum-member":
        import enum
        return enum.Enum("Status", {"OPEN": s}, type=str).OPEN
    raise ValueError(kind)


def _typed_worker(part, chunk):
    H = hosts()
    for kind, level, prior, s in chunk:
        host = _host_for(level)
        H.set_prior(host, prior)
        fails, post, sn = do_op(H, host, H.prior_obs[prior], level, typed(kind, s), True)
        part.count("evaluations")
        part.count("typed_cases")
        part.count("nontrivial_count")
        part.outcome("typed:" + kind, "ok" if not fails else fails[0][0])
        for rule, msg in fails:
            sig = "C04|%s|level=%s|typed=%s" % (rule, level, kind)
            part.violation(sig, "prior=%s, %s of content %r: %s" % (prior, kind, s, msg),
                           {"typed": kind, "prior": prior, "ops": [[level, s]], "signature": sig})


# ---- phase 4: a table cell stored WITHOUT a text body ----------------------------------------------------------
# a:tc/a:txBody is optional in the schema and some producers omit it for empty cells. Assigning text to such a cell
# (cell.text and cell.text_frame.text) and reading it back, live and after save / re-open, is the cell level of the
# statement on one more prior state. Small and self-contained: BODYLESS_STRINGS x 2 entry points.

BODYLESS_STRINGS = ["x", "a\nb", "p\vq", " lead ", ""]


def bodyless_case(entry, s):
    """-> failure message or None. A fresh 2x2 table; the a:txBody of two cells is removed with lxml; then the public
    API only."""
    from pptx import Presentation
    from pptx.util import Emu
    prs = Presentation()
    slide = prs.slides.add_slide(prs.slide_layouts[6])
    gf = slide.shapes.add_table(2, 2, Emu(0), Emu(0), Emu(914400), Emu(914400))
    for tc in list(gf.element.iter("{%s}tc" % A_NS))[:2]:
        for body in tc.findall("{%s}txBody" % A_NS):
            tc.remove(body)
    buf = io.BytesIO()
    prs.save(buf)
    prs = Presentation(io.BytesIO(buf.getvalue()))     # the deck as another producer would have written it
    cell = prs.slides[0].shapes[0].table.cell(0, 0)
    exp = T.predict([{"items": [], "n_ppr": 0, "ppr": None}], "frame", s, 0) if False else None
    try:
        if entry == "cell.text":
            cell.text = s
        else:
            cell.text_frame.text = s
        got = cell.text
    except Exception as e:  # noqa: BLE001
        return "assigning %r through %s to a cell without a:txBody raised %r" % (s, entry, e)
    if got != s:
        return "%s = %r on a cell without a:txBody reads back %r" % (entry, s, got)
    buf = io.BytesIO()
    prs.save(buf)
    got2 = Presentation(io.BytesIO(buf.getvalue())).slides[0].shapes[0].table.cell(0, 0).text
    if got2 != s:
        return "%s = %r on a cell without a:txBody reads %r after save and re-open" % (entry, s, got2)
    return None


def _bodyless_worker(part, chunk):
    for entry, s in chunk:
        msg = bodyless_case(entry, s)
        part.count("evaluations")
        part.count("bodyless_cases")
        part.count("nontrivial_count")
        part.outcome("cell-without-body", "ok" if msg is None else "fail")
        if msg:
            sig = "C04|getter|level=cell|prior=no-txBody|entry=%s" % entry
            part.violation(sig, msg, {"bodyless": [entry, s], "signature": sig})


# ---- phase 5: TWO text hosts of one kind in one session --------------------------------------------------------
# Text assigned to one shape / cell is read back from THAT host whatever was assigned to another host of the same kind
# before or after it (a template element, default body or cache shared between two hosts shows only when both are
# touched in one process). Hosts: auto shapes, text boxes, table cells, placeholders on two slides, and the two forms
# other producers write: p:sp without p:txBody, a:tc without a:txBody. Histories: A,B and A,B,A over two entry points.

TWIN_KINDS = ["autoshape", "textbox", "cell", "title-on-two-slides", "sp-without-txBody", "tc-without-txBody",
              "picture-placeholder-on-two-slides"]
TWIN_ENTRIES = ["text", "text_frame.text"]
TWIN_HISTS = ["AB", "ABA"]
TWIN_TEXTS = {"A": "first host", "B": "second\nhost", "A2": "first again"}


def _twin_hosts(prs, kind):
    """-> two callables locating host A and host B in `prs` (so that they can be re-located after a re-open)."""
    if kind in ("cell", "tc-without-txBody"):
        return (lambda d: d.slides[0].shapes[0].table.cell(0, 0)), (lambda d: d.slides[0].shapes[0].table.cell(1, 1))
    if kind in ("title-on-two-slides",):
        return (lambda d: d.slides[0].shapes.title), (lambda d: d.slides[1].shapes.title)
    if kind == "picture-placeholder-on-two-slides":
        pick = lambda sl: [p for p in sl.placeholders if p.placeholder_format.idx == 1][0]
        return (lambda d: pick(d.slides[0])), (lambda d: pick(d.slides[1]))
    return (lambda d: d.slides[0].shapes[0]), (lambda d: d.slides[0].shapes[1])


def _twin_deck(kind):
    from pptx import Presentation
    from pptx.enum.shapes import MSO_SHAPE
    from pptx.util import Emu
    prs = Presentation()
    E = Emu(914400)
    if kind in ("title-on-two-slides", "picture-placeholder-on-two-slides"):
        lay = prs.slide_layouts[0 if kind.startswith("title") else 8]
        prs.slides.add_slide(lay)
        prs.slides.add_slide(lay)
        return prs
    slide = prs.slides.add_slide(prs.slide_layouts[6])
    if kind in ("cell", "tc-without-txBody"):
        gf = slide.shapes.add_table(2, 2, Emu(0), Emu(0), E, E)
        if kind == "tc-without-txBody":
            for tc in gf.element.iter("{%s}tc" % A_NS):
                for body in tc.findall("{%s}txBody" % A_NS):
                    tc.remove(body)
    elif kind == "textbox":
        slide.shapes.add_textbox(0, 0, E, E)
        slide.shapes.add_textbox(E, E, E, E)
    else:
        a = slide.shapes.add_shape(MSO_SHAPE.RECTANGLE, 0, 0, E, E)
        b = slide.shapes.add_shape(MSO_SHAPE.RECTANGLE, E, E, E, E)
        if kind == "sp-without-txBody":
            P_NS = "http://schemas.openxmlformats.org/presentationml/2006/main"
            for sp in (a, b):
                for body in sp.element.findall("{%s}txBody" % P_NS):
                    sp.element.remove(body)
    if kind.endswith("without-txBody"):
        buf = io.BytesIO()
        prs.save(buf)
        prs = Presentation(io.BytesIO(buf.getvalue()))     # the deck as another producer would have written it
    return prs


def twin_case(kind, entry, hist):
    """-> failure message or None."""
    from pptx import Presentation
    prs = _twin_deck(kind)
    la, lb = _twin_hosts(prs, kind)

    def put(host, s):
        if entry == "text":
            host.text = s
        else:
            host.text_frame.text = s

    want = {}
    try:
        a, b = la(prs), lb(prs)
        put(a, TWIN_TEXTS["A"]); want["A"] = TWIN_TEXTS["A"]
        put(b, TWIN_TEXTS["B"]); want["B"] = TWIN_TEXTS["B"]
        if hist == "ABA":
            put(a, TWIN_TEXTS["A2"]); want["A"] = TWIN_TEXTS["A2"]
        got = {"A": la(prs).text_frame.text, "B": lb(prs).text_frame.text}
    except Exception as e:  # noqa: BLE001
        return "%s hosts, %s, history %s: raised %r" % (kind, entry, hist, e)
    if got != want:
        return "%s hosts, %s, history %s: hosts read %r, assigned %r" % (kind, entry, hist, got, want)
    buf = io.BytesIO()
    prs.save(buf)
    d2 = Presentation(io.BytesIO(buf.getvalue()))
    got2 = {"A": la(d2).text_frame.text, "B": lb(d2).text_frame.text}
    if got2 != want:
        return "%s hosts, %s, history %s: after save and re-open hosts read %r, assigned %r" % (kind, entry, hist, got2, want)
    return None


def _twin_worker(part, chunk):
    for kind, entry, hist in chunk:
        msg = twin_case(kind, entry, hist)
        part.count("evaluations")
        part.count("twin_host_cases")
        part.count("nontrivial_count")
        part.outcome("two-hosts:" + kind, "ok" if msg is None else "fail")
        if msg:
            sig = "C04|getter|two-hosts=%s|entry=%s" % (kind, entry)
            part.violation(sig, msg, {"twin": [kind, entry, hist], "signature": sig})


# ---- batched save / re-open ------------------------------------------------------------------------------

def batch_roundtrip(entries):
    """entries: [(tag, host, element copy, snapshot)]. Returns [(tag, rule, message)]."""
    from pptx import Presentation
    from pptx.util import Emu
    if not entries:
        return []
    prs = Presentation()
    slide = prs.slides.add_slide(prs.slide_layouts[6])
    sps = [e for e in entries if e[1] == "tb"]
    tcs = [e for e in entries if e[1] == "cell"]
    if sps:
        sptree = slide.element.find("{%s}cSld/{%s}spTree" % (P_NS, P_NS))
        for e in sps:
            sptree.append(e[2])
    if tcs:
        gf = slide.shapes.add_table(1, 1, Emu(0), Emu(0), Emu(914400), Emu(914400))
        tbl = next(gf.element.iter("{%s}tbl" % A_NS))
        tr0 = tbl.find("{%s}tr" % A_NS)
        for e in tcs:
            tr = copy.deepcopy(tr0)
            for tc in list(tr):
                tr.remove(tc)
            tr.append(e[2])
            tbl.append(tr)
    out = []
    dead = set()
    cur = prs
    for rnd in (1, 2):
        buf = io.BytesIO()
        cur.save(buf)
        cur = Presentation(io.BytesIO(buf.getvalue()))
        shapes = list(cur.slides[0].shapes)
        got_sp = [sh for sh in shapes if sh.has_text_frame]
        got_tc = []
        for sh in shapes:
            if getattr(sh, "has_table", False):
                got_tc = list(sh.table.iter_cells())[1:]
        if len(got_sp) != len(sps) or len(got_tc) != len(tcs):
            raise HarnessError("batch deck lost shapes: %d/%d text boxes, %d/%d cells" % (
                len(got_sp), len(sps), len(got_tc), len(tcs)))
        for group, objs in ((sps, got_sp), (tcs, got_tc)):
            for e, o in zip(group, objs):
                if e[0] in dead:
                    continue
                d = snap_diff(e[3], snap(o.text_frame))
                if d:
                    dead.add(e[0])
                    out.append((e[0], "reopen%d:%s" % (rnd, d[0]),
                                "%s text read %r before saving and %r after save/re-open #%d" % (d[0], d[1], d[2], rnd)))
    return out


# ---- workers -----------------------------------------------------------------------------------------------

_STRINGS = []     # phase 1 strings (exhaustive + EXTRA + LOOKALIKE), index = position
_NJUDGED = 0      # strings[:_NJUDGED] are judged
_PAIRSTR = []     # phase 2 strings
_PAIRBOUND = 0    # len(s1) + len(s2) <= _PAIRBOUND
_FAIL1 = frozenset()


def _host_for(level):
    return "cell" if level == "cell" else "tb"


def _single_worker(part, chunk):
    H = hosts()
    best = {}
    for (li, pri, b0) in chunk:
        level, prior = LEVELS[li], PRIOR_NAMES[pri]
        host = _host_for(level)
        pre = H.prior_obs[prior]
        entries = []
        for si in range(b0, min(b0 + BATCH, len(_STRINGS))):
            s = _STRINGS[si]
            judged = si < _NJUDGED
            H.set_prior(host, prior)
            fails, post, sn = do_op(H, host, pre, level, s, judged)
            part.count("evaluations")
            part.count("single_cases")
            if nontrivial(s):
                part.count("nontrivial_count")
            if sn is not None:
                entries.append((si, host, copy.deepcopy(H.container(host)), sn))
                if judged:
                    part.outcome(level, outcome_label(s, sn))
            for rule, msg in fails:
                _note_single(part, best, rule, level, prior, s, msg)
        for si, rule, msg in batch_roundtrip(entries):
            _note_single(part, best, rule, level, prior, _STRINGS[si], msg)
        part.count("save_reopen_cycles", 2)
    for k, v in best.items():
        part.add("_fail", k + v)


def _note_single(part, best, rule, level, prior, s, msg):
    if len(s) <= 3:
        part.add("_fail1", (rule, level, s))
    k = (rule, level, prior, classes(s))
    v = (order_key(s), s, msg)
    if k not in best or v[0] < best[k][0]:
        best[k] = v


def _pair_worker(part, chunk):
    H = hosts()
    best = {}
    for (pri, l1, s1i) in (u for group in chunk for u in group):
        prior, level1, s1 = PRIOR_NAMES[pri], LEVELS[l1], _PAIRSTR[s1i]
        plan = [("cell", ["frame", "cell", "para", "run"])] if level1 == "cell" else [("tb", ["frame", "para", "run", "shape"]), ("cell", ["cell"])]
        for host, levels2 in plan:
            H.set_prior(host, prior)
            fails1, post1, _ = do_op(H, host, H.prior_obs[prior], level1, s1, True)
            strs2 = [x for x in _PAIRSTR if len(x) + len(s1) <= _PAIRBOUND]
            n2 = len(levels2) * len(strs2)
            part.count("evaluations", n2)
            part.count("pair_cases", n2)
            if post1 is None:
                part.count("pairs_skipped_first_raised", n2)
                continue
            saved = H.save_paragraphs(host)
            for level2 in levels2:
                for s2 in strs2:
                    H.set_paragraphs(host, saved)
                    fails, post, sn = do_op(H, host, post1, level2, s2, True)
                    if nontrivial(s1) or nontrivial(s2):
                        part.count("nontrivial_count")
                    if sn is not None:
                        part.outcome(level1 + ">" + level2, outcome_label(s2, sn))
                    for rule, msg in fails:
                        if (rule, level2, s2) in _FAIL1:
                            part.count("pair_failures_already_reported_by_single_phase")
                            continue
                        k = (rule, level1, classes(s1), level2, classes(s2), prior)
                        v = ((len(s1) + len(s2), order_key(s1), order_key(s2)), prior, s1, s2, msg)
                        if k not in best or v[0] < best[k][0]:
                            best[k] = v
    for k, v in best.items():
        part.add("_failp", k[:5] + v)


# ---- reduction to minimal signatures -------------------------------------------------------------------------

def _prior_label(prs):
    prs = set(prs)
    if prs == set(PRIOR_NAMES):
        return "any"
    return "+".join(n for n in PRIOR_NAMES if n in prs)


def reduce_single(records):
    """records: (rule, level, prior, cs, okey, s, msg) -> one signature per minimal (rule, level, class set).

    Tier-stable by construction: the witness of a key is its least string under order_key (strings of the
    quick tier sort before the fixed extras, those before the length-4 strings), the prior label lists the
    priors on which that very string fails, and a key is only suppressed by a key with a strictly smaller
    class set whose witness does not sort later and fails on at least the same priors.
    """
    groups = {}
    for rule, level, prior, cs, okey, s, msg in records:
        g = groups.setdefault((rule, level, cs), {})
        if prior not in g or okey < g[prior][0]:
            g[prior] = (okey, s, msg)
    mins = {}
    for k, g in groups.items():
        best = min(v[0] for v in g.values())
        priors = [p for p in PRIOR_NAMES if p in g and g[p][0] == best]
        mins[k] = (best, priors)
    out = []
    for (rule, level, cs), g in sorted(groups.items()):
        best, priors = mins[(rule, level, cs)]
        dominated = False
        for (r2, l2, cs2), (best2, priors2) in mins.items():
            if r2 == rule and l2 == level and set(cs2) < set(cs) and best2 <= best and set(priors2) >= set(priors):
                dominated = True
                break
        if dominated:
            continue
        prior = priors[0]
        okey, s, msg = g[prior]
        sig = "C04|%s|level=%s|prior=%s|chars=%s|s=%r" % (rule, level, _prior_label(priors), "+".join(cs) or "none", s)
        what = "[prior=%s] %s" % (prior, msg)
        out.append((sig, what, {"kind": "single", "rule": rule, "prior": prior, "ops": [[level, s]]}))
    return out


def reduce_pairs(records):
    """records: (rule, l1, cs1, l2, cs2, key, prior, s1, s2, msg); same scheme as reduce_single, the order
    being total length first (so every quick-tier witness sorts before every thorough-only one)."""
    groups = {}
    for rule, l1, cs1, l2, cs2, key, prior, s1, s2, msg in records:
        g = groups.setdefault((rule, l1, cs1, l2, cs2), {})
        if prior not in g or key < g[prior][0]:
            g[prior] = (key, s1, s2, msg)
    mins = {}
    for k, g in groups.items():
        best = min(v[0] for v in g.values())
        mins[k] = (best, [p for p in PRIOR_NAMES if p in g and g[p][0] == best])
    out = []
    for (rule, l1, cs1, l2, cs2), g in sorted(groups.items()):
        best, priors = mins[(rule, l1, cs1, l2, cs2)]
        dominated = False
        for (r, a1, c1, a2, c2), (best2, priors2) in mins.items():
            if (r, a1, a2) == (rule, l1, l2) and (c1, c2) != (cs1, cs2) and set(c1) <= set(cs1) \
                    and set(c2) <= set(cs2) and best2 <= best and set(priors2) >= set(priors):
                dominated = True
                break
        if dominated:
            continue
        prior = priors[0]
        key, s1, s2, msg = g[prior]
        sig = "C04|pair:%s|first=%s:%s|level=%s|prior=%s|chars=%s|s1=%r|s2=%r" % (
            rule, l1, "+".join(cs1) or "none", l2, _prior_label(priors), "+".join(cs2) or "none", s1, s2)
        what = "[prior=%s] after %s.text = %r: %s" % (prior, l1, s1, msg)
        out.append((sig, what, {"kind": "pair", "rule": rule, "prior": prior, "ops": [[l1, s1], [l2, s2]]}))
    return out


# ---- run ---------------------------------------------------------------------------------------------------------

def run(ctx):
    global _STRINGS, _NJUDGED, _PAIRSTR, _PAIRBOUND, _FAIL1
    n = 4 if ctx.thorough else 3
    npair = 3 if ctx.thorough else 2
    exh = strings_upto(n)
    if len(exh) != closed_form(n) or len(set(exh)) != len(exh):
        raise HarnessError("string generator size %d != closed form %d" % (len(exh), closed_form(n)))
    seen = set(strings_upto(4))
    for s in EXTRA + LOOKALIKE:
        if s in seen:
            raise HarnessError("extra string %r duplicates an enumerated one" % s)
        seen.add(s)
    _STRINGS = exh + EXTRA + LOOKALIKE
    _NJUDGED = len(exh) + len(EXTRA)
    _PAIRSTR = strings_upto(npair)
    _PAIRBOUND = npair

    # self-check of the fixture: every prior state reads as written, at both hosts
    H = hosts()
    want = {"empty": "", "three": "one\ntwo bis\nthree", "ppr": "old", "fld": "7 of 9", "br-first": "\vtail", "rpr": "bold ital"}
    for host in ("tb", "cell"):
        for name in PRIOR_NAMES:
            H.set_prior(host, name)
            if H.tf(host).text != want[name] or T.frame_texts([(T.para_text(p),) for p in H.prior_obs[name]]) != (want[name],):
                raise HarnessError("prior state %s does not read as written on host %s: %r" % (name, host, H.tf(host).text))

    # the part loader used for the part-level round trip must work on the pristine fixture; if the loader's
    # interface moved this is a harness problem, not a violation
    for host in ("tb", "cell"):
        H.set_prior(host, "three")
        try:
            if reload_snap(H.part[host], H.part[host].blob, host) != snap(H.tf(host)):
                raise HarnessError("part re-load of the pristine fixture reads different text (host %s)" % host)
        except HarnessError:
            raise
        except Exception as e:  # noqa: BLE001
            raise HarnessError("part loader interface not usable: %r" % (e,))

    # a few real cases for the evidence file (fixed, executed in the parent)
    for level, prior, s in (("frame", "three", " a\n\v\x07 "), ("cell", "ppr", "\n\n"), ("para", "ppr", "x\ny\vz"),
                            ("run", "fld", "\v\n<&"), ("para", "fld", "  "), ("run", "empty", "\U0001F600\t")):
        host = _host_for(level)
        H.set_prior(host, prior)
        f, post, sn = do_op(H, host, H.prior_obs[prior], level, s, True)
        ctx.sample({"level": level, "prior": prior, "assigned": s, "frame_text_read": sn[0] if sn else None,
                    "paragraph_texts_read": list(sn[1]) if sn else None, "failures": [x[0] for x in f]})

    # phase 1: single assignments
    units = [(li, pri, b0) for li in range(len(LEVELS)) for pri in range(len(PRIORS))
             for b0 in range(0, len(_STRINGS), BATCH)]
    fanout(ctx, _single_worker, ctx.rotate(units), chunk_size=1)
    exp1 = len(LEVELS) * len(PRIORS) * len(_STRINGS)
    if ctx.counters.get("single_cases", 0) != exp1:
        raise HarnessError("single cases %d != closed form %d" % (ctx.counters.get("single_cases", 0), exp1))
    recs = sorted(ctx.sets.pop("_fail", set()))
    _FAIL1 = frozenset(ctx.sets.pop("_fail1", set()))
    for sig, what, rp in reduce_single(recs):
        ctx.violation(sig, what, rp)

    # phase 2: ordered pairs
    punits = [(pri, l1, s1i) for pri in range(len(PRIORS)) for l1 in range(len(LEVELS)) for s1i in range(len(_PAIRSTR))]
    # balance: units with a short first string carry many second strings; longest-processing-time binning
    nbins = min(512, len(punits))
    heap = [(0, b) for b in range(nbins)]
    bins = [[] for _ in range(nbins)]
    for u in sorted(punits, key=lambda u: (-closed_form(npair - len(_PAIRSTR[u[2]])), u)):
        load, b = heapq.heappop(heap)
        bins[b].append(u)
        heapq.heappush(heap, (load + 4 * closed_form(npair - len(_PAIRSTR[u[2]])) + 2, b))
    fanout(ctx, _pair_worker, ctx.rotate(bins), chunk_size=1)
    # level pairs: first level "cell" -> 4 second levels on the cell; each of the 4 other first levels -> 5 second levels
    exp2 = len(PRIORS) * 24 * sum(len(S) ** i * closed_form(npair - i) for i in range(npair + 1))
    if ctx.counters.get("pair_cases", 0) != exp2:
        raise HarnessError("pair cases %d != closed form %d" % (ctx.counters.get("pair_cases", 0), exp2))
    precs = sorted(ctx.sets.pop("_failp", set()))
    for sig, what, rp in reduce_pairs(precs):
        ctx.violation(sig, what, rp)

    # phase 3: strings of unusual type
    titems = [(k, lv, pr, st) for k in TYPED_KINDS for lv in LEVELS for pr in TYPED_PRIORS for st in TYPED_STRINGS]
    fanout(ctx, _typed_worker, ctx.rotate(titems), chunk_size=max(1, len(titems) // 8), min_parallel=1)
    exp3 = len(TYPED_KINDS) * len(LEVELS) * len(TYPED_PRIORS) * len(TYPED_STRINGS)
    if ctx.counters.get("typed_cases", 0) != exp3:
        raise HarnessError("typed cases %d != %d" % (ctx.counters.get("typed_cases", 0), exp3))
    ctx.extra["typed_cases"] = exp3

    # phase 4: cells stored without a text body
    bitems = [(e, st) for e in ("cell.text", "cell.text_frame.text") for st in BODYLESS_STRINGS]
    fanout(ctx, _bodyless_worker, ctx.rotate(bitems), chunk_size=len(bitems), min_parallel=1)
    exp4 = len(bitems)
    if ctx.counters.get("bodyless_cases", 0) != exp4:
        raise HarnessError("bodyless cases %d != %d" % (ctx.counters.get("bodyless_cases", 0), exp4))

    # phase 5: two hosts of one kind in one session
    witems = [(k, e, h) for k in TWIN_KINDS for e in TWIN_ENTRIES for h in TWIN_HISTS]
    fanout(ctx, _twin_worker, ctx.rotate(witems), chunk_size=len(witems), min_parallel=1)
    if ctx.counters.get("twin_host_cases", 0) != len(witems):
        raise HarnessError("two-host cases %d != %d" % (ctx.counters.get("twin_host_cases", 0), len(witems)))

    ctx.extra["strings_enumerated"] = len(exh)
    ctx.extra["strings_extra"] = len(EXTRA)
    ctx.extra["strings_lookalike_not_judged"] = len(LOOKALIKE)
    ctx.extra["max_length"] = n
    ctx.extra["pair_total_length_bound"] = npair
    ctx.extra["pair_string_pairs"] = exp2 // (len(PRIORS) * 16)
    ctx.extra["levels"] = LEVELS
    ctx.extra["prior_states"] = PRIOR_NAMES
    if ctx.counters["evaluations"] != exp1 + exp2 + exp3 + exp4 + len(witems):
        raise HarnessError("evaluations %d != %d" % (ctx.counters["evaluations"], exp1 + exp2 + exp3 + exp4 + len(witems)))


# ---- replay ---------------------------------------------------------------------------------------------------------

def replay(data):
    """Rebuild the case from scratch in a fresh presentation: prior state, the assignment(s), all checks on
    the last assignment, then two real save / re-open cycles of that very presentation."""
    from pptx import Presentation
    if data.get("twin"):
        return twin_case(*data["twin"])
    if data.get("bodyless"):
        return bodyless_case(*data["bodyless"])
    H = Hosts()
    ops = data["ops"]
    prior = data["prior"]
    levels = [o[0] for o in ops]
    host = "cell" if "cell" in levels else "tb"
    H.set_prior(host, prior)
    pre = H.prior_obs[prior]
    fails = []
    sn = None
    for i, (level, s) in enumerate(ops):
        judged = s not in LOOKALIKE
        if data.get("typed"):
            s = typed(data["typed"], s)
        fails, post, sn = do_op(H, host, pre, level, s, judged)
        if post is None:
            break
        pre = post
    msgs = ["%s: %s" % f for f in fails]
    if sn is not None:
        cur = H.prs
        for rnd in (1, 2):
            buf = io.BytesIO()
            cur.save(buf)
            cur = Presentation(io.BytesIO(buf.getvalue()))
            if host == "tb":
                tf = cur.slides[0].shapes[0].text_frame
            else:
                tf = cur.slides[1].shapes[0].table.cell(0, 0).text_frame
            d = snap_diff(sn, snap(tf))
            if d:
                msgs.append("reopen%d:%s: %s text read %r before saving and %r after save/re-open #%d" % (
                    rnd, d[0], d[0], d[1], d[2], rnd))
                break
    want = data.get("rule")
    hit = [m for m in msgs if want and m.startswith(want)]
    if want:
        return "; ".join(hit + [m for m in msgs if m not in hit]) if hit else None
    return "; ".join(msgs) or None
