"""C18 — core document properties round-trip and stay valid.

Bounded-exhaustive enumeration (engine E2 + ordered pairs), DESIGN section 4/C18.

Case kinds (every case is a JSON descriptor executed by `_exec`, in the explorer and in replay alike):

* assign — open a base package (with a core-properties part: the default template, tests/test_files/
  minimal.pptx; without one: tests/test_files/no-core-props.pptx and `minimal-nocore` = minimal.pptx with
  the part, its relationship and its content-type Override removed by the harness), read all 15 properties, apply 1 or 2 assignments, after each compare the outcome
  (accepted / ValueError) and ALL 15 readings with a dict reference model (second assignment of a
  property supersedes, other properties do not move, a rejected assignment changes nothing); then two
  save/re-open cycles: after each, docProps/core.xml (found with the harness's own OPC reader, parsed
  by bare lxml) must validate against opc-coreProperties.xsd and the 15 readings must equal the ones
  before the cycle. For the package without the part: a core-properties relationship + part + content
  type must exist in the saved package after first access.
* years  — one date property, every year of a range (in memory): set datetime, read back.
* read   — docProps/core.xml of minimal.pptx is replaced (harness zip writer) by one whose
  dcterms:created, dcterms:modified and cp:lastPrinted carry a W3CDTF text; the package is loaded
  through the library and the three readings are compared with mc.oracles.w3cdtf_ref.
* corpus — every deck of the repository corpus: readings agree with a bare-lxml reading of the part
  (strings: element text; dates: reference parser), are stable over two save/re-open cycles, and the
  part does not gain schema errors.

Oracle decisions (weaker reading where the statement is silent or ambiguous):
* "returns it to one-second resolution": reading is a datetime with microsecond 0 within < 1 s of the
  assigned value (floor or round both pass). Aware datetimes: wall-clock or UTC equivalent both pass.
* `True` for revision and non-`str` values for string properties: either outcome passes (recorded).
* After save/re-open a string containing CR may come back with XML line-end normalisation applied
  (CRLF -> LF, CR -> LF) and nothing else; everything else must be identical. (python-pptx writes
  &#13;, so the tolerance is not even needed on the unchanged tree; outcome label `cr-normalised`.)
* W3CDTF readings with fractional seconds: within < 1 s of the exact UTC equivalent.
* Date-only granularities in cp:lastPrinted (not schema-valid there: xs:dateTime) are recorded only.
* Timestamps whose UTC equivalent is outside years 1..9999 are not enumerated (not representable).
* A rejected assignment must leave the 15 *readings* unchanged (the XML is not compared).

* two    — two packages handled in ONE process by one `_exec` call (no fork in between), preceded by a
  primer P0 (a no-core deck that gains a default part on which all 15 properties are set, so that the
  case is self-contained and replays identically in a fresh process): open A, assign batch A; open B:
  B's fresh readings must be those of a default part gained in a pristine process (differential: the first
  default part a forked child reads before any history; modified = the harness's fixed clock) when B has no
  core part, else what the same file reads when opened before anything else;
  A's readings must not move when B is opened nor when B is assigned; B's must not move when A is
  assigned again; both are saved and re-opened. Modes: `overlap` (A alive while B is used) and
  `sequential` (A saved and dropped before B is opened, A re-opened at the end). Bases x bases x modes
  x batch A x batch B, all combinations.

Deviations from DESIGN: the "part c14n-unchanged after ValueError" demand is weakened to "readings
unchanged" (the statement only says ValueError is raised); an extra BMP class of XML characters
(U+0085, U+2028, U+D7FF, U+E000, U+FFFD, NBSP) and a corpus sweep were added; thorough enumerates every
string length 0..256 and every year 1..9999 is enumerated in both tiers. For cost, string singles, the
ordered pairs (quick tier), the years and the read cases run on the 16-member minimal.pptx instead of the
36-member default template; date/revision singles run on the default template and no-core-props.pptx in both
tiers, and thorough repeats boundary-length strings and all pairs on those two as well.
"""

from __future__ import annotations

import datetime as dt
import io
import os

from lxml import etree

from mc.core.parallel import fanout
from mc.core.run import HarnessError
from mc.drivers import fixtures as F
from mc.oracles import coreprops_xsd as CX
from mc.oracles import opc_ref
from mc.oracles import w3cdtf_ref as W

_parser = etree.XMLParser(resolve_entities=False, no_network=True)

LEVEL = "exploration"
RULE = ("assign: base package (default template, minimal.pptx, no-core-props.pptx, minimal.pptx stripped of its core "
        "part) x (single assignment: 11 string properties x length set x 6 character classes; "
        "3 date properties x datetime set incl. non-datetime values; revision x value set) plus ALL ordered "
        "pairs over a reduced assignment set (15 properties x {2-3 valid, 1 invalid}); each case = in-memory "
        "read-back of all 15 properties against a dict model + 2 save/re-open cycles with schema validation of "
        "docProps/core.xml. years: 3 date properties x every year 1..9999. read: every W3CDTF granularity x "
        "{Z, -14:00..+14:00 step 15 min, -00:00} x base instants x fraction forms, loaded through the library. "
        "corpus: every repository deck. two: 4 bases x 4 bases x {overlap, sequential} x batch A x batch B in one "
        "process (fresh default part reads the documented defaults; no cross-package interference). Non-trivial = distinct (kind, property, concrete value / text / deck); "
        "length-0 strings of different classes coincide and count once.")
ASSUMPTIONS = [
    "trusted base: stub schemas /verif/schemas/dc.xsd, dcterms.xsd, xml.xsd stand in for the Dublin Core and xml.xsd "
    "schemas that opc-coreProperties.xsd imports by URL (written after the published DCMI 2003-04-02 schemas: "
    "SimpleLiteral text-only elements with xml:lang; dcterms:W3CDTF = union gYear|gYearMonth|date|dateTime)",
    "trusted base: libxml2 schema validator; mc.oracles.w3cdtf_ref (self-tested against a hand-computed table incl. the "
    "W3C note's own example); mc.oracles.opc_ref to locate the core-properties part in a saved zip",
    "value-bounded: strings are drawn from 6 character classes (pattern repeated to the length), not all strings; "
    "quick tier uses lengths {0,1,2,254,255,256}, thorough every length 0..256",
    "datetimes: a fixed list of instants plus one instant per year 1..9999; leap seconds and years outside 1..9999 "
    "are outside the claim; read cases whose UTC equivalent is not representable are skipped",
    "offsets -14:00..+14:00 in 15-minute steps (plus -00:00), not every minute",
    "XML line-end normalisation of CR after save/re-open is tolerated (and only that)",
    "histories are bounded to 2 assignments and 2 save/re-open cycles (quick-tier ordered pairs: 1 cycle); "
    "two-packages histories: primer + 2 packages, fixed assignment batches",
    "'gains a default part': the readings of the first default part in a pristine process are the reference for every "
    "later default part (no particular default values are demanded)",
]

STRING_PROPS = ["author", "category", "comments", "content_status", "identifier", "keywords", "language",
                "last_modified_by", "subject", "title", "version"]
DATE_PROPS = ["created", "last_printed", "modified"]
ALL_PROPS = sorted(STRING_PROPS + DATE_PROPS + ["revision"])

# property -> element of the OPC core-properties part (ECMA-376 Part 2, section 11); used to attribute
# schema errors to a property and to read the corpus parts with bare lxml
ELEMENT_OF = {
    "author": (CX.NS_DC, "creator"), "category": (CX.NS_CP, "category"), "comments": (CX.NS_DC, "description"),
    "content_status": (CX.NS_CP, "contentStatus"), "created": (CX.NS_DCTERMS, "created"),
    "identifier": (CX.NS_DC, "identifier"), "keywords": (CX.NS_CP, "keywords"), "language": (CX.NS_DC, "language"),
    "last_modified_by": (CX.NS_CP, "lastModifiedBy"), "last_printed": (CX.NS_CP, "lastPrinted"),
    "modified": (CX.NS_DCTERMS, "modified"), "revision": (CX.NS_CP, "revision"), "subject": (CX.NS_DC, "subject"),
    "title": (CX.NS_DC, "title"), "version": (CX.NS_CP, "version"),
}
PROP_OF = {v: k for k, v in ELEMENT_OF.items()}

RT_CORE = "http://schemas.openxmlformats.org/package/2006/relationships/metadata/core-properties"
CT_CORE = "application/vnd.openxmlformats-package.core-properties+xml"

# ---- value space -----------------------------------------------------------------------------------

CLASSES = {
    "ascii": "Abc xyz-09_.",
    "space": " ",
    "markup": "&<>\"']]>&amp;<!--x-->&#65;",
    "ctrl": "\r\n\t\n\r",
    "astral": "\U0001F600\U00010000\U0010FFFF\U0001D11E",
    "bmp": "\u00e9\u0085\u2028\ud7ff\ue000\ufffd\u00a0\u4e2d",
}
CLASS_ORDER = ["ascii", "space", "markup", "ctrl", "astral", "bmp"]
BOUNDARY_LENGTHS = [0, 1, 2, 254, 255, 256]


def gen_string(cls, n):
    pat = CLASSES[cls]
    return (pat * (n // len(pat) + 1))[:n]


def s_spec(cls, n):
    return {"t": "str", "cls": cls, "n": n, "label": cls if n <= 255 else cls + ">255"}


def d_spec(label, v, tz=None):
    v = list(v) + [0] * (7 - len(v))
    return {"t": "dt", "v": v, "tz": tz, "label": label}


DATE_VALUES = [
    d_spec("year<1000", (1, 1, 1, 0, 0, 0)),
    d_spec("year<1000", (999, 12, 31, 23, 59, 59)),
    d_spec("y1000", (1000, 1, 1, 0, 0, 0)),
    d_spec("y1899", (1899, 12, 31, 23, 59, 59)),
    d_spec("1900-02-28", (1900, 2, 28, 12, 0, 0)),
    d_spec("1900-03-01", (1900, 3, 1, 0, 0, 0)),
    d_spec("epoch", (1970, 1, 1, 0, 0, 0)),
    d_spec("y2038", (2038, 1, 19, 3, 14, 8)),
    d_spec("y9999", (9999, 12, 31, 23, 59, 59)),
    d_spec("first-second", (2020, 2, 29, 0, 0, 0)),
    d_spec("last-second", (2020, 2, 29, 23, 59, 59)),
    d_spec("microseconds", (2020, 1, 2, 3, 4, 5, 999999)),
    d_spec("microseconds", (2020, 1, 2, 3, 4, 5, 1)),
    d_spec("aware-utc", (2020, 1, 2, 3, 4, 5), tz=0),
    d_spec("aware-offset", (2020, 1, 2, 3, 4, 5), tz=330),
    {"t": "date", "v": [2020, 1, 2], "label": "date-object"},
    {"t": "raw", "v": "2020-01-02T03:04:05Z", "label": "str"},
    {"t": "none", "label": "none"},
    {"t": "int", "v": 0, "label": "int"},
]
REVISION_VALUES = [
    {"t": "int", "v": 1, "label": "1"}, {"t": "int", "v": 2, "label": "2"},
    {"t": "int", "v": 2 ** 31, "label": "2**31"}, {"t": "int", "v": 10 ** 20, "label": "10**20"},
    {"t": "int", "v": 0, "label": "0"}, {"t": "int", "v": -1, "label": "-1"},
    {"t": "float", "v": 1.0, "label": "float"}, {"t": "raw", "v": "1", "label": "str"},
    {"t": "bool", "v": True, "label": "bool"},
]
NONSTR_FOR_STRING = [{"t": "int", "v": 42, "label": "non-str-int"}, {"t": "none", "label": "non-str-none"}]


def reduced_assignments(thorough):
    out = []
    for p in STRING_PROPS:
        vals = [s_spec("ascii", 1), s_spec("markup", 5), s_spec("ascii", 256)]
        if thorough:
            vals.append(s_spec("ctrl", 3))
        out += [(p, v) for v in vals]
    for p in DATE_PROPS:
        vals = [d_spec("epoch", (1970, 1, 1, 0, 0, 0)), d_spec("last-second", (2020, 2, 29, 23, 59, 59)),
                {"t": "raw", "v": "2020-01-02T03:04:05Z", "label": "str"}]
        if thorough:
            vals.append(d_spec("microseconds", (2020, 1, 2, 3, 4, 5, 999999)))
        out += [(p, v) for v in vals]
    vals = [{"t": "int", "v": 2, "label": "2"}, {"t": "int", "v": 2 ** 31, "label": "2**31"},
            {"t": "int", "v": 0, "label": "0"}]
    if thorough:
        vals.append({"t": "int", "v": 10 ** 20, "label": "10**20"})
    out += [("revision", v) for v in vals]
    return out


def make_value(spec):
    t = spec["t"]
    if t == "str":
        return gen_string(spec["cls"], spec["n"])
    if t == "raw":
        return spec["v"]
    if t == "dt":
        tz = spec.get("tz")
        tzinfo = dt.timezone(dt.timedelta(minutes=tz)) if tz is not None else None
        return dt.datetime(*spec["v"], tzinfo=tzinfo)
    if t == "date":
        return dt.date(*spec["v"])
    if t == "int":
        return int(spec["v"])
    if t == "float":
        return float(spec["v"])
    if t == "bool":
        return bool(spec["v"])
    if t == "none":
        return None
    raise ValueError(t)


# ---- reference model ---------------------------------------------------------------------------------

def expected_outcome(prop, value):
    """'accept' | 'reject' | 'either' according to the property statement."""
    if prop in STRING_PROPS:
        if isinstance(value, str):
            return "accept" if len(value) <= 255 else "reject"
        return "either"
    if prop in DATE_PROPS:
        return "accept" if isinstance(value, dt.datetime) else "reject"
    if isinstance(value, bool):
        return "either"
    if isinstance(value, int) and value >= 1:
        return "accept"
    return "reject"


def _naive_utc(d):
    if d.tzinfo is not None:
        return d.astimezone(dt.timezone.utc).replace(tzinfo=None)
    return d


ONE_S = dt.timedelta(seconds=1)


def reads_back(prop, value, got):
    if prop in STRING_PROPS:
        return type(got) is str and got == value
    if prop in DATE_PROPS:
        if not isinstance(got, dt.datetime):
            return False
        g = _naive_utc(got)
        if g.microsecond != 0:
            return False
        cands = [value.replace(tzinfo=None)]
        if value.tzinfo is not None:
            cands.append(_naive_utc(value))
        return any(abs(c - g) < ONE_S for c in cands)
    return type(got) is int and got == value


def xml_eol(s):
    return s.replace("\r\n", "\n").replace("\r", "\n")


def same_reading(before, after):
    """Equality of one reading across a save/re-open cycle; returns (ok, used_cr_tolerance)."""
    if type(before) is type(after) and before == after:
        return True, False
    if isinstance(before, str) and isinstance(after, str) and "\r" in before and after == xml_eol(before):
        return True, True
    return False, False


def short(v, n=70):
    r = repr(v)
    return r if len(r) <= n else r[: n - 12] + "...(len %d)" % (len(v) if hasattr(v, "__len__") else len(r))


# ---- observation helpers -----------------------------------------------------------------------------

class Rec:
    """Collects violations and outcome labels of one executed case."""

    def __init__(self):
        self.violations = []
        self.outcomes = []
        self.notes = {}

    def v(self, sig, what):
        if not any(s == sig for s, _ in self.violations):
            self.violations.append((sig, what))

    def o(self, op, label):
        self.outcomes.append((op, label))


_BYTES = {}


def base_bytes(name):
    if name not in _BYTES:
        if name == "default":
            path = F.DEFAULT_PPTX
        elif name == "nocore":
            path = os.path.join(F.TEST_FILES, "no-core-props.pptx")
        elif name == "minimal":
            path = os.path.join(F.TEST_FILES, "minimal.pptx")
        elif name == "minimal-nocore":
            _BYTES[name] = _strip_core_part(base_bytes("minimal"))
            return _BYTES[name]
        elif name == "minimal-lean":
            # a core-properties part as a frugal producer writes it: the root declares ONLY the namespaces it uses
            # (no dcterms, no xsi until a date is there); harness-built
            members = F.zip_members(base_bytes("minimal"))
            pn = core_part_of(base_bytes("minimal"))[0]
            members[pn[1:]] = (b'<?xml version="1.0" encoding="UTF-8" standalone="yes"?>\n'
                               b'<cp:coreProperties xmlns:cp="http://schemas.openxmlformats.org/package/2006/metadata/core-properties" '
                               b'xmlns:dc="http://purl.org/dc/elements/1.1/"><dc:title>lean</dc:title>'
                               b'<cp:revision>3</cp:revision></cp:coreProperties>')
            _BYTES[name] = F.write_zip(members)
            return _BYTES[name]
        else:
            path = os.path.join(F.REPO, name)
        _BYTES[name] = F.read_bytes(path)
    return _BYTES[name]


def _strip_core_part(zb):
    """Harness-built package: `zb` without its core-properties part, relationship and content-type Override."""
    members = F.zip_members(zb)
    found = core_part_of(zb)
    if found is None or found[1] is None:
        raise HarnessError("package to strip has no core-properties part")
    partname = found[0]
    del members[partname[1:]]
    rels = etree.fromstring(members["_rels/.rels"])
    for r in list(rels):
        if r.get("Type") == RT_CORE:
            rels.remove(r)
    members["_rels/.rels"] = etree.tostring(rels, xml_declaration=True, encoding="UTF-8", standalone=True)
    cts = etree.fromstring(members["[Content_Types].xml"])
    for o in list(cts):
        if o.get("PartName") == partname:
            cts.remove(o)
    members["[Content_Types].xml"] = etree.tostring(cts, xml_declaration=True, encoding="UTF-8", standalone=True)
    out = F.write_zip(members)
    if core_part_of(out) is not None:
        raise HarnessError("stripping the core-properties part failed")
    return out


NOCORE_BASES = ("nocore", "minimal-nocore")


def read_all(cp):
    out = {}
    for p in ALL_PROPS:
        try:
            out[p] = getattr(cp, p)
        except Exception as e:  # noqa
            out[p] = ("__raised__", type(e).__name__, str(e)[:80])
    return out


_REL_NS = "http://schemas.openxmlformats.org/package/2006/relationships"
_CT_NS = "http://schemas.openxmlformats.org/package/2006/content-types"


def core_part_of(zbytes):
    """(partname, blob, content_type) of the core-properties part of a saved package, or None.

    Own reader: zipfile + bare lxml on _rels/.rels and [Content_Types].xml (Override, then Default by
    extension, case-insensitive); target resolution by mc.oracles.opc_ref.resolve (RFC 3986).
    """
    import zipfile
    with zipfile.ZipFile(io.BytesIO(zbytes)) as z:
        names = set(z.namelist())
        if "_rels/.rels" not in names:
            return None
        rels = etree.fromstring(z.read("_rels/.rels"), _parser)
        target = None
        for r in rels:
            if r.tag == "{%s}Relationship" % _REL_NS and r.get("Type") == RT_CORE \
                    and (r.get("TargetMode") or "Internal") != "External":
                target = opc_ref.resolve("/", r.get("Target") or "")
                break
        if target is None:
            return None
        if target[1:] not in names:
            return target, None, None
        blob = z.read(target[1:])
        ctype = None
        cts = etree.fromstring(z.read("[Content_Types].xml"), _parser)
        for o in cts:
            if o.tag == "{%s}Override" % _CT_NS and (o.get("PartName") or "").lower() == target.lower():
                ctype = o.get("ContentType")
                break
        if ctype is None:
            ext = target.rsplit("/", 1)[-1].rsplit(".", 1)[-1].lower()
            for o in cts:
                if o.tag == "{%s}Default" % _CT_NS and (o.get("Extension") or "").lower() == ext:
                    ctype = o.get("ContentType")
        return target, blob, ctype


def schema_error_keys(blob):
    """set of (prop-or-?local, kind) + dict to message."""
    keys = {}
    for ns, local, kind, msg in CX.errors(blob):
        prop = PROP_OF.get((ns, local), "?" + local)
        keys.setdefault((prop, kind), msg)
    return keys


def _cycles(rec, prs, model, last_label, base_errors, expect_part_gained, ncycles=2):
    """ncycles x (save, validate core.xml, re-open, compare 15 readings). Returns False if aborted."""
    for k in range(1, ncycles + 1):
        try:
            buf = io.BytesIO()
            prs.save(buf)
            z = buf.getvalue()
        except Exception as e:  # noqa
            rec.v("C18|save-raised|%s" % type(e).__name__, "save #%d raised %r" % (k, e))
            return False
        found = core_part_of(z)
        if found is None or found[1] is None:
            rule = "default-part|missing-after-save" if expect_part_gained else "part-lost"
            rec.v("C18|%s" % rule,
                  "saved package #%d has no core-properties relationship/part after prs.core_properties was "
                  "accessed (found=%r)" % (k, None if found is None else found[0]))
            return False
        partname, blob, ctype = found
        if ctype != CT_CORE:
            rec.v("C18|default-part|content-type", "core-properties part %s has content type %r" % (partname, ctype))
        errs = schema_error_keys(blob)
        for (prop, kind), msg in sorted(errs.items()):
            if (prop, kind) in base_errors:
                continue
            rec.v("C18|schema|%s|%s|%s" % (prop, last_label.get(prop, "initial"), kind),
                  "%s of saved package #%d is not valid against opc-coreProperties.xsd: %s" % (partname, k, msg))
        rec.o("schema", "valid" if not errs else "invalid")
        try:
            from pptx import Presentation
            prs = Presentation(io.BytesIO(z))
            cp = prs.core_properties
        except Exception as e:  # noqa
            rec.v("C18|reopen-raised|%s" % type(e).__name__, "re-open #%d raised %r" % (k, e))
            return False
        now = read_all(cp)
        for p in ALL_PROPS:
            ok, tol = same_reading(model[p], now[p])
            if tol:
                rec.o("reopen", "cr-normalised")
            if not ok:
                rec.v("C18|reopen|%s|%s" % (p, last_label.get(p, "initial")),
                      "%s read %s before and %s after save/re-open cycle #%d" % (p, short(model[p]), short(now[p]), k))
            model[p] = now[p]
    return True


# ---- case executors ----------------------------------------------------------------------------------

def _exec_assign(case, rec):
    from pptx import Presentation
    base = case["base"]
    zb = base_bytes(base)
    prs = Presentation(io.BytesIO(zb))
    cp = prs.core_properties
    model = read_all(cp)
    for p in ALL_PROPS:
        if isinstance(model[p], tuple) and model[p][:1] == ("__raised__",):
            rec.v("C18|read-raised|%s" % p, "initial reading of %s raised %s" % (p, model[p][1:]))
    again = read_all(cp)
    if again != model:
        rec.v("C18|read-unstable", "two consecutive readings differ: %r" % ({p: (model[p], again[p]) for p in ALL_PROPS if model[p] != again[p]},))
    last_label = {}
    _apply_ops(rec, cp, model, case["ops"], last_label)
    _cycles(rec, prs, model, last_label, frozenset(), base in NOCORE_BASES, ncycles=case.get("cycles", 2))


def _apply_ops(rec, cp, model, ops, last_label, after_each=None):
    """Apply assignments to `cp`, checking outcome + all 15 readings against `model` (updated in place)."""
    for prop, spec in ops:
        value = make_value(spec)
        label = spec["label"]
        exp = expected_outcome(prop, value)
        try:
            setattr(cp, prop, value)
            outcome = "accepted"
        except ValueError:
            outcome = "ValueError"
        except Exception as e:  # noqa
            outcome = type(e).__name__
        rec.o("set:" + prop, outcome)
        now = read_all(cp)
        if exp == "accept" and outcome != "accepted":
            rec.v("C18|accept|%s|%s|%s" % (prop, label, outcome),
                  "%s = %s must be accepted, got %s" % (prop, short(value), outcome))
        elif exp == "reject" and outcome != "ValueError":
            rec.v("C18|reject|%s|%s|%s" % (prop, label, outcome),
                  "%s = %s must raise ValueError, got %s" % (prop, short(value), outcome))
        if outcome == "accepted":
            if exp == "accept" and not reads_back(prop, value, now[prop]):
                rec.v("C18|roundtrip|%s|%s" % (prop, label),
                      "%s = %s then reads %s" % (prop, short(value), short(now[prop])))
            model[prop] = now[prop]
            last_label[prop] = label
        else:
            if not (type(now[prop]) is type(model[prop]) and now[prop] == model[prop]):
                rec.v("C18|reject-changed|%s|%s" % (prop, label),
                      "rejected assignment %s = %s changed its reading from %s to %s" % (
                          prop, short(value), short(model[prop]), short(now[prop])))
                model[prop] = now[prop]
        for q in ALL_PROPS:
            if q != prop and not (type(now[q]) is type(model[q]) and now[q] == model[q]):
                rec.v("C18|interfere|%s|%s" % (prop, q),
                      "assigning %s = %s changed %s from %s to %s" % (prop, short(value), q, short(model[q]), short(now[q])))
                model[q] = now[q]
        if after_each is not None:
            after_each(prop, value)


# ---- two packages in one process ---------------------------------------------------------------------

def _clock_installed():
    try:
        import pptx.parts.coreprops as m
        return getattr(getattr(m, "dt", None), "__name__", "") == "dt_shim"
    except Exception:  # noqa
        return False


_PRISTINE = None


def documented_defaults():
    """Readings of a default core-properties part: what the SAME library reads from the part a no-core package
    gains when that is the first thing a process does (computed once, in a forked child of a process that has not
    run the library yet; workers inherit the result). The statement promises 'gains a default part', not particular
    default values, so the reference is differential: a later default part in a process with a history must read what
    the first one in a pristine process reads ('modified' is the harness's fixed clock in both)."""
    global _PRISTINE
    if _PRISTINE is None:
        import pickle
        r, w = os.pipe()
        pid = os.fork()
        if pid == 0:
            code = 0
            try:
                os.close(r)
                from pptx import Presentation
                got = read_all(Presentation(io.BytesIO(base_bytes("minimal-nocore"))).core_properties)
                with os.fdopen(w, "wb") as f:
                    pickle.dump(got, f)
            except BaseException:  # noqa: BLE001
                code = 1
            os._exit(code)
        os.close(w)
        with os.fdopen(r, "rb") as f:
            data = f.read()
        os.waitpid(pid, 0)
        if not data:
            raise HarnessError("could not read a pristine default core-properties part")
        got = pickle.loads(data)
        if not _clock_installed():
            got["modified"] = "ANY-DATETIME"
        # sanity (keeps the reference from being vacuous): a default part has a revision and a modified stamp
        if not isinstance(got.get("revision"), int) or got.get("modified") is None:
            raise HarnessError("pristine default part reads %r" % (got,))
        _PRISTINE = got
    return dict(_PRISTINE)


def _diff(expected, got):
    out = []
    for p in ALL_PROPS:
        e, g = expected[p], got[p]
        if e == "ANY-DATETIME":
            if isinstance(g, dt.datetime):
                continue
        elif type(e) is type(g) and e == g:
            continue
        out.append("%s: expected %s, reads %s" % (p, short(e, 40), short(g, 40)))
    return out


def _kind_of(base):
    return "nocore" if base in NOCORE_BASES else "core"


def _exec_two(case, rec):
    """Two packages handled one after the other in THIS process (no fork in between): package B's
    core properties are independent of what was done to package A, and vice versa."""
    from pptx import Presentation
    a, b, mode = case["a"], case["b"], case["mode"]
    tag = "a=%s|b=%s|%s" % (_kind_of(a), _kind_of(b), mode)
    # reference for B's fresh readings: documented defaults, or (deck with a core part) the readings of
    # the same bytes opened before anything was done to A
    if b in NOCORE_BASES:
        ref_b = documented_defaults()
    else:
        ref_b = read_all(Presentation(io.BytesIO(base_bytes(b))).core_properties)

    # primer: the case's own history starts with a no-core deck P0 that gains a default part and has every
    # property assigned. This makes the case self-contained (a replay in a fresh process sees the same
    # history as the explorer's worker): at least two default parts are created whenever A or B lacks one.
    prs_0 = Presentation(io.BytesIO(base_bytes("minimal-nocore")))
    cp_0 = prs_0.core_properties
    for p in STRING_PROPS:
        setattr(cp_0, p, "primer-" + p)
    for p in DATE_PROPS:
        setattr(cp_0, p, dt.datetime(2001, 2, 3, 4, 5, 6))
    cp_0.revision = 99

    prs_a = Presentation(io.BytesIO(base_bytes(a)))
    cp_a = prs_a.core_properties
    model_a = read_all(cp_a)
    if a in NOCORE_BASES:
        d = _diff(documented_defaults(), model_a)
        if d:
            rec.v("C18|two|fresh-part-not-default|%s" % tag,
                  "after every property was set on the default part of no-core package P0, the default part gained by "
                  "package A (%s) does not read what a default part reads in a pristine process: %s" % (a, "; ".join(d)))
    last_a = {}
    _apply_ops(rec, cp_a, model_a, case["opsA"], last_a)
    saved_a = None
    if mode == "sequential":
        buf = io.BytesIO()
        prs_a.save(buf)
        saved_a = buf.getvalue()
        cp_a = prs_a = None

    def a_unchanged(rule, why):
        if cp_a is None:
            return
        d = _diff(model_a, read_all(cp_a))
        if d:
            rec.v("C18|two|%s|%s" % (rule, tag), "package A (%s) changed when %s: %s" % (a, why, "; ".join(d)))
            model_a.update(read_all(cp_a))

    prs_b = Presentation(io.BytesIO(base_bytes(b)))
    cp_b = prs_b.core_properties
    model_b = read_all(cp_b)
    d = _diff(ref_b, model_b)
    rec.o("two:fresh-part", "as-expected" if not d else "differs")
    if d:
        rule = "fresh-part-not-default" if b in NOCORE_BASES else "fresh-part-differs"
        rec.v("C18|two|%s|%s" % (rule, tag),
              "after %s on package A (%s), the core properties of freshly opened package B (%s) are not %s: %s" % (
                  ["%s=%s" % (p, short(make_value(sp), 30)) for p, sp in case["opsA"]], a, b,
                  "what a default part reads in a pristine process" if b in NOCORE_BASES else "what the same file reads when opened alone",
                  "; ".join(d)))
    a_unchanged("A-changed-by-B-open", "package B (%s) was opened and its core properties accessed" % b)
    last_b = {}
    _apply_ops(rec, cp_b, model_b, case["opsB"], last_b,
               after_each=lambda prop, value: a_unchanged("A-changed-by-B-set", "B.%s = %s" % (prop, short(value, 30))))
    if cp_a is not None:
        def b_unchanged(prop, value):
            d2 = _diff(model_b, read_all(cp_b))
            if d2:
                rec.v("C18|two|B-changed-by-A-set|%s" % tag, "package B (%s) changed when A.%s = %s: %s" % (
                    b, prop, short(value, 30), "; ".join(d2)))
                model_b.update(read_all(cp_b))
        _apply_ops(rec, cp_a, model_a, [["subject", {"t": "raw", "v": "second round on A", "label": "ascii"}]], last_a,
                   after_each=b_unchanged)
        _cycles(rec, prs_a, model_a, last_a, frozenset(), a in NOCORE_BASES, ncycles=1)
    else:
        got = read_all(Presentation(io.BytesIO(saved_a)).core_properties)
        d = _diff(model_a, got)
        if d:
            rec.v("C18|two|A-saved-differs|%s" % tag, "package A (%s) saved before B was opened re-opens as: %s" % (a, "; ".join(d)))
    _cycles(rec, prs_b, model_b, last_b, frozenset(), b in NOCORE_BASES, ncycles=1)
    del prs_0


def _raw(v, label="ascii"):
    return {"t": "raw", "v": v, "label": label}


TWO_BATCHES = {
    "none": [],
    "S": [["title", _raw("Deck one")], ["author", _raw("Alice")], ["revision", {"t": "int", "v": 7, "label": "7"}],
          ["created", d_spec("first-second+1", (2020, 2, 29, 12, 0, 1))]],
    "T": [["title", _raw("Deck two")], ["keywords", _raw("k1; k2")], ["last_printed", d_spec("epoch", (1970, 1, 1, 0, 0, 0))],
          ["revision", {"t": "int", "v": 2 ** 31, "label": "2**31"}], ["modified", d_spec("y2038", (2038, 1, 19, 3, 14, 8))]],
}
TWO_BASES = ("minimal-nocore", "nocore", "minimal", "default")
TWO_MODES = ("overlap", "sequential")


def two_single_batches():
    """thorough: one batch per property (a single valid assignment)."""
    out = {}
    for p in STRING_PROPS:
        out["only-" + p] = [[p, s_spec("markup", 5)]]
    for p in DATE_PROPS:
        out["only-" + p] = [[p, d_spec("last-second", (2020, 2, 29, 23, 59, 59))]]
    out["only-revision"] = [["revision", {"t": "int", "v": 2, "label": "2"}]]
    return out


def two_cases(thorough):
    batches_a = dict(TWO_BATCHES)
    if thorough:
        batches_a.update(two_single_batches())
    cases = []
    for a in TWO_BASES:
        for b in TWO_BASES:
            for mode in TWO_MODES:
                for na in batches_a:
                    for nb in TWO_BATCHES:
                        cases.append({"kind": "two", "a": a, "b": b, "mode": mode, "batchA": na, "batchB": nb,
                                      "opsA": batches_a[na], "opsB": TWO_BATCHES[nb]})
    exp = len(TWO_BASES) ** 2 * len(TWO_MODES) * (3 + (15 if thorough else 0)) * 3
    if len(cases) != exp:
        raise HarnessError("two-packages generator size %d != closed form %d" % (len(cases), exp))
    return cases


def _year_instant(y):
    return dt.datetime(y, 1 + y % 12, 1 + y % 28, y % 24, y % 60, (y * 7) % 60)


def _exec_years(case, rec):
    from pptx import Presentation
    prs = Presentation(io.BytesIO(base_bytes("minimal")))
    cp = prs.core_properties
    prop = case["prop"]
    for y in range(case["lo"], case["hi"] + 1):
        v = _year_instant(y)
        label = "year<1000" if y < 1000 else "year>=1000"
        try:
            setattr(cp, prop, v)
        except Exception as e:  # noqa
            rec.v("C18|accept|%s|%s|%s" % (prop, label, type(e).__name__), "%s = %r raised %r" % (prop, v, e))
            continue
        try:
            got = getattr(cp, prop)
        except Exception as e:  # noqa
            rec.v("C18|read-raised|%s" % prop, "%s after assigning %r raised %r" % (prop, v, e))
            continue
        rec.o("year:" + prop, "ok" if got == v else ("None" if got is None else "wrong"))
        if not reads_back(prop, v, got):
            rec.v("C18|roundtrip|%s|%s" % (prop, label), "%s = %r then reads %r" % (prop, v, got))
    rec.notes["n"] = case["hi"] - case["lo"] + 1


_CORE_TMPL = (
    '<?xml version="1.0" encoding="UTF-8" standalone="yes"?>\n'
    '<cp:coreProperties xmlns:cp="%s" xmlns:dc="%s" xmlns:dcterms="%s" xmlns:xsi="%s">'
    "<dc:title>w3cdtf</dc:title>"
    '<dcterms:created xsi:type="dcterms:W3CDTF">%%s</dcterms:created>'
    '<dcterms:modified xsi:type="dcterms:W3CDTF">%%s</dcterms:modified>'
    "<cp:lastPrinted>%%s</cp:lastPrinted>"
    "</cp:coreProperties>" % (CX.NS_CP, CX.NS_DC, CX.NS_DCTERMS, CX.NS_XSI)
)

_DEFAULT_MEMBERS = None


def _package_with_core(xml_bytes):
    global _DEFAULT_MEMBERS
    if _DEFAULT_MEMBERS is None:
        _DEFAULT_MEMBERS = F.zip_members(base_bytes("minimal"))
        if core_part_of(base_bytes("minimal"))[0] != "/docProps/core.xml":
            raise HarnessError("minimal.pptx has no /docProps/core.xml core-properties part")
    members = dict(_DEFAULT_MEMBERS)
    members["docProps/core.xml"] = xml_bytes
    return F.write_zip(members)


def _exec_read(case, rec):
    from pptx import Presentation
    text = case["text"]
    ref = W.parse(text)
    if ref is None or ref.utc == "out-of-range":
        raise HarnessError("read case %r is not an in-range W3CDTF text" % (text,))
    gran, tzk, utc = ref
    z = _package_with_core((_CORE_TMPL % (text, text, text)).encode("utf-8"))
    prs = Presentation(io.BytesIO(z))
    cp = prs.core_properties
    modes = {}
    for prop in DATE_PROPS:
        try:
            got = getattr(cp, prop)
            if got is None:
                mode = "unread"
            elif isinstance(got, dt.datetime) and abs(_naive_utc(got) - utc) < ONE_S:
                mode = "ok"
            else:
                mode = "wrong"
        except Exception as e:  # noqa
            got, mode = e, "raised-" + type(e).__name__
        rec.o("read:%s:%s" % (gran, prop), mode)
        if tzk == "none" and prop == "last_printed":
            continue  # a date-only text is not schema-valid in cp:lastPrinted (xs:dateTime): recorded only
        if mode != "ok":
            modes.setdefault(mode, []).append((prop, got))
    judged = 2 if tzk == "none" else 3
    for mode, lst in sorted(modes.items()):
        props = [p for p, _ in lst]
        only = "" if len(props) == judged else "|only=" + ",".join(props)
        if tzk == "none" and mode == "unread":
            sig = "C18|w3cdtf-unread|%s%s" % (gran, only)
        else:
            sig = "C18|w3cdtf|%s|%s|%s%s" % (gran, tzk, mode, only)
        rec.v(sig, "core.xml text %r (granularity %s) denotes %s UTC; %s" % (
            text, gran, utc.isoformat(), "; ".join("%s reads %r" % (p, g) for p, g in lst)))


def _exec_corpus(case, rec):
    from pptx import Presentation
    zb = base_bytes(case["deck"])
    try:
        orig = core_part_of(zb)
    except Exception:  # noqa  (deliberately broken fixture)
        rec.o("corpus", "unreadable-by-reference-reader")
        return
    try:
        prs = Presentation(io.BytesIO(zb))
        cp = prs.core_properties
    except Exception as e:  # noqa
        rec.o("corpus", "unopenable:" + type(e).__name__)
        return
    model = read_all(cp)
    for p in ALL_PROPS:
        if isinstance(model[p], tuple) and model[p][:1] == ("__raised__",):
            rec.v("C18|read-raised|%s" % p, "reading %s of %s raised %s" % (p, case["deck"], model[p][1:]))
    base_errors = frozenset()
    if orig is not None and orig[1] is not None:
        rec.o("corpus", "has-core-part")
        base_errors = frozenset(schema_error_keys(orig[1]))
        try:
            root = etree.fromstring(orig[1], _parser)
        except etree.XMLSyntaxError:
            root = None
        if root is not None:
            for p in ALL_PROPS:
                ns, local = ELEMENT_OF[p]
                els = [e for e in root if e.tag == "{%s}%s" % (ns, local)]
                if len(els) > 1 or (els and len(els[0])):
                    continue
                text = (els[0].text or "") if els else None
                if p in STRING_PROPS:
                    exp = text or ""
                    if model[p] != exp:
                        rec.v("C18|corpus-read|%s|string" % p, "%s: %s reads %s, element text is %s" % (
                            case["deck"], p, short(model[p]), short(exp)))
                elif p in DATE_PROPS and text:
                    ref = W.parse(text)
                    if ref is None or ref.utc == "out-of-range":
                        continue
                    g = model[p]
                    if not (isinstance(g, dt.datetime) and abs(_naive_utc(g) - ref.utc) < ONE_S):
                        rec.v("C18|corpus-read|%s|%s|%s" % (p, ref.granularity, ref.tzd_kind),
                              "%s: %s text %r denotes %s UTC, reads %r" % (case["deck"], p, text, ref.utc.isoformat(), g))
                elif p == "revision" and text and text.isdigit() and text.isascii() and int(text) >= 1:
                    if model[p] != int(text):
                        rec.v("C18|corpus-read|revision", "%s: revision text %r reads %r" % (case["deck"], text, model[p]))
    else:
        rec.o("corpus", "no-core-part")
    _cycles(rec, prs, model, {}, base_errors, orig is None)


def _exec(case, rec):
    k = case["kind"]
    if k == "assign":
        return _exec_assign(case, rec)
    if k == "years":
        return _exec_years(case, rec)
    if k == "read":
        return _exec_read(case, rec)
    if k == "corpus":
        return _exec_corpus(case, rec)
    if k == "two":
        return _exec_two(case, rec)
    raise ValueError(k)


# ---- space -------------------------------------------------------------------------------------------

def tzds():
    out = ["Z"]
    for m in range(-14 * 60, 14 * 60 + 1, 15):
        sign = "-" if m < 0 else "+"
        a = abs(m)
        out.append("%s%02d:%02d" % (sign, a // 60, a % 60))
    out.append("-00:00")
    return out


READ_BASES_QUICK = [(2003, 12, 31, 10, 14, 55), (2000, 2, 29, 23, 59, 59), (1900, 3, 1, 0, 0, 0)]
READ_BASES_THOROUGH = READ_BASES_QUICK + [(1970, 1, 1, 0, 0, 0), (1, 1, 1, 0, 0, 0), (9999, 12, 31, 23, 59, 59),
                                          (999, 6, 15, 12, 30, 30)]
FRACTIONS_QUICK = [".5", ".123456", ".000", ".1234567"]   # seven digits: what .NET writes; beyond %f
FRACTIONS_THOROUGH = FRACTIONS_QUICK + [".999999999", ".0000001"]


def read_cases(thorough):
    bases = READ_BASES_THOROUGH if thorough else READ_BASES_QUICK
    fracs = FRACTIONS_THOROUGH if thorough else FRACTIONS_QUICK
    cases, skipped = [], 0
    for (y, mo, d, h, mi, s) in bases:
        date = "%04d-%02d-%02d" % (y, mo, d)
        for text in ("%04d" % y, "%04d-%02d" % (y, mo), date):
            cases.append({"kind": "read", "text": text})
        for tzd in tzds():
            forms = ["%sT%02d:%02d%s" % (date, h, mi, tzd), "%sT%02d:%02d:%02d%s" % (date, h, mi, s, tzd)]
            forms += ["%sT%02d:%02d:%02d%s%s" % (date, h, mi, s, f, tzd) for f in fracs]
            for text in forms:
                ref = W.parse(text)
                if ref is None:
                    raise HarnessError("generated text %r rejected by the reference parser" % text)
                if ref.utc == "out-of-range":
                    skipped += 1
                    continue
                cases.append({"kind": "read", "text": text})
    return cases, skipped, len(bases) * (3 + len(tzds()) * (2 + len(fracs)))


PAIR_BASES_QUICK = ("minimal", "minimal-nocore")
PAIR_BASES_THOROUGH = ("minimal", "minimal-nocore", "default", "nocore")


def assign_cases(thorough):
    cases = []
    lengths = list(range(0, 257)) if thorough else BOUNDARY_LENGTHS
    for p in STRING_PROPS:
        for cls in CLASS_ORDER:
            for n in lengths:
                cases.append({"kind": "assign", "base": "minimal", "ops": [[p, s_spec(cls, n)]]})
            if thorough:
                for base in ("default", "nocore"):
                    for n in BOUNDARY_LENGTHS:
                        cases.append({"kind": "assign", "base": base, "ops": [[p, s_spec(cls, n)]]})
        for spec in NONSTR_FOR_STRING:
            cases.append({"kind": "assign", "base": "minimal", "ops": [[p, spec]]})
    for base in ("default", "nocore", "minimal-lean"):
        for p in DATE_PROPS:
            for spec in DATE_VALUES:
                cases.append({"kind": "assign", "base": base, "ops": [[p, spec]]})
        for spec in REVISION_VALUES:
            cases.append({"kind": "assign", "base": base, "ops": [["revision", spec]]})
        # no assignment at all: first access, then the two cycles
        cases.append({"kind": "assign", "base": base, "ops": []})
    n_single = len(cases)
    red = reduced_assignments(thorough)
    pair_bases = PAIR_BASES_THOROUGH if thorough else PAIR_BASES_QUICK
    for base in pair_bases:
        for a in red:
            for b in red:
                cases.append({"kind": "assign", "base": base, "ops": [[a[0], a[1]], [b[0], b[1]]],
                              "cycles": 2 if thorough else 1})
    nl = len(lengths)
    exp_single = (len(STRING_PROPS) * (len(CLASS_ORDER) * (nl + (2 * len(BOUNDARY_LENGTHS) if thorough else 0)) + len(NONSTR_FOR_STRING))
                  + 3 * (len(DATE_PROPS) * len(DATE_VALUES) + len(REVISION_VALUES) + 1))
    per_prop = 4 if thorough else 3
    exp_pairs = len(pair_bases) * (15 * per_prop) ** 2
    if n_single != exp_single or len(cases) - n_single != exp_pairs:
        raise HarnessError("assign generator sizes %d/%d != closed forms %d/%d" % (n_single, len(cases) - n_single, exp_single, exp_pairs))
    return cases, n_single, exp_pairs


YEAR_CHUNK = 625


def year_cases():
    out = []
    for p in DATE_PROPS:
        lo = 1
        while lo <= 9999:
            hi = min(9999, lo + YEAR_CHUNK - 1)
            # keep years < 1000 and >= 1000 in different chunks so that labels do not mix in a chunk
            if lo < 1000 <= hi:
                hi = 999
            out.append({"kind": "years", "prop": p, "lo": lo, "hi": hi})
            lo = hi + 1
    return out


def corpus_cases():
    return [{"kind": "corpus", "deck": F.corpus_name(p)} for p in F.corpus()]


def _nontrivial_key(case):
    k = case["kind"]
    if k == "assign":
        return ("assign", case["base"], tuple((p, repr(make_value(s))[:40], len(repr(make_value(s)))) for p, s in case["ops"]))
    if k == "read":
        return ("read", case["text"])
    if k == "corpus":
        return ("corpus", case["deck"])
    if k == "two":
        return ("two", case["a"], case["b"], case["mode"], case["batchA"], case["batchB"])
    return ("years", case["prop"], case["lo"])


def _worker(part, chunk):
    for case in chunk:
        rec = Rec()
        _exec(case, rec)
        n = rec.notes.get("n", 1)
        part.count("evaluations", n)
        part.count("cases_" + case["kind"])
        if case["kind"] == "years":
            part.count("nontrivial_count", n)
        else:
            part.add("nontrivial", _nontrivial_key(case))
        for op, label in rec.outcomes:
            part.outcome(op, label)
        for sig, what in rec.violations:
            part.violation(sig, what, {"case": case, "sig": sig})


def run(ctx):
    bad = W.self_test()
    if bad:
        raise HarnessError("w3cdtf_ref self-test failed: %s" % bad[:3])
    try:
        bad = CX.self_test()
    except Exception as e:  # noqa
        raise HarnessError("core-properties schema could not be compiled: %r" % (e,))
    if bad:
        raise HarnessError("core-properties schema oracle self-test failed: %s" % bad[:3])
    for b in NOCORE_BASES:
        if core_part_of(base_bytes(b)) is not None:
            raise HarnessError("base %s has a core-properties relationship" % b)
    for b in ("default", "minimal"):
        d = core_part_of(base_bytes(b))
        if d is None or d[1] is None or CX.errors(d[1]):
            raise HarnessError("base %s: core-properties part missing or not schema-valid" % b)
    if len(ALL_PROPS) != 15 or len(tzds()) != 115:
        raise HarnessError("alphabet sizes changed")

    a_cases, n_single, n_pairs = assign_cases(ctx.thorough)
    r_cases, r_skipped, r_full = read_cases(ctx.thorough)
    if len(r_cases) + r_skipped != r_full:
        raise HarnessError("read generator size %d + %d skipped != closed form %d" % (len(r_cases), r_skipped, r_full))
    y_cases = year_cases()
    c_cases = corpus_cases()
    t_cases = two_cases(ctx.thorough)
    cases = ctx.rotate(a_cases + r_cases + y_cases + c_cases + t_cases)

    ctx.extra["pristine_default_part_readings"] = {k: repr(v) for k, v in documented_defaults().items() if v not in ("", None)}
    fanout(ctx, _worker, cases, chunk_size=max(1, len(cases) // 256))

    exp_eval = len(a_cases) + len(r_cases) + 3 * 9999 + len(c_cases) + len(t_cases)
    if ctx.counters.get("evaluations", 0) != exp_eval:
        raise HarnessError("evaluations %d != closed form %d" % (ctx.counters.get("evaluations", 0), exp_eval))
    ctx.extra.update({
        "single_assignment_cases": n_single, "ordered_pair_cases": n_pairs,
        "w3cdtf_read_cases": len(r_cases), "w3cdtf_read_cases_skipped_not_representable": r_skipped,
        "tzd_alphabet": len(tzds()), "year_assignments": 3 * 9999, "corpus_decks": len(c_cases),
        "two_package_cases": len(t_cases), "fixed_clock_installed": _clock_installed(),
        "string_lengths": "0..256" if ctx.thorough else BOUNDARY_LENGTHS,
        "save_reopen_cycles_per_case": "2 (single assignments, corpus; pairs in thorough); 1 (pairs in quick; each "
                                       "package of a two-packages case)",
    })
    ctx.sample({"kind": "assign", "ops": [["title", "markup x 255"]], "value": gen_string("markup", 255)[:40] + "..."})
    ctx.sample(a_cases[-1])
    ctx.sample({"read": r_cases[10]["text"], "expected_utc": W.parse(r_cases[10]["text"]).utc.isoformat()})
    ctx.sample({"read": r_cases[-1]["text"], "expected_utc": W.parse(r_cases[-1]["text"]).utc.isoformat()})


def replay(data):
    rec = Rec()
    _exec(data["case"], rec)
    if not rec.violations:
        return None
    want = data.get("sig")
    hit = [w for s, w in rec.violations if s == want]
    if hit:
        return hit[0]
    return "; ".join("%s: %s" % (s, w) for s, w in rec.violations)
