"""Schema-side model for C10: candidate types per tag, sibling contexts from particle trees, and the
order oracle `Model.valid(T, tags)` (libxml2 on the RELAXED schemas; python-pptx is not involved).

The oracle is a pure function of (complex type, sequence of direct-child tags): a bare element of the
generated probe type `{ns}__CT_X` is given EMPTY children with those tags and validated against the
relaxed schema (every particle minOccurs=0, every attribute optional), which therefore accepts
exactly the child orders / choice exclusivity / maxOccurs the schema allows. Results are memoised.

Two schema sets: the transitional ISO/IEC 29500-4 set (mc.oracles.xsd.SchemaSet) and a small OPC set
(content types, relationships, core properties with local stub schemas for dc / dcterms / xml)
compiled here from /repo/spec/ISO-IEC-29500-2/opc-xsd with the same relax/probe transformations.
"""

from __future__ import annotations

import itertools
import os
import shutil
import tempfile

from lxml import etree

from mc.oracles import xsd as X

NS_CT = "http://schemas.openxmlformats.org/package/2006/content-types"
NS_PR = "http://schemas.openxmlformats.org/package/2006/relationships"
NS_CP = "http://schemas.openxmlformats.org/package/2006/metadata/core-properties"
NS_DC = "http://purl.org/dc/elements/1.1/"
NS_DCT = "http://purl.org/dc/terms/"
NS_XML = "http://www.w3.org/XML/1998/namespace"

PFX = {
    X.NS_A: "a", X.NS_C: "c", X.NS_P: "p", X.NS_R: "r", X.NS_PIC: "pic",
    NS_CT: "ct", NS_PR: "pr", NS_CP: "cp", NS_DC: "dc", NS_DCT: "dcterms",
    "http://schemas.openxmlformats.org/drawingml/2006/chartDrawing": "cdr",
    "http://schemas.openxmlformats.org/drawingml/2006/diagram": "dgm",
    "http://schemas.openxmlformats.org/officeDocument/2006/extended-properties": "ep",
    "http://schemas.openxmlformats.org/officeDocument/2006/math": "m",
    "http://schemas.openxmlformats.org/spreadsheetml/2006/main": "x",
    "http://schemas.openxmlformats.org/wordprocessingml/2006/main": "w",
}


def split(clark):
    ns, local = clark[1:].split("}")
    return ns, local


def local(clark):
    return clark.split("}")[-1]


def ptag(clark):
    ns, loc = split(clark)
    return "%s:%s" % (PFX.get(ns, "ns"), loc)


_DC_STUB = """<?xml version="1.0" encoding="UTF-8"?>
<xs:schema xmlns:xs="http://www.w3.org/2001/XMLSchema" targetNamespace="%s" elementFormDefault="qualified">
%s
</xs:schema>
"""


class _OpcSchema:
    """Relaxed OPC schemas (+ probes) compiled from the shipped opc-xsd files with local stubs."""

    FILES = ("opc-contentTypes.xsd", "opc-relationships.xsd", "opc-coreProperties.xsd")

    def __init__(self):
        d = tempfile.mkdtemp(prefix="verif-c10-opc-")
        try:
            with open(os.path.join(d, "dc.xsd"), "w") as f:
                f.write(_DC_STUB % (NS_DC, "\n".join(
                    '<xs:element name="%s" type="xs:anyType"/>' % n
                    for n in ("creator", "description", "identifier", "language", "subject", "title"))))
            with open(os.path.join(d, "dcterms.xsd"), "w") as f:
                f.write(_DC_STUB % (NS_DCT, "\n".join(
                    '<xs:element name="%s" type="xs:anyType"/>' % n for n in ("created", "modified"))))
            with open(os.path.join(d, "xml.xsd"), "w") as f:
                f.write(_DC_STUB % (NS_XML, '<xs:attribute name="lang" type="xs:string"/>'))
            wrapper = ['<?xml version="1.0"?>',
                       '<xs:schema xmlns:xs="http://www.w3.org/2001/XMLSchema" '
                       'targetNamespace="urn:verif:c10:opc-wrapper">']
            for fn in self.FILES:
                doc = etree.parse(os.path.join(X.OPC_XSD_DIR, fn))
                root = doc.getroot()
                for imp in root.findall(X.X + "import"):
                    ns = imp.get("namespace")
                    if ns == NS_DC:
                        imp.set("schemaLocation", "dc.xsd")
                    elif ns == NS_DCT:
                        imp.set("schemaLocation", "dcterms.xsd")
                    elif ns == NS_XML:
                        imp.set("schemaLocation", "xml.xsd")
                X._relax(doc)
                X._add_probes(doc)
                doc.write(os.path.join(d, fn), xml_declaration=True, encoding="UTF-8")
                wrapper.append('<xs:import namespace="%s" schemaLocation="%s"/>' % (root.get("targetNamespace"), fn))
            wrapper.append("</xs:schema>")
            with open(os.path.join(d, "wrapper.xsd"), "w") as f:
                f.write("\n".join(wrapper))
            self.schema = etree.XMLSchema(etree.parse(os.path.join(d, "wrapper.xsd")))
        finally:
            shutil.rmtree(d, ignore_errors=True)


class Model:
    """Index + relaxed schemas for both schema families, with the memoised order oracle."""

    def __init__(self):
        self.index = X.Index()
        self.opc_index = X.Index(X.OPC_XSD_DIR)
        self.main = X.SchemaSet.get(relaxed=True).schema
        self.opc = _OpcSchema().schema
        self._opc_ns = {NS_CT, NS_PR, NS_CP}
        self._valid = {}
        self._kinds = {}
        self._skel = {}
        self.validations = 0

    # -- types -------------------------------------------------------------------------------------
    def _idx(self, ns):
        return self.opc_index if ns in self._opc_ns else self.index

    def types_of(self, clark):
        """Candidate complex types (ns, name) for an element tag, sorted; simple/builtin types dropped."""
        ns, _ = split(clark)
        idx = self._idx(ns)
        return sorted(t for t in idx.tag_types.get(clark, ()) if t in idx.ctypes)

    def particles(self, t):
        return self._idx(t[0]).particles(t)

    def kinds(self, t):
        """Distinct child tags of type t in declaration order."""
        if t not in self._kinds:
            out = []
            for tag, _ in self._idx(t[0]).child_tags(t):
                if tag not in out:
                    out.append(tag)
            self._kinds[t] = out
        return self._kinds[t]

    # -- oracle ------------------------------------------------------------------------------------
    def valid(self, t, tags):
        key = (t, tuple(tags))
        v = self._valid.get(key)
        if v is None:
            self.validations += 1
            el = etree.Element("{%s}__%s" % t)
            for tag in tags:
                sub = etree.SubElement(el, tag)
                txt = SAMPLE_TEXT.get(tag)
                if txt is not None:
                    sub.text = txt
            schema = self.opc if t[0] in self._opc_ns else self.main
            v = bool(schema.validate(etree.ElementTree(el)))
            self._valid[key] = v
        return v

    def placeable(self, t, base, added):
        """Is there any way to insert the tags `added` (in that order) into `base` that validates?"""
        if not added:
            return self.valid(t, base)
        if len(added) > 3:
            return True  # too many to search: assume placeable (reports a failure rather than hiding it)
        first, rest = added[0], added[1:]
        for i in range(len(base) + 1):
            if self.placeable(t, base[:i] + [first] + base[i:], rest):
                return True
        return False

    def same_choice(self, t, base, added):
        """Some child of `base` (of another tag than the added ones) excludes the added children all by itself: the
        added children are fine alone, that child is fine alone, together they never validate (two members of one
        exclusive choice)."""
        if not added or not self.placeable(t, [], list(added)):
            return False
        for x in dict.fromkeys(base):
            if x in added:
                continue
            if self.valid(t, [x]) and not self.placeable(t, [x], list(added)):
                return True
        return False

    # -- contexts ----------------------------------------------------------------------------------
    def repeatable(self, t):
        """Type has a particle (element or compositor holding an element) with maxOccurs > 1."""
        def walk(p, inside):
            if p[0] == "elem":
                return inside or p[3] > 1
            if p[0] == "any":
                return False
            rep = inside or p[3] > 1
            return any(walk(k, rep) for k in p[1])
        return walk(self.particles(t), False)

    def skeletons(self, t):
        """Maximal tag sequences: one child of every particle, every exclusive choice contributing
        each member in turn (sum, not product); a repeatable choice contributes all its members."""
        if t in self._skel:
            return self._skel[t]

        def variants(p):
            if p[0] == "elem":
                return [[p[1]]]
            if p[0] == "any":
                return [[]]
            kids = p[1]
            if not kids:
                return [[]]
            kv = [variants(k) for k in kids]
            if p[0] == "choice" and p[3] <= 1:
                out = []
                for v in kv:
                    out.extend(v)
                return out or [[]]
            # seq / all / repeatable choice: concatenation, varying one kid at a time
            firsts = [v[0] for v in kv]
            out = []
            for i, v in enumerate(kv):
                for alt in v:
                    s = []
                    for j, f in enumerate(firsts):
                        s.extend(alt if j == i else f)
                    if s not in out:
                        out.append(s)
            return out or [[]]

        res = variants(self.particles(t))
        self._skel[t] = res
        return res

    def contexts(self, t, c, thorough):
        """Sibling contexts for adding/removing child kind `c` (may be None) in type t; list of tag
        tuples, deduplicated, canonical order. Pure function of (t, c, tier)."""
        kinds = self.kinds(t)
        order = {k: i for i, k in enumerate(kinds)}
        out, seen = [], set()

        def put(seq):
            seq = tuple(seq)
            if seq not in seen:
                seen.add(seq)
                out.append(seq)

        put(())
        for k in kinds:
            put((k,))
        ci = order.get(c)
        for s in self.skeletons(t):
            put(s)
            if c is not None:
                put([k for k in s if k != c])
                if ci is not None:
                    put([k for k in s if order[k] > ci])
                    put([k for k in s if order[k] < ci])
        for k1 in kinds:
            for k2 in kinds:
                put((k1, k2))
        if thorough and len(kinds) <= TRIPLE_KINDS_MAX:
            for k1 in kinds:
                for k2 in kinds:
                    for k3 in kinds:
                        put((k1, k2, k3))
        if thorough and self.repeatable(t) and len(kinds) <= QUAD_KINDS_MAX:
            for q in itertools.product(kinds, repeat=4):
                put(q)
        return out


TRIPLE_KINDS_MAX = 30
QUAD_KINDS_MAX = 8

# children of a SIMPLE type whose empty string is not in the lexical space (found by probing every
# kind alone; everything else validates empty under the relaxed schema)
SAMPLE_TEXT = {
    "{%s}tableStyleId" % X.NS_A: "{5C22544A-7EE6-4342-B048-85BDC9FD1C3A}",
    "{%s}lastPrinted" % NS_CP: "2000-01-01T00:00:00Z",
}
