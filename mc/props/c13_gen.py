"""C13 part B: generated layouts. Harness-side (zipfile + bare lxml + string templates, no python-pptx) replacement
of the placeholder population of layouts of the default template, and the closed-form population spaces.

A placeholder spec is the JSON-able list [type, orient, idx, xfrm, sz] or [type, orient, idx, xfrm, sz, name]:
  type   None (attribute absent = 'obj') or one of the ST_PlaceholderType tokens of pml.xsd
  orient None (absent = 'horz') | 'vert'
  idx    None (absent = 0) | 0 | 1 | 10
  xfrm   True (explicit a:xfrm with position-specific numbers) | False
  sz     None (absent = 'full') | 'full' | 'half' | 'quarter'
  name   (optional sixth member) the literal p:cNvPr/@name of the layout / notes-master placeholder; absent or None =
         the position-specific name 'Gen <k+1>' (distinct inside one population)
  form   (optional seventh member) the ELEMENT FORM of the layout placeholder: absent or None = 'p:sp' | 'pic' (a
         picture-bearing placeholder the designer filled in layout view is stored as p:pic: nvPicPr/cNvPr + cNvPicPr +
         nvPr/p:ph, empty p:blipFill, p:spPr) | 'graphicFrame' (a filled table / chart / diagram placeholder:
         nvGraphicFramePr/..., p:xfrm, empty a:graphic/a:graphicData). FORM_TYPES lists the (form, type) combinations.
A population is an ordered list of specs (document order). Duplicate idx values arise in populations of two or
more (equal idx values, or absent next to 0).

Names of the SOURCE placeholders are a dimension of their own (a new slide's placeholders must be uniquely named whatever
the layout calls its own). Per placeholder the name alphabet is
  D  'Gen <k+1>'       distinct from everything else
  S  'Shared'          one literal shared by every S member of the population
  E  ''                empty
  G  the name the library is documented to generate for ANOTHER clone of the same population ('<base name> <shape id
     - 1>', 'Vertical ' prefix for orient=vert; the next member in document order, cyclically), e.g. 'Title 1' on the
     second placeholder of a layout whose first one is a title
  O  (populations of one) the name the library generates for this clone itself, as in the stock layouts
and a population carries a name VECTOR, one letter per member (PAIR_NAME_VECTORS, TRIPLE_NAME_VECTORS,
SINGLE_NAME_VECTORS). The vector is resolved to literal names by with_names() before the case is recorded, so a replay
record is self-contained. The base-name table below is input generation only (no verdict depends on it); how often
it predicts the library's names is reported as coverage.generated_name_prediction.
"""

from __future__ import annotations

import io
import itertools
import zipfile
from xml.sax.saxutils import quoteattr

from lxml import etree

from mc.drivers import fixtures as F
from mc.oracles import opc_ref
from mc.props.c13_lib import NS, NS_A, NS_P, NS_R, RT

ORIENTS = [None, "vert"]
IDXS = [None, 0, 1, 4294967295]   # absent, the title idx, a body idx, the largest xsd:unsignedInt (PowerPoint writes it for some placeholders)
XFRMS = [True, False]
SZS = [None, "full", "half", "quarter"]
MASTERS = ["template", "bare"]

KNOWN_TOKENS = ["title", "body", "ctrTitle", "subTitle", "dt", "sldNum", "ftr", "hdr", "obj", "chart", "tbl",
                "clipArt", "dgm", "media", "sldImg", "pic"]


def schema_types():
    """[None] + ST_PlaceholderType tokens from the standard's pml.xsd (falls back to nothing: floor-checked)."""
    from mc.core.run import HarnessError
    from mc.oracles import xsd
    toks = list(xsd.Index().enumeration((xsd.NS_P, "ST_PlaceholderType")))
    if sorted(toks) != sorted(KNOWN_TOKENS):
        raise HarnessError("ST_PlaceholderType enumeration read from pml.xsd is %r, expected the 16 tokens %r" % (toks, KNOWN_TOKENS))
    return [None] + toks


def geo_for(k):
    """Explicit geometry written for the placeholder at document position k (distinct per position, distinct
    from every number in the template master)."""
    n = k + 1
    # the boundary value 0 is part of the alphabet: an explicit offset of 0 (a placeholder pinned to the slide
    # edge) must not be mistaken for "no explicit value"; even positions have x = 0, odd positions y = 0
    x = 0 if k % 2 == 0 else 1000000 + 1111 * n
    y = 0 if k % 2 == 1 else 2000000 + 2222 * n
    return (x, y, 3000000 + 3333 * n, 400000 + 4444 * n)


def spec_name(k, spec):
    """Literal name of the placeholder at document position k."""
    if len(spec) > 5 and spec[5] is not None:
        return spec[5]
    return "Gen %d" % (k + 1)


def spec_form(spec):
    """Element form of the placeholder: 'sp' | 'pic' | 'graphicFrame' (seventh member, absent or None = 'sp')."""
    return (spec[6] if len(spec) > 6 and spec[6] is not None else "sp")


def sp_xml(k, spec):
    t, orient, idx, xfrm, sz = spec[:5]
    attrs = ""
    if t is not None:
        attrs += ' type="%s"' % t
    if orient is not None:
        attrs += ' orient="%s"' % orient
    if sz is not None:
        attrs += ' sz="%s"' % sz
    if idx is not None:
        attrs += ' idx="%d"' % idx
    x = ""
    if xfrm:
        x = '<a:xfrm><a:off x="%d" y="%d"/><a:ext cx="%d" cy="%d"/></a:xfrm>' % geo_for(k)
    form = spec_form(spec)
    if form == "pic":
        # a picture-bearing placeholder the designer filled in layout view (the blip is left empty: no media part)
        return ('<p:pic><p:nvPicPr><p:cNvPr id="%d" name=%s/><p:cNvPicPr><a:picLocks noGrp="1" noChangeAspect="1"/></p:cNvPicPr>'
                '<p:nvPr><p:ph%s/></p:nvPr></p:nvPicPr><p:blipFill><a:blip/><a:stretch><a:fillRect/></a:stretch></p:blipFill>'
                '<p:spPr>%s</p:spPr></p:pic>' % (k + 2, quoteattr(spec_name(k, spec)), attrs, x))
    if form == "graphicFrame":
        # a table / chart / diagram placeholder filled in layout view; p:xfrm is a required child of the frame, so
        # 'no explicit geometry' is the empty <p:xfrm/>
        gx = x.replace("<a:xfrm>", "<p:xfrm>").replace("</a:xfrm>", "</p:xfrm>") if xfrm else "<p:xfrm/>"
        return ('<p:graphicFrame><p:nvGraphicFramePr><p:cNvPr id="%d" name=%s/><p:cNvGraphicFramePr><a:graphicFrameLocks noGrp="1"/>'
                '</p:cNvGraphicFramePr><p:nvPr><p:ph%s/></p:nvPr></p:nvGraphicFramePr>%s'
                '<a:graphic><a:graphicData uri="http://schemas.openxmlformats.org/drawingml/2006/table"/></a:graphic>'
                '</p:graphicFrame>' % (k + 2, quoteattr(spec_name(k, spec)), attrs, gx))
    if form != "sp":
        raise ValueError(form)
    return ('<p:sp><p:nvSpPr><p:cNvPr id="%d" name=%s/><p:cNvSpPr><a:spLocks noGrp="1"/></p:cNvSpPr>'
            '<p:nvPr><p:ph%s/></p:nvPr></p:nvSpPr><p:spPr>%s</p:spPr>'
            '<p:txBody><a:bodyPr/><a:lstStyle/><a:p><a:endParaRPr lang="en-US"/></a:p></p:txBody></p:sp>'
            % (k + 2, quoteattr(spec_name(k, spec)), attrs, x))


_HEAD = ('<?xml version="1.0" encoding="UTF-8" standalone="yes"?>\n'
         '<p:%s xmlns:a="' + NS_A + '" xmlns:r="' + NS_R + '" xmlns:p="' + NS_P + '"%s>'
         '<p:cSld%s><p:spTree><p:nvGrpSpPr><p:cNvPr id="1" name=""/><p:cNvGrpSpPr/><p:nvPr/></p:nvGrpSpPr>'
         '<p:grpSpPr><a:xfrm><a:off x="0" y="0"/><a:ext cx="0" cy="0"/><a:chOff x="0" y="0"/><a:chExt cx="0" cy="0"/>'
         '</a:xfrm></p:grpSpPr>')


def layout_xml(pop):
    return ((_HEAD % ("sldLayout", ' preserve="1"', ' name="Generated"'))
            + "".join(sp_xml(k, s) for k, s in enumerate(pop))
            + '</p:spTree></p:cSld><p:clrMapOvr><a:masterClrMapping/></p:clrMapOvr></p:sldLayout>').encode("utf-8")


def write_zip_stored(members):
    buf = io.BytesIO()
    with zipfile.ZipFile(buf, "w", zipfile.ZIP_STORED) as z:
        for name, data in members.items():
            z.writestr(zipfile.ZipInfo(name, date_time=(1980, 1, 1, 0, 0, 0)), data)
    return buf.getvalue()


_BASE = {}


def _rels(members, partname):
    root = etree.fromstring(members[opc_ref.rels_member_for(partname)])
    out = {}
    for el in root:
        if isinstance(el.tag, str) and el.get("TargetMode") != "External":
            out[el.get("Id")] = (el.get("Type"), opc_ref.resolve(partname, el.get("Target")))
    return out


def base():
    """(members of the default template, first master part name, its layout part names in sldLayoutIdLst order,
    members of the 'bare' variant: the same with every placeholder removed from the master)."""
    if not _BASE:
        m = F.zip_members(F.read_bytes(F.DEFAULT_PPTX))
        pres = "/ppt/presentation.xml"
        prels = _rels(m, pres)
        proot = etree.fromstring(m[pres[1:]])
        mid = proot.find("p:sldMasterIdLst", NS)[0].get("{%s}id" % NS_R)
        master_pn = prels[mid][1]
        mrels = _rels(m, master_pn)
        mroot = etree.fromstring(m[master_pn[1:]])
        layouts = [mrels[e.get("{%s}id" % NS_R)][1] for e in mroot.find("p:sldLayoutIdLst", NS)]
        tree = mroot.find("p:cSld/p:spTree", NS)
        for el in list(tree):
            if isinstance(el.tag, str) and len(el) and el[0].find("p:nvPr/p:ph", NS) is not None:
                tree.remove(el)
        bare = dict(m)
        bare[master_pn[1:]] = etree.tostring(mroot, xml_declaration=True, encoding="UTF-8", standalone=True)
        _BASE.update(members=m, master=master_pn, layouts=layouts, bare=bare)
    return _BASE


def batch_size():
    return len(base()["layouts"])


def build_deck(pops, master):
    """Deck (bytes) whose i-th layout carries population pops[i]; master variant 'template' | 'bare'."""
    b = base()
    m = dict(b["members"] if master == "template" else b["bare"])
    if len(pops) > len(b["layouts"]):
        raise ValueError("too many populations for one deck")
    for pop, pn in zip(pops, b["layouts"]):
        m[pn[1:]] = layout_xml(pop)
    return write_zip_stored(m), b["layouts"][:len(pops)]


# ---- notes master variant --------------------------------------------------------------------------------

def notes_master_xml(pop):
    return ((_HEAD % ("notesMaster", "", ""))
            + "".join(sp_xml(k, s) for k, s in enumerate(pop))
            + '</p:spTree></p:cSld><p:clrMap bg1="lt1" tx1="dk1" bg2="lt2" tx2="dk2" accent1="accent1" accent2="accent2" '
              'accent3="accent3" accent4="accent4" accent5="accent5" accent6="accent6" hlink="hlink" folHlink="folHlink"/>'
              '</p:notesMaster>').encode("utf-8")


_NOTES_BASE = {}


def notes_base():
    """Members of a deck with one slide and a notes master (made once by python-pptx from its own templates;
    construction only), plus the notes master part name found by bare reading."""
    if not _NOTES_BASE:
        prs = F.open_prs()
        s = prs.slides.add_slide(prs.slide_layouts[6])
        s.notes_slide  # noqa: B018  creates notes master + notes slide
        m = F.zip_members(F.save_bytes(prs))
        prels = _rels(m, "/ppt/presentation.xml")
        nm = [t for ty, t in prels.values() if ty == RT + "notesMaster"]
        if len(nm) != 1:
            raise RuntimeError("notes base deck has %d notes masters" % len(nm))
        _NOTES_BASE.update(members=m, notes_master=nm[0])
    return _NOTES_BASE


def build_notes_deck(pop):
    b = notes_base()
    m = dict(b["members"])
    m[b["notes_master"][1:]] = notes_master_xml(pop)
    return write_zip_stored(m), b["notes_master"]


# ---- names of the source placeholders ------------------------------------------------------------------------

SLIDE_BASENAMES = {
    None: "Content Placeholder", "obj": "Content Placeholder", "title": "Title", "ctrTitle": "Title", "subTitle": "Subtitle",
    "body": "Text Placeholder", "chart": "Chart Placeholder", "tbl": "Table Placeholder", "clipArt": "ClipArt Placeholder",
    "dgm": "SmartArt Placeholder", "media": "Media Placeholder", "sldImg": "Slide Image Placeholder",
    "pic": "Picture Placeholder", "dt": "Date Placeholder", "ftr": "Footer Placeholder",
    "sldNum": "Slide Number Placeholder", "hdr": "Header Placeholder",
}
NOTES_BASENAMES = dict(SLIDE_BASENAMES, body="Notes Placeholder")
SLIDE_LATENT = ("dt", "ftr", "sldNum")
NOTES_CLONED = ("sldImg", "body", "sldNum")

SHARED_NAME = "Shared"


def _is_cloned(spec, where):
    t = spec[0] or "obj"
    return (t in NOTES_CLONED) if where == "notes" else (t not in SLIDE_LATENT)


def generated_name(pop, k, where="slide"):
    """The documented generated name of the clone of member k: '<base> <n>' with n = shape id - 1 = 1 + number of
    members cloned before it (a member that is not cloned is given the name it would have had in its place)."""
    spec = pop[k]
    rank = len([s for s in pop[:k] if _is_cloned(s, where)])
    base = (NOTES_BASENAMES if where == "notes" else SLIDE_BASENAMES)[spec[0]]
    if spec[1] == "vert":
        base = "Vertical " + base
    return "%s %d" % (base, rank + 1)


def with_names(pop, vector, where="slide"):
    """Population with literal names (sixth member) according to the name vector, one letter per member."""
    if len(vector) != len(pop):
        raise ValueError("name vector %r for a population of %d" % (vector, len(pop)))
    out = []
    for k, (spec, letter) in enumerate(zip(pop, vector)):
        if letter == "D":
            name = None
        elif letter == "S":
            name = SHARED_NAME
        elif letter == "E":
            name = ""
        elif letter == "G":
            name = generated_name(pop, (k + 1) % len(pop), where)
        elif letter == "O":
            name = generated_name(pop, k, where)
        else:
            raise ValueError(letter)
        out.append(list(spec[:5]) + ([name] if name is not None else []))
    return out


# every unordered class of {D, S, E, G}^2 that is not equivalent to DD (a single S next to a D is just two distinct names)
PAIR_NAME_VECTORS = ["SS", "EE", "GG", "DE", "ED", "DG", "GD", "EG", "GE"]
# two of three sharing one name (every placement), all three sharing it
TRIPLE_NAME_VECTORS = ["SSS", "SSD", "SDS", "DSS"]
SINGLE_NAME_VECTORS = ["E", "O"]


# ---- spaces (pure functions of the bound) -----------------------------------------------------------------

def singles(types):
    """types x orient x idx x xfrm x sz x master."""
    out = []
    for t, o, i, x, s, m in itertools.product(types, ORIENTS, IDXS, XFRMS, SZS, MASTERS):
        out.append(([[t, o, i, x, s]], m))
    return out, len(types) * 2 * 4 * 2 * 4 * 2


def singles_names(types):
    """types x orient x name {E, O}; idx 1, no xfrm, sz absent, template master."""
    out = []
    for t, o, v in itertools.product(types, ORIENTS, SINGLE_NAME_VECTORS):
        out.append((with_names([[t, o, 1, False, None]], v), "template"))
    return out, len(types) * 2 * len(SINGLE_NAME_VECTORS)


# element forms: which placeholder types PowerPoint stores as p:pic / p:graphicFrame once filled in layout view
# (None = type absent = 'obj', the content placeholder, takes either)
FORM_TYPES = [("pic", "pic"), ("pic", "clipArt"), ("pic", "media"), ("pic", None),
              ("graphicFrame", "tbl"), ("graphicFrame", "chart"), ("graphicFrame", "dgm"), ("graphicFrame", None)]
# (explicit geometry, master): a filled placeholder carries its geometry; 'no geometry of its own' is enumerated on the
# bare master only (with the template master the library gives no master fallback for a non-p:sp layout placeholder:
# reported to the maintainers of the checks, see ASSUMPTIONS of c13.py)
FORM_XFRM_MASTER = [(True, "template"), (True, "bare"), (False, "bare")]


def singles_forms():
    """8 (form, type) x orient x idx x sz x 3 (xfrm, master)."""
    out = []
    for (form, t), o, i, s, (x, m) in itertools.product(FORM_TYPES, ORIENTS, IDXS, SZS, FORM_XFRM_MASTER):
        out.append(([[t, o, i, x, s, None, form]], m))
    return out, len(FORM_TYPES) * 2 * 4 * 4 * len(FORM_XFRM_MASTER)


def pairs_forms(types):
    """One member in a non-p:sp form (8 (form, type), explicit geometry, idx absent|1 by position), the other a p:sp of
    every type x xfrm, both document orders, idx vector (a,1), orient and sz absent, template master."""
    out = []
    for (form, t), t2, x2, first in itertools.product(FORM_TYPES, types, XFRMS, (True, False)):
        if first:
            pop = [[t, None, None, True, None, None, form], [t2, None, 1, x2, None]]
        else:
            pop = [[t2, None, None, x2, None], [t, None, 1, True, None, None, form]]
        out.append((pop, "template"))
    return out, len(FORM_TYPES) * len(types) * 2 * 2


PAIR_IDX_QUICK = [(None, None), (None, 1), (1, 1), (10, 1)]
PAIR_NAMES_ORIENT_QUICK = [(None, None), (None, "vert")]
PAIR_NAMES_IDX_QUICK = [(None, 1)]


def pairs_names(types, thorough):
    """Ordered pairs x the 9 name vectors; xfrm (True, False), sz absent, template master.
    quick:    types^2 x 2 orient vectors {(h,h),(h,v)} x idx vector (a,1) x 9 name vectors
    thorough: types^2 x orient^2 x the 4 idx vectors of the quick pairs x 9 name vectors   (superset of quick)."""
    ovs = list(itertools.product(ORIENTS, repeat=2)) if thorough else PAIR_NAMES_ORIENT_QUICK
    ivs = PAIR_IDX_QUICK if thorough else PAIR_NAMES_IDX_QUICK
    out = []
    for t1, t2 in itertools.product(types, repeat=2):
        for (o1, o2), (i1, i2), v in itertools.product(ovs, ivs, PAIR_NAME_VECTORS):
            out.append((with_names([[t1, o1, i1, True, None], [t2, o2, i2, False, None]], v), "template"))
    return out, len(types) ** 2 * len(ovs) * len(ivs) * len(PAIR_NAME_VECTORS)


def _pairs(types, idx_vectors, sz, master):
    out = []
    for t1, t2 in itertools.product(types, repeat=2):
        for (o1, o2), (i1, i2), (x1, x2) in itertools.product(
                itertools.product(ORIENTS, repeat=2), idx_vectors, itertools.product(XFRMS, repeat=2)):
            out.append(([[t1, o1, i1, x1, sz[0]], [t2, o2, i2, x2, sz[1]]], master))
    return out, len(types) ** 2 * 4 * len(idx_vectors) * 4


def pairs(types, thorough):
    """Ordered pairs (document order matters).
    quick:    types^2 x orient^2 x 4 idx vectors {(a,a),(a,1),(1,1),(10,1)} x xfrm^2, sz absent, template master.
    thorough: types^2 x orient^2 x idx^2 (16) x xfrm^2, sz absent, template master   (superset of quick)
              + types^2 x orient^2 x the 4 idx vectors x xfrm^2, sz (half, quarter), bare master."""
    if not thorough:
        return _pairs(types, PAIR_IDX_QUICK, (None, None), "template")
    a, na = _pairs(types, list(itertools.product(IDXS, repeat=2)), (None, None), "template")
    b, nb = _pairs(types, PAIR_IDX_QUICK, ("half", "quarter"), "bare")
    return a + b, na + nb


TRIPLE_ORIENT = [(None, None, None), (None, "vert", None)]
TRIPLE_IDX = [(None, None, None), (10, 1, 10), (None, 0, 1)]
TRIPLE_XFRM = [(True, False, True), (False, False, False)]


def triples(types):
    """ordered type triples x 2 orient vectors x 3 idx vectors x 2 xfrm vectors, template master, sz absent."""
    out = []
    for ts in itertools.product(types, repeat=3):
        for ov, iv, xv in itertools.product(TRIPLE_ORIENT, TRIPLE_IDX, TRIPLE_XFRM):
            out.append(([[ts[k], ov[k], iv[k], xv[k], None] for k in range(3)], "template"))
    return out, len(types) ** 3 * len(TRIPLE_ORIENT) * len(TRIPLE_IDX) * len(TRIPLE_XFRM)


def triples_names(types):
    """ordered type triples x 4 name vectors; orient absent, idx (a,1,10), xfrm (T,F,T), template master, sz absent."""
    out = []
    for ts in itertools.product(types, repeat=3):
        for v in TRIPLE_NAME_VECTORS:
            out.append((with_names([[ts[0], None, None, True, None], [ts[1], None, 1, False, None], [ts[2], None, 10, True, None]], v), "template"))
    return out, len(types) ** 3 * len(TRIPLE_NAME_VECTORS)


NOTES_PAIR_TYPES = ["sldImg", "body", "sldNum", "hdr", "dt", "ftr"]


def notes_singles(types):
    out = [[[t, o, i, x, s]] for t, o, i, x, s in itertools.product(types, ORIENTS, IDXS, XFRMS, SZS)]
    return out, len(types) * 2 * 4 * 2 * 4


def notes_pairs(thorough=True):
    """Ordered pairs of notes-master placeholders. quick: idx^2 over the first two idx values (a notes master with two
    placeholders of one type — two slide images — is what seed C13-3 needs); thorough: idx^2 in full."""
    out = []
    idxs = IDXS if thorough else IDXS[:2]
    for t1, t2 in itertools.product(NOTES_PAIR_TYPES, repeat=2):
        for (i1, i2), (x1, x2) in itertools.product(itertools.product(idxs, repeat=2), itertools.product(XFRMS, repeat=2)):
            out.append([[t1, None, i1, x1, None], [t2, None, i2, x2, None]])
    return out, len(NOTES_PAIR_TYPES) ** 2 * len(idxs) ** 2 * 4


def notes_singles_names(types):
    """types x orient x name {E, O}; idx 1, no xfrm, sz absent."""
    out = [with_names([[t, o, 1, False, None]], v, "notes") for t, o, v in itertools.product(types, ORIENTS, SINGLE_NAME_VECTORS)]
    return out, len(types) * 2 * len(SINGLE_NAME_VECTORS)


def notes_pairs_names(thorough=True):
    """Ordered pairs of notes-master placeholders x the 9 name vectors; xfrm (True, False).
    quick: idx vector (a,1); thorough: the 4 idx vectors (a,a),(a,1),(1,1),(10,1)."""
    ivs = PAIR_IDX_QUICK if thorough else PAIR_NAMES_IDX_QUICK
    out = []
    for t1, t2 in itertools.product(NOTES_PAIR_TYPES, repeat=2):
        for (i1, i2), v in itertools.product(ivs, PAIR_NAME_VECTORS):
            out.append(with_names([[t1, None, i1, True, None], [t2, None, i2, False, None]], v, "notes"))
    return out, len(NOTES_PAIR_TYPES) ** 2 * len(ivs) * len(PAIR_NAME_VECTORS)
