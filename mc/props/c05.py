"""C05 — caller-supplied strings are stored as data, never interpreted as markup.

Bounded-exhaustive enumeration (engine E2): sink catalogue x string set M. Every case is executed in
isolation on a fresh default presentation (no batching: explorer and replay run exactly the same code):

    1. the entry point is called with the string m                      -> must not raise        (raised)
    2. the public reader of the same field is read on the live objects   -> must equal m          (readback)
    3. the package is saved                                              -> must not raise        (save-raised)
    4. every XML member of the saved zip is re-parsed with bare lxml     -> must parse            (reparse)
    5. the per-member sequences of element tags are compared with the
       ones obtained from the *same call with the benign string 'X'*     -> must be identical     (structure)
    6. the saved package is re-opened                                    -> must not raise        (reopen-raised)
    7. the reader on the re-opened package                               -> must equal m          (readback-reopen)

The first failing step is the rule of the case. The reference model is "the benign run": a string
is data iff swapping it for 'X' changes nothing but that value.

Signatures: per sink the set of failing strings is reduced to its substring-minimal members (M contains
every single character of its alphabet, so a minimal member normally is one offending character; a
longer string that fails only because it contains a failing shorter one is not reported separately).
Chart sinks exist once per chart *family* (plot element: area, bar, bubble, doughnut, line, pie, radar,
xy); families failing with the same rule on the same minimal string are merged into one signature
`C05|<rule>|sink=<entry point>.<field>@<fam1>+<fam2>...|chars=<minimal string>`, so a regression in one
more family changes the signature. The chart-type member (variant) is not part of the signature: the
quick tier runs one member per family (the first in name order), the thorough tier every member
python-pptx can write (29).

Deviations from DESIGN section 4/C05 (all on the weaker side):
* no batched save: one save/re-open per case (stronger, still cheap);
* the structure comparison covers every XML member of the saved package (not only the mutated part);
* hover hyperlinks are not reachable through the public API (only `click_action`) -> not a sink;
  the `add_ole_object` icon file name is not stored in XML -> not a sink;
* text sinks (cell text, notes text, text-box text, chart/axis title) interpret '\n', '\t', '\v' as
  paragraph/line-break/tab structure by documented contract (property C04): strings containing them
  are out of domain for those sinks;
* file-name sinks: strings with '/' or longer than NAME_MAX cannot be file names on Linux -> skipped;
* string core properties document a 255-character limit (property C18) -> longer strings skipped;
* a re-open mismatch that differs only by XML attribute-value/whitespace normalisation of \\t \\n would
  be classified oracle-weaker and only counted (`ws_normalised_on_reopen`); none occurs at present;
* additional sinks not in the design list: movie mime type (stored in [Content_Types].xml),
  `chart.replace_data` for every chart-data sink (different writer entry points), chart font name.
"""

from __future__ import annotations

import datetime
import io
import os
import shutil
import zipfile

from lxml import etree

from mc.core.parallel import fanout
from mc.core.run import HarnessError
from mc.drivers import fixtures

LEVEL = "exploration"
RULE = ("every (sink, chart-type variant) of the sink catalogue x every string of M (all strings of length <= 2 "
        "over {& < > \" ' ] ; # a} plus curated entity-like / CDATA-like / format-directive / whitespace / "
        "non-ASCII / long strings), minus documented out-of-domain pairs; each case on a fresh presentation "
        "with its own save and re-open, compared with the same call made with the benign string 'X'. "
        "Non-trivial = the string contains at least one character outside [A-Za-z0-9]; cases are distinct "
        "by construction (sink, variant, string).")
ASSUMPTIONS = [
    "string-set bounded: M = 90 strings over the 9-character alphabet up to length 2 plus the curated list; longer combinations of metacharacters are not explored",
    "sink catalogue is hand-written from the public API; entry points not in the catalogue are not explored "
    "(floor: >= 40 sink names, >= 8 chart families)",
    "reference model: the same call with the benign string 'X' (tag skeleton of every XML member), bare lxml",
    "text sinks exclude strings with \\n \\t \\v (structure by contract, C04); core properties exclude > 255 "
    "chars (C18); file-name sinks exclude '/' and names longer than 255 bytes",
    "chart types: only the XL_CHART_TYPE members python-pptx can write (29); quick tier one per family",
]

BENIGN = "X"

# ---- string set M ------------------------------------------------------------------------------------

ALPHA = ["&", "<", ">", '"', "'", "]", ";", "#", "a"]
LONG = ("long<&>\"'" * 34)[:300]
MAX255 = ("max255 &<>" * 26)[:255]
CURATED = [
    "]]>", "&amp;", "&#x41;", "&lt;", "&#10;", "&a;", "a&b", "<a/>", "</a>", "<!--", "-->", "<?x?>",
    "<![CDATA[x]]>", "%", "%s", "%d", "%(x)s", "{", "}", "{}", "{0}", "{x}", "\\", "\n", "\t", "a\nb", "a\tb",
    " lead", "trail ", "a  b", " ", "\x85", " ", " ", "\U0001F600", "é", LONG,
    'a"b', "a'b", 'a" b="c', '"/><x a="', "'/><x a='", "[<100]0;0", 'xmlns:a="u"',
    # strings that coincide with tokens the library itself gives a meaning to (enum member values / names, Python
    # literals): they are still just data
    "XLSX", "DOCX", "PPTX", "None", "True", "0", "General",
    # the documented maximum length of a core property (boundary)
    MAX255,
    # look-alikes of the _xHHHH_ escape for code points the library never escapes: plain data
    "_x0041_", "col_x0041_total",
    # strings that Unicode normalisation, case folding or whitespace collapsing would change: decomposed accent,
    # compatibility characters (ANGSTROM SIGN, full-width digits), no-break / ideographic / line-separator spaces,
    # characters whose upper / lower case is not a single code point, an astral character between BMP ones
    "cafe\u0301", "\u212b\uff11\uff12", "a\u00a0b", "a\u3000\u2028b", "\u00df\u0130\u01c5", "up\U0001F4C8x",
]


def strings():
    out, seen = [], set()
    for s in ALPHA + [a + b for a in ALPHA for b in ALPHA] + CURATED:
        if s not in seen:
            seen.add(s)
            out.append(s)
    return out


def label(m):
    if m == LONG:
        return "len300"
    if m == MAX255:
        return "len255"
    return m.encode("unicode_escape").decode("ascii")


def nontrivial(m):
    return any(not (c.isascii() and c.isalnum()) for c in m)


# ---- helpers ---------------------------------------------------------------------------------------

_PNG = None


def _png():
    global _PNG
    if _PNG is None:
        _PNG = fixtures.make_image("PNG", (4, 3))
    return _PNG


LAYOUTS = {0: "Title Slide", 3: "Two Content", 6: "Blank", 8: "Picture with Caption"}
_SLIM = None


def _template():
    """The default template reduced (through the public API) to the four layouts the catalogue uses:
    halves the cost of the save / re-open of every case. Built once per process."""
    global _SLIM
    if _SLIM is None:
        from pptx import Presentation
        prs = Presentation()
        keep = set(LAYOUTS.values())
        for lay in list(prs.slide_layouts):
            if lay.name not in keep:
                prs.slide_layouts.remove(lay)
        if sorted(lay.name for lay in prs.slide_layouts) != sorted(keep):
            raise HarnessError("default template lacks the layouts %s" % sorted(keep))
        buf = io.BytesIO()
        prs.save(buf)
        _SLIM = buf.getvalue()
    return _SLIM


def _layout(prs, idx):
    lay = prs.slide_layouts.get_by_name(LAYOUTS[idx])
    if lay is None:
        raise HarnessError("layout %r missing" % LAYOUTS[idx])
    return lay


def _blank(prs, layout=6):
    return prs.slides.add_slide(_layout(prs, layout))


def _last_shape(p2, slide=0):
    return list(p2.slides[slide].shapes)[-1]


def _xml(blob):
    return etree.fromstring(blob)


def _local(el):
    return etree.QName(el).localname


def _descr_of_pics(blob):
    """descr attribute of every p:pic//p:cNvPr in a slide part, bare lxml."""
    root = _xml(blob)
    out = []
    for pic in root.iter("{*}pic"):
        for c in pic.iter("{*}cNvPr"):
            out.append(c.get("descr"))
            break
    return out


def _format_codes(blob, parents):
    """sorted distinct c:formatCode texts whose great-grandparent (c:val, c:cat, c:xVal...) is in parents."""
    root = _xml(blob)
    out = set()
    for e in root.iter("{*}formatCode"):
        gp = e.getparent().getparent().getparent()
        if _local(gp) in parents:
            out.add(e.text if e.text is not None else "")
    return sorted(out)


def _file_ok(m, ext):
    name = m + ext
    return "/" not in name and "\x00" not in name and len(name.encode("utf-8")) <= 255 and name not in (".", "..")


def _text_ok(m):
    return not any(c in m for c in "\n\t\v\r")


class Sink:
    """One (setter, reader) pair. fn(prs, m, tmp) performs the call under test and returns
    (live_reader | None, reopen_reader, expected). reopen_reader(p2, saved_bytes)."""

    def __init__(self, name, fn, variant="", ok=None):
        self.name = name
        self.variant = variant
        self.fn = fn
        self.ok = ok or (lambda m: True)

    @property
    def key(self):
        return (self.name, self.variant)


# ---- non-chart sinks -------------------------------------------------------------------------------

def _mk_shape(slide, kind):
    from pptx.enum.shapes import MSO_CONNECTOR, MSO_SHAPE
    sh = slide.shapes
    if kind == "autoshape":
        return sh.add_shape(MSO_SHAPE.RECTANGLE, 10, 10, 1000, 1000)
    if kind == "textbox":
        return sh.add_textbox(10, 10, 1000, 1000)
    if kind == "picture":
        return sh.add_picture(io.BytesIO(_png()), 10, 10)
    if kind == "connector":
        return sh.add_connector(MSO_CONNECTOR.STRAIGHT, 10, 10, 500, 500)
    if kind == "group":
        return sh.add_group_shape()
    if kind == "graphicframe":
        return sh.add_table(2, 2, 10, 10, 1000, 1000)
    if kind == "placeholder":
        return sh.title
    raise ValueError(kind)


def _shape_name_sink(kind):
    def fn(prs, m, tmp):
        slide = _blank(prs, 0 if kind == "placeholder" else 6)
        shp = _mk_shape(slide, kind)
        idx = [i for i, s in enumerate(slide.shapes) if s.shape_id == shp.shape_id][0]
        shp.name = m
        return (lambda: shp.name), (lambda p2, b: list(p2.slides[0].shapes)[idx].name), m
    return Sink("shape.name/" + kind, fn)


def _slide_name(prs, m, tmp):
    slide = _blank(prs)
    slide.name = m
    return (lambda: slide.name), (lambda p2, b: p2.slides[0].name), m


def _layout_name_lookup(prs, m, tmp):
    layout = _layout(prs, 3)
    want = [i for i, lay in enumerate(prs.slide_layouts) if lay.part.partname == layout.part.partname][0]
    layout.name = m

    def find(p):
        got = p.slide_layouts.get_by_name(m)
        if got is None:
            return None
        for i, lay in enumerate(p.slide_layouts):
            if lay.part.partname == got.part.partname:
                return (i, got.name)
        return ("?", got.name)
    return (lambda: find(prs)), (lambda p2, b: find(p2)), (want, m)


def _picture_file(where):
    def fn(prs, m, tmp):
        path = os.path.join(tmp, m + ".png")
        with open(path, "wb") as f:
            f.write(_png())
        slide = _blank(prs)
        shapes = slide.shapes.add_group_shape().shapes if where == "group" else slide.shapes
        try:
            shapes.add_picture(path, 10, 10)
        finally:
            os.unlink(path)
        return ((lambda: _descr_of_pics(slide.part.blob)),
                (lambda p2, b: _descr_of_pics(p2.slides[0].part.blob)), [m + ".png"])
    return Sink("add_picture.file-name->descr" + ("/in-group" if where == "group" else ""), fn,
                ok=lambda m: _file_ok(m, ".png"))


def _placeholder_picture(prs, m, tmp):
    path = os.path.join(tmp, m + ".png")
    with open(path, "wb") as f:
        f.write(_png())
    slide = _blank(prs, 8)
    ph = [p for p in slide.placeholders if hasattr(p, "insert_picture")][0]
    try:
        ph.insert_picture(path)
    finally:
        os.unlink(path)
    return ((lambda: _descr_of_pics(slide.part.blob)),
            (lambda p2, b: _descr_of_pics(p2.slides[0].part.blob)), [m + ".png"])


def _renamed_placeholder(kind):
    """A placeholder renamed by the caller (public `name` setter), then populated with insert_picture / insert_table /
    insert_chart: the new shape takes the placeholder's name, which must survive as data. The table / chart
    placeholder is obtained harness-side by retyping the first content placeholder of the 'Two Content' layout
    (set-up only; the verdict reads the public name of the new shape and the saved package)."""
    def fn(prs, m, tmp):
        if kind == "picture":
            slide = _blank(prs, 8)
            ph = [p for p in slide.placeholders if hasattr(p, "insert_picture")][0]
        else:
            lay = _layout(prs, 3)
            lph = [p for p in lay.placeholders if p.placeholder_format.idx == 1][0]
            lph._element.xpath(".//p:nvPr/p:ph")[0].set("type", {"table": "tbl", "chart": "chart"}[kind])
            slide = prs.slides.add_slide(lay)
            ph = [p for p in slide.placeholders if p.placeholder_format.idx == 1][0]
            if not hasattr(ph, "insert_" + kind):
                raise HarnessError("retyped placeholder is a %s without insert_%s" % (type(ph).__name__, kind))
        ph.name = m
        if kind == "picture":
            new = ph.insert_picture(io.BytesIO(_png()))
        elif kind == "table":
            new = ph.insert_table(2, 2)
        else:
            from pptx.chart.data import CategoryChartData
            from pptx.enum.chart import XL_CHART_TYPE
            cd = CategoryChartData()
            cd.categories = ["a", "b"]
            cd.add_series("s", (1, 2))
            new = ph.insert_chart(XL_CHART_TYPE.PIE, cd)
        sid = new.shape_id
        return ((lambda: new.name),
                (lambda p2, b: [sh.name for sh in p2.slides[0].shapes if sh.shape_id == sid][0]), m)
    return Sink("placeholder.name->insert_%s shape-name" % kind, fn)


def _movie_file(prs, m, tmp):
    path = os.path.join(tmp, m + ".mp4")
    shutil.copyfile(fixtures.MOVIE, path)
    slide = _blank(prs)
    try:
        mv = slide.shapes.add_movie(path, 10, 10, 1000, 1000, mime_type="video/mp4")
    finally:
        os.unlink(path)
    return (lambda: mv.name), (lambda p2, b: _last_shape(p2).name), m + ".mp4"


def _movie_mime(prs, m, tmp):
    path = os.path.join(tmp, "mime-X.mp4")
    shutil.copyfile(fixtures.MOVIE, path)
    slide = _blank(prs)
    try:
        slide.shapes.add_movie(path, 10, 10, 1000, 1000, mime_type=m)
    finally:
        os.unlink(path)

    def read(p2, b):
        with zipfile.ZipFile(io.BytesIO(b)) as z:
            root = _xml(z.read("[Content_Types].xml"))
        media = [n for n in z.namelist() if n.startswith("ppt/media/") and n.endswith(".mp4")]
        out = set()
        for el in root:
            if _local(el) == "Override" and el.get("PartName", "")[1:] in media:
                out.add(el.get("ContentType"))
            if _local(el) == "Default" and el.get("Extension", "").lower() == "mp4":
                out.add(el.get("ContentType"))
        return sorted(out)
    return None, read, [m]


def _hyperlink_click(prs, m, tmp):
    slide = _blank(prs)
    shp = _mk_shape(slide, "autoshape")
    shp.click_action.hyperlink.address = m
    return ((lambda: shp.click_action.hyperlink.address),
            (lambda p2, b: _last_shape(p2).click_action.hyperlink.address), m)


def _hyperlink_picture_click(prs, m, tmp):
    slide = _blank(prs)
    shp = _mk_shape(slide, "picture")
    shp.click_action.hyperlink.address = m
    return ((lambda: shp.click_action.hyperlink.address),
            (lambda p2, b: _last_shape(p2).click_action.hyperlink.address), m)


def _hyperlink_run(prs, m, tmp):
    slide = _blank(prs)
    tb = _mk_shape(slide, "textbox")
    r = tb.text_frame.paragraphs[0].add_run()
    r.text = "link"
    r.hyperlink.address = m
    return ((lambda: r.hyperlink.address),
            (lambda p2, b: _last_shape(p2).text_frame.paragraphs[0].runs[0].hyperlink.address), m)


def _font_name(prs, m, tmp):
    slide = _blank(prs)
    tb = _mk_shape(slide, "textbox")
    r = tb.text_frame.paragraphs[0].add_run()
    r.text = "t"
    r.font.name = m

    def latin(blob):
        return [e.get("typeface") for e in _xml(blob).iter("{*}latin")]
    return ((lambda: (r.font.name, latin(slide.part.blob))),
            (lambda p2, b: (_last_shape(p2).text_frame.paragraphs[0].runs[0].font.name,
                            latin(p2.slides[0].part.blob))), (m, [m]))


def _ole_prog_id(prs, m, tmp):
    slide = _blank(prs)
    gf = slide.shapes.add_ole_object(io.BytesIO(b"not-really-an-ole-object"), m, 10, 10)

    def attr(blob):
        return [e.get("progId") for e in _xml(blob).iter("{*}oleObj")]
    return ((lambda: (gf.ole_format.prog_id, attr(slide.part.blob))),
            (lambda p2, b: (_last_shape(p2).ole_format.prog_id, attr(p2.slides[0].part.blob))), (m, [m]))


def _cell_text(prs, m, tmp):
    slide = _blank(prs)
    tbl = _mk_shape(slide, "graphicframe").table
    tbl.cell(0, 0).text = m
    return (lambda: tbl.cell(0, 0).text), (lambda p2, b: _last_shape(p2).table.cell(0, 0).text), m


def _notes_text(prs, m, tmp):
    slide = _blank(prs)
    slide.notes_slide.notes_text_frame.text = m
    return ((lambda: slide.notes_slide.notes_text_frame.text),
            (lambda p2, b: p2.slides[0].notes_slide.notes_text_frame.text), m)


def _textbox_text(prs, m, tmp):
    slide = _blank(prs)
    tb = _mk_shape(slide, "textbox")
    tb.text_frame.text = m
    return (lambda: tb.text_frame.text), (lambda p2, b: _last_shape(p2).text_frame.text), m


CORE_PROPS = ["author", "category", "comments", "content_status", "identifier", "keywords", "language",
              "last_modified_by", "subject", "title", "version"]


def _core_prop(name):
    def fn(prs, m, tmp):
        cp = prs.core_properties
        setattr(cp, name, m)
        return (lambda: getattr(cp, name)), (lambda p2, b: getattr(p2.core_properties, name)), m
    return Sink("core_properties." + name, fn, ok=lambda m: len(m) <= 255)


# ---- chart sinks -----------------------------------------------------------------------------------

# family -> (chart-data kind, member names); verified against the implementation at run start
FAMILIES = {
    "area": ("cat", ["AREA", "AREA_STACKED", "AREA_STACKED_100"]),
    "bar": ("cat", ["BAR_CLUSTERED", "BAR_STACKED", "BAR_STACKED_100", "COLUMN_CLUSTERED", "COLUMN_STACKED",
                    "COLUMN_STACKED_100"]),
    "bubble": ("bubble", ["BUBBLE", "BUBBLE_THREE_D_EFFECT"]),
    "doughnut": ("cat", ["DOUGHNUT", "DOUGHNUT_EXPLODED"]),
    "line": ("cat", ["LINE", "LINE_MARKERS", "LINE_MARKERS_STACKED", "LINE_MARKERS_STACKED_100", "LINE_STACKED",
                     "LINE_STACKED_100"]),
    "pie": ("cat", ["PIE", "PIE_EXPLODED"]),
    "radar": ("cat", ["RADAR", "RADAR_FILLED", "RADAR_MARKERS"]),
    "xy": ("xy", ["XY_SCATTER", "XY_SCATTER_LINES", "XY_SCATTER_LINES_NO_MARKERS", "XY_SCATTER_SMOOTH",
                  "XY_SCATTER_SMOOTH_NO_MARKERS"]),
}
FAMILY_PLOT_TAG = {"area": "areaChart", "bar": "barChart", "bubble": "bubbleChart", "doughnut": "doughnutChart",
                   "line": "lineChart", "pie": "pieChart", "radar": "radarChart", "xy": "scatterChart"}


def _chart_data(kind, what, m):
    """Chart data of `kind` with m placed at the field `what` (None -> all benign)."""
    from pptx.chart.data import BubbleChartData, CategoryChartData, XyChartData
    chart_nf = m if what == "number-format" else "General"
    ser_nf = m if what == "series-number-format" else None
    ser_name = m if what == "series-name" else "S1"
    if kind == "cat":
        cd = CategoryChartData(number_format=chart_nf)
        if what == "category-label":
            cd.categories = [m, "c2"]
        elif what == "category-label-multilevel":
            c = cd.add_category(m)
            c.add_sub_category(m)
            c.add_sub_category("s2")
            cd.add_category("t2").add_sub_category("s3")
        elif what == "categories-number-format":
            cd.categories = [datetime.date(2020, 1, 1), datetime.date(2020, 1, 2)]
            cd.categories.number_format = m
        else:
            cd.categories = ["c1", "c2"]
        n = 3 if what == "category-label-multilevel" else 2
        cd.add_series(ser_name, tuple(range(1, n + 1)), number_format=ser_nf)
        return cd
    if kind == "xy":
        cd = XyChartData(number_format=chart_nf)
        s = cd.add_series(ser_name, number_format=ser_nf)
        s.add_data_point(1, 2)
        s.add_data_point(2, 3)
        return cd
    cd = BubbleChartData(number_format=chart_nf)
    s = cd.add_series(ser_name, number_format=ser_nf)
    s.add_data_point(1, 2, 3)
    s.add_data_point(2, 3, 4)
    return cd


DATE_AXIS_FAMILIES = ("area", "bar", "line")    # date categories give these a c:dateAx carrying the categories' format


def _chart_reader(kind, what, m, family=None):
    """(reader(chart) , expected) for chart-data field `what`."""
    if what == "series-name":
        return (lambda ch: (ch.plots[0].series[0].name, [s.name for s in ch.series])), (m, [m])
    if what == "category-label":
        return (lambda ch: (ch.plots[0].categories[0].label, str(ch.plots[0].categories[0]))), (m, m)
    if what == "category-label-multilevel":
        return (lambda ch: tuple(ch.plots[0].categories.flattened_labels)), ((m, m), (m, "s2"), ("t2", "s3"))
    if what == "categories-number-format":
        # the cached format of the category reference AND, where the chart has a date axis, what the public reader of
        # that axis' tick labels reports
        def rd(ch):
            try:
                ax = ch.category_axis.tick_labels.number_format
            except ValueError:
                ax = "<no category axis>"
            return _format_codes(ch.part.blob, ("cat",)), ax
        return rd, ([m], m if family in DATE_AXIS_FAMILIES else None)
    parents = {"cat": ("val",), "xy": ("xVal", "yVal"), "bubble": ("xVal", "yVal", "bubbleSize")}[kind]
    return (lambda ch: _format_codes(ch.part.blob, parents)), [m]


def _chart_of(p2):
    return _last_shape(p2).chart


def _chart_data_sink(family, kind, member, what, mode):
    def fn(prs, m, tmp):
        from pptx.enum.chart import XL_CHART_TYPE
        ct = getattr(XL_CHART_TYPE, member)
        slide = _blank(prs)
        if mode == "add_chart":
            chart = slide.shapes.add_chart(ct, 10, 10, 5000, 5000, _chart_data(kind, what, m)).chart
        else:
            chart = slide.shapes.add_chart(ct, 10, 10, 5000, 5000, _chart_data(kind, None, BENIGN)).chart
            chart.replace_data(_chart_data(kind, what, m))
        # (replace_data re-writes the data, not the axes: the axis reader is part of the add_chart sinks only)
        rd, exp = _chart_reader(kind, what, m, family if mode == "add_chart" else None)
        if what == "categories-number-format" and exp[1] is None:
            rd0 = rd
            rd = lambda ch: (rd0(ch)[0], None)   # noqa: E731  (no date axis in this family: cache only)
        return (lambda: rd(chart)), (lambda p2, b: rd(_chart_of(p2))), exp
    return Sink("%s.%s@%s" % (mode, what, family), fn, variant=member)


def _bar_chart(prs):
    from pptx.enum.chart import XL_CHART_TYPE
    slide = _blank(prs)
    return slide.shapes.add_chart(XL_CHART_TYPE.COLUMN_CLUSTERED, 10, 10, 5000, 5000,
                                  _chart_data("cat", None, BENIGN)).chart


def _data_labels_nf(prs, m, tmp):
    chart = _bar_chart(prs)
    chart.plots[0].has_data_labels = True
    chart.plots[0].data_labels.number_format = m
    return ((lambda: chart.plots[0].data_labels.number_format),
            (lambda p2, b: _chart_of(p2).plots[0].data_labels.number_format), m)


def _tick_labels_nf(axis):
    def fn(prs, m, tmp):
        chart = _bar_chart(prs)
        getattr(chart, axis).tick_labels.number_format = m
        return ((lambda: getattr(chart, axis).tick_labels.number_format),
                (lambda p2, b: getattr(_chart_of(p2), axis).tick_labels.number_format), m)
    return Sink("%s.tick_labels.number_format" % axis, fn)


def _chart_title(prs, m, tmp):
    chart = _bar_chart(prs)
    chart.chart_title.text_frame.text = m
    return ((lambda: chart.chart_title.text_frame.text),
            (lambda p2, b: _chart_of(p2).chart_title.text_frame.text), m)


def _axis_title(axis):
    def fn(prs, m, tmp):
        chart = _bar_chart(prs)
        getattr(chart, axis).axis_title.text_frame.text = m
        return ((lambda: getattr(chart, axis).axis_title.text_frame.text),
                (lambda p2, b: getattr(_chart_of(p2), axis).axis_title.text_frame.text), m)
    return Sink("%s.axis_title.text" % axis, fn, ok=_text_ok)


def _chart_font_name(prs, m, tmp):
    chart = _bar_chart(prs)
    chart.font.name = m
    return (lambda: chart.font.name), (lambda p2, b: _chart_of(p2).font.name), m



# ---- twin sinks: two strings that differ only by case / a trailing blank, stored side by side ----------------
# "Stored so that the reader returns the same string" also holds when a near-identical string is already stored
# in the same part: a lookup that folds case or strips blanks (relationship matching, category / series look-up by
# label) must not hand the second caller the first caller's string. m is paired with twin(m); for strings without
# cased letters the swap-case twin equals m (sharing one stored copy is fine, both must still read m).

TWINS = {"swapcase": lambda m: m.swapcase(), "blank": lambda m: m + " ", "slash": lambda m: m + "/"}


def _twin_hyperlinks(how, first, second):
    tw = TWINS[how]

    def fn(prs, m, tmp):
        slide = _blank(prs)
        tb = _mk_shape(slide, "textbox")
        para = tb.text_frame.paragraphs[0]
        r1, r2 = para.add_run(), para.add_run()
        r1.text, r2.text = "one", "two"
        shp = _mk_shape(slide, "autoshape")
        targets = {"run1": r1.hyperlink, "run2": r2.hyperlink, "click": shp.click_action.hyperlink}
        targets[first].address = m
        targets[second].address = tw(m)

        def rd(sl):
            shapes = list(sl.shapes)
            runs = shapes[-2].text_frame.paragraphs[0].runs
            t = {"run1": runs[0].hyperlink, "run2": runs[1].hyperlink, "click": shapes[-1].click_action.hyperlink}
            return (t[first].address, t[second].address)
        return (lambda: rd(slide)), (lambda p2, b: rd(p2.slides[0])), (m, tw(m))
    return Sink("hyperlink.address/%s+%s twin(%s)" % (first, second, how), fn, ok=lambda m: tw(m) != m)


def _twin_shape_names(how):
    tw = TWINS[how]

    def fn(prs, m, tmp):
        slide = _blank(prs)
        a, b = _mk_shape(slide, "autoshape"), _mk_shape(slide, "textbox")
        a.name, b.name = m, tw(m)
        return ((lambda: (a.name, b.name)),
                (lambda p2, bl: tuple(sh.name for sh in list(p2.slides[0].shapes)[-2:])), (m, tw(m)))
    return Sink("shape.name twin(%s)" % how, fn, ok=lambda m: tw(m) != m)


def _twin_chart_labels(how, mode):
    tw = TWINS[how]

    def data(m):
        from pptx.chart.data import CategoryChartData
        cd = CategoryChartData()
        cd.categories = [m, tw(m), "c3"]
        cd.add_series(m, (1, 2, 3))
        cd.add_series(tw(m), (4, 5, 6))
        return cd

    def fn(prs, m, tmp):
        from pptx.enum.chart import XL_CHART_TYPE
        slide = _blank(prs)
        if mode == "add_chart":
            chart = slide.shapes.add_chart(XL_CHART_TYPE.COLUMN_CLUSTERED, 10, 10, 5000, 5000, data(m)).chart
        else:
            chart = slide.shapes.add_chart(XL_CHART_TYPE.COLUMN_CLUSTERED, 10, 10, 5000, 5000, data(BENIGN)).chart
            chart.replace_data(data(m))

        def rd(ch):
            return ([c.label for c in ch.plots[0].categories][:2], [s.name for s in ch.plots[0].series])
        return (lambda: rd(chart)), (lambda p2, b: rd(_chart_of(p2))), ([m, tw(m)], [m, tw(m)])
    return Sink("%s.category-label+series-name twin(%s)" % (mode, how), fn, ok=lambda m: tw(m) != m)


# ---- the same string assigned again (a no-op for the caller) ---------------------------------------------------
# Assigning the value a field already holds must leave it readable: a setter that looks the new value up before it
# releases the old one (shared relationship, shared string table entry) can release what it has just re-used.

def _reassigned(kind):
    def fn(prs, m, tmp):
        slide = _blank(prs)
        if kind == "run":
            tb = _mk_shape(slide, "textbox")
            r = tb.text_frame.paragraphs[0].add_run()
            r.text = "link"
            target = lambda sh: sh.text_frame.paragraphs[0].runs[0].hyperlink   # noqa: E731
            shp = tb
        else:
            shp = _mk_shape(slide, "picture" if kind == "picture-click" else "autoshape")
            target = lambda sh: sh.click_action.hyperlink   # noqa: E731
        target(shp).address = m
        target(shp).address = m
        # a second link on the same slide is made afterwards: it must not disturb (or be confused with) the first
        other = _mk_shape(slide, "autoshape")
        other.click_action.hyperlink.address = "http://other.example/"

        def rd(sl):
            shapes = list(sl.shapes)
            return (target(shapes[-2]).address, shapes[-1].click_action.hyperlink.address)
        return (lambda: rd(slide)), (lambda p2, b: rd(p2.slides[0])), (m, "http://other.example/")
    return Sink("hyperlink.address/%s re-assigned" % kind, fn)


def twin_sinks():
    out = []
    for how in TWINS:
        for first, second in (("run1", "run2"), ("click", "run1"), ("run1", "click")):
            out.append(_twin_hyperlinks(how, first, second))
        out.append(_twin_shape_names(how))
        for mode in ("add_chart", "replace_data"):
            out.append(_twin_chart_labels(how, mode))
    for kind in ("shape-click", "picture-click", "run"):
        out.append(_reassigned(kind))
    return out

CAT_FIELDS = ["series-name", "category-label", "category-label-multilevel", "number-format",
              "series-number-format", "categories-number-format"]
XY_FIELDS = ["series-name", "number-format", "series-number-format"]


def catalogue(thorough):
    out = []
    for kind in ("autoshape", "textbox", "picture", "connector", "group", "graphicframe", "placeholder"):
        out.append(_shape_name_sink(kind))
    out.append(Sink("slide.name", _slide_name))
    out.append(Sink("slide_layout.name->get_by_name", _layout_name_lookup))
    out.append(_picture_file("slide"))
    out.append(_picture_file("group"))
    out.append(Sink("insert_picture.file-name->descr", _placeholder_picture, ok=lambda m: _file_ok(m, ".png")))
    for kind in ("picture", "table", "chart"):
        out.append(_renamed_placeholder(kind))
    out.append(Sink("add_movie.file-name->shape-name", _movie_file, ok=lambda m: _file_ok(m, ".mp4")))
    out.append(Sink("add_movie.mime_type->content-type", _movie_mime))
    out.append(Sink("hyperlink.address/shape-click", _hyperlink_click))
    out.append(Sink("hyperlink.address/picture-click", _hyperlink_picture_click))
    out.append(Sink("hyperlink.address/run", _hyperlink_run))
    out.append(Sink("font.name/run", _font_name))
    out.append(Sink("add_ole_object.prog_id", _ole_prog_id))
    out.append(Sink("cell.text", _cell_text, ok=_text_ok))
    out.append(Sink("notes_text_frame.text", _notes_text, ok=_text_ok))
    out.append(Sink("text_frame.text/textbox", _textbox_text, ok=_text_ok))
    for p in CORE_PROPS:
        out.append(_core_prop(p))
    out.extend(twin_sinks())
    out.append(Sink("data_labels.number_format", _data_labels_nf))
    out.append(_tick_labels_nf("value_axis"))
    out.append(_tick_labels_nf("category_axis"))
    out.append(Sink("chart_title.text", _chart_title, ok=_text_ok))
    out.append(_axis_title("value_axis"))
    out.append(_axis_title("category_axis"))
    out.append(Sink("font.name/chart", _chart_font_name))
    for family in sorted(FAMILIES):
        kind, members = FAMILIES[family]
        members = sorted(members)
        for member in (members if thorough else members[:1]):
            for what in (CAT_FIELDS if kind == "cat" else XY_FIELDS):
                for mode in ("add_chart", "replace_data"):
                    out.append(_chart_data_sink(family, kind, member, what, mode))
    return out


# ---- the case --------------------------------------------------------------------------------------

def _skeleton(blob, base=None):
    """member name -> (crc, size, tuple of element tags in document order) for every XML member; raises
    on a parse error. A member whose CRC and size equal the benign run's member is not parsed again."""
    out = {}
    with zipfile.ZipFile(io.BytesIO(blob)) as z:
        for info in z.infolist():
            n = info.filename
            if not n.endswith((".xml", ".rels", ".vml")):
                out[n] = (0, 0, None)
                continue
            b = base.get(n) if base else None
            if b is not None and b[0] == info.CRC and b[1] == info.file_size:
                out[n] = b
                continue
            root = etree.fromstring(z.read(info))
            out[n] = (info.CRC, info.file_size, tuple(e.tag for e in root.iter() if isinstance(e.tag, str)))
    return out


class CaseError(Exception):
    def __init__(self, rule, msg):
        super().__init__(msg)
        self.rule = rule
        self.msg = msg


def _execute(sink, m, base=None):
    """Run steps 1-4 and 6-7; return the skeleton. Raises CaseError(rule, message)."""
    from pptx import Presentation
    tmp = fixtures.tmpdir()
    prs = Presentation(io.BytesIO(_template()))
    try:
        live, reread, expected = sink.fn(prs, m, tmp)
    except Exception as e:
        raise CaseError("raised", "call raised %s: %s" % (type(e).__name__, str(e)[:200]))
    if live is not None:
        try:
            got = live()
        except Exception as e:
            raise CaseError("readback", "reader raised %s: %s" % (type(e).__name__, str(e)[:200]))
        if got != expected:
            raise CaseError("readback", "reader returned %r, expected %r" % (got, expected))
    try:
        buf = io.BytesIO()
        prs.save(buf)
        blob = buf.getvalue()
    except Exception as e:
        raise CaseError("save-raised", "save raised %s: %s" % (type(e).__name__, str(e)[:200]))
    try:
        skel = _skeleton(blob, base)
    except etree.XMLSyntaxError as e:
        raise CaseError("reparse", "a saved XML member does not parse: %s" % (str(e)[:200],))
    try:
        p2 = Presentation(io.BytesIO(blob))
    except Exception as e:
        raise CaseError("reopen-raised", "re-open raised %s: %s" % (type(e).__name__, str(e)[:200]))
    try:
        got2 = reread(p2, blob)
    except Exception as e:
        raise CaseError("readback-reopen", "reader on re-opened package raised %s: %s" % (type(e).__name__, str(e)[:200]))
    return skel, got2, expected


def _ws_norm(v):
    if isinstance(v, str):
        return v.replace("\t", " ").replace("\n", " ")
    if isinstance(v, (list, tuple)):
        return type(v)(_ws_norm(x) for x in v)
    return v


_BASE = {}


def _baseline(sink):
    """Skeleton of the benign run. The benign string is a case of the property like any other: when the sink already
    fails with it, that is reported as the sink's violation (every other string of the sink is then not judged)."""
    k = sink.key
    if k not in _BASE:
        try:
            skel, got2, expected = _execute(sink, BENIGN)
            if got2 != expected:
                raise CaseError("readback-reopen", "after save and re-open the reader returned %r, expected %r" % (got2, expected))
            _BASE[k] = skel
        except CaseError as e:
            _BASE[k] = CaseError(e.rule, "already with the benign string %r: %s" % (BENIGN, e.msg))
    if isinstance(_BASE[k], CaseError):
        raise _BASE[k]
    return _BASE[k]


def _skel_diff(base, skel):
    if set(base) != set(skel):
        return "package members differ: only-benign=%s only-m=%s" % (sorted(set(base) - set(skel)), sorted(set(skel) - set(base)))
    for n in sorted(base):
        if base[n][2] != skel[n][2]:
            a, b = base[n][2] or (), skel[n][2] or ()
            i = 0
            while i < min(len(a), len(b)) and a[i] == b[i]:
                i += 1
            return "element structure of %s differs at element #%d: benign has %s, with m %s (%d vs %d elements)" % (
                n, i, a[i] if i < len(a) else "<end>", b[i] if i < len(b) else "<end>", len(a), len(b))
    return None


def run_case(sink, m):
    """-> (rule, message) of the first failing step, or (None, note)."""
    try:
        base = _baseline(sink)
        skel, got2, expected = _execute(sink, m, base)
    except CaseError as e:
        return e.rule, e.msg
    d = _skel_diff(base, skel)
    if d:
        return "structure", d
    if got2 != expected:
        if _ws_norm(got2) == _ws_norm(expected) and any(c in m for c in "\t\n"):
            return None, "ws"
        return "readback-reopen", "after save and re-open the reader returned %r, expected %r" % (got2, expected)
    return None, ""


# ---- exploration -----------------------------------------------------------------------------------

_SINKS = []
_M = []


def _work(part, chunk):
    for si, mi in chunk:
        sink, m = _SINKS[si], _M[mi]
        part.count("evaluations")
        if nontrivial(m):
            part.count("nontrivial_count")
        rule, msg = run_case(sink, m)
        part.outcome(sink.name, rule or "ok")
        if rule is None:
            if msg == "ws":
                part.count("ws_normalised_on_reopen")
            continue
        part.count("failing_cases")
        part.add("fail", (sink.name, sink.variant, m, rule, msg))


_PREFLIGHT_PROBLEMS = []


def _check_families():
    """The hard-coded family table must describe the implementation (else the catalogue is vacuous)."""
    from pptx import Presentation
    from pptx.enum.chart import XL_CHART_TYPE
    prs = Presentation()
    slide = _blank(prs)
    n = 0
    for family, (kind, members) in FAMILIES.items():
        for member in members:
            ct = getattr(XL_CHART_TYPE, member, None)
            if ct is None:
                raise HarnessError("XL_CHART_TYPE.%s no longer exists" % member)
            try:
                ch = slide.shapes.add_chart(ct, 0, 0, 100, 100, _chart_data(kind, None, BENIGN)).chart
            except Exception as e:  # noqa: BLE001
                # the LIBRARY fails on a benign chart: the exploration reports it (every chart sink of that member
                # fails with the benign string); run() insists that it was reported
                _PREFLIGHT_PROBLEMS.append("benign %s chart cannot be created: %r" % (member, e))
                n += 1
                continue
            tags = [_local(e) for e in _xml(ch.part.blob).iter() if isinstance(e.tag, str)]
            if FAMILY_PLOT_TAG[family] not in tags:
                raise HarnessError("chart type %s is not of family %s" % (member, family))
            n += 1
    return n


def reduce_failures(fails):
    """fails: iterable of (sink, variant, m, rule, msg) -> list of (signature, what, replay).

    Per sink the failing strings are reduced to the substring-minimal ones (witness: smallest variant
    name). Chart sinks that differ only by family (`...@area`, `...@bar`) and fail with the same rule
    on the same minimal string are merged into one signature naming the failing families."""
    by_sink = {}
    for sink, variant, m, rule, msg in sorted(fails):
        cur = by_sink.setdefault(sink, {})
        if m not in cur:  # sorted -> smallest variant first
            cur[m] = (variant, rule, msg)
    groups = {}
    for sink in sorted(by_sink):
        fs = by_sink[sink]
        base, _, fam = sink.partition("@")
        for m in fs:
            if any(o != m and o in m for o in fs):
                continue
            variant, rule, msg = fs[m]
            n_longer = sum(1 for o in fs if o != m and m in o)
            groups.setdefault((base, rule, m), []).append((fam, sink, variant, msg, n_longer))
    out = []
    for (base, rule, m) in sorted(groups, key=lambda k: (k[0], len(k[2]), k[2], k[1])):
        members = sorted(groups[(base, rule, m)])
        fams = [f for f, _, _, _, _ in members if f]
        fam, sink, variant, msg, n_longer = members[0]
        name = base + ("@" + "+".join(fams) if fams else "")
        what = "sink %s%s with string %r: %s" % (sink, (" [%s]" % variant) if variant else "",
                                                 m if m != LONG else "<300 chars>", msg)
        if n_longer:
            what += " | %d longer strings of M containing it fail too" % n_longer
        if len(fams) > 1:
            what += " | same failure in chart families: %s" % ", ".join(fams)
        out.append(("C05|%s|sink=%s|chars=%s" % (rule, name, label(m)), what,
                    {"sink": sink, "variant": variant, "m": m}))
    return out


def run(ctx):
    global _SINKS, _M
    _SINKS = catalogue(ctx.thorough)
    _M = strings()
    nfam = _check_families()
    names = sorted({s.name for s in _SINKS})
    if len(names) < 40 or nfam < 29:
        raise HarnessError("sink catalogue shrank: %d names, %d chart types" % (len(names), nfam))
    if len({s.key for s in _SINKS}) != len(_SINKS):
        raise HarnessError("duplicate sink keys")
    if len(_M) < 130 or BENIGN in _M:
        raise HarnessError("string set wrong: %d" % len(_M))

    items, skipped = [], 0
    for si, s in enumerate(_SINKS):
        for mi, m in enumerate(_M):
            if s.ok(m):
                items.append((si, mi))
            else:
                skipped += 1
    fanout(ctx, _work, ctx.rotate(items))

    total = len(_SINKS) * len(_M)
    if ctx.counters.get("evaluations", 0) + skipped != total or ctx.counters.get("evaluations", 0) != len(items):
        raise HarnessError("evaluations %s + out-of-domain %d != sinks x strings %d" % (ctx.counters.get("evaluations"), skipped, total))
    ctx.extra["sinks"] = len(_SINKS)
    ctx.extra["sink_names"] = len(names)
    ctx.extra["strings"] = len(_M)
    ctx.extra["out_of_domain_pairs"] = skipped
    ctx.extra["chart_types"] = len({s.variant for s in _SINKS if s.variant})

    fails = ctx.sets.pop("fail", set())
    per_sink = {}
    for sink, variant, m, rule, msg in fails:
        per_sink.setdefault(sink, set()).add(m)
    ctx.extra["failing_sinks"] = {k: len(v) for k, v in sorted(per_sink.items())}
    for sig, what, rp in reduce_failures(fails):
        ctx.violation(sig, what, rp)
    if _PREFLIGHT_PROBLEMS and not fails:
        raise HarnessError("; ".join(_PREFLIGHT_PROBLEMS[:3]))

    # the same image bytes under a second file name: the second picture's descr must be the second name
    for first, second in (("first.png", "second.png"), ("a&b.png", "c<d.png")):
        ctx.count("evaluations")
        msg = second_name_case(first, second)
        if msg:
            ctx.violation("C05|readback|sink=add_picture.file-name->descr/second-name-for-same-image|any", msg,
                          {"kind": "second-name", "first": first, "second": second})

    ctx.sample({"sink": "shape.name/autoshape", "m": "<a", "steps": "call, reader, save, reparse, skeleton==benign, reopen, reader"})
    for i in (3, 40, 97):
        s, m = _SINKS[(i * 7) % len(_SINKS)], _M[i]
        ctx.sample({"sink": s.name, "variant": s.variant, "m": label(m), "in_domain": bool(s.ok(m))})


def second_name_case(first, second):
    """add_picture(first) then add_picture(second) with IDENTICAL image bytes: each picture's descr is its own file name."""
    from pptx import Presentation
    tmp = fixtures.tmpdir()
    paths = []
    for n in (first, second):
        p = os.path.join(tmp, n)
        with open(p, "wb") as f:
            f.write(_png())
        paths.append(p)
    try:
        prs = Presentation(io.BytesIO(_template()))
        slide = _blank(prs)
        for p in paths:
            slide.shapes.add_picture(p, 10, 10)
        got = _descr_of_pics(slide.part.blob)
    except Exception as e:  # noqa: BLE001
        return "raised %s: %s" % (type(e).__name__, str(e)[:200])
    finally:
        for p in paths:
            if os.path.exists(p):
                os.unlink(p)
    if got != [first, second]:
        return "pictures added from files %r and %r (same bytes) have descr %r" % (first, second, got)
    return None


def replay(data):
    if data.get("kind") == "second-name":
        return second_name_case(data["first"], data["second"])
    sinks = {s.key: s for s in catalogue(True)}
    s = sinks.get((data["sink"], data["variant"]))
    if s is None:
        raise ValueError("unknown sink %r" % (data,))
    rule, msg = run_case(s, data["m"])
    if rule is None:
        return None
    return "%s: sink %s%s with %r: %s" % (rule, s.name, (" [%s]" % s.variant) if s.variant else "", data["m"], msg)
