"""C15 — images are stored once, byte-exact, with the type and size of the actual image.

Two bounded-exhaustive parts, both executed on the real implementation:

E2 (inputs).  Every image of  formats PNG/JPEG/GIF/BMP/TIFF x pixel sizes {1..4}x{1..4} + 300x200 x dpi requests
{absent, 72, 96, 300, (72,144), 0, 0.5, 72.009, 3000} (GIF: absent only, the format cannot carry a resolution) is
generated with Pillow (deterministic bytes), and for every way of handing it over {path with matching extension,
path with a misleading extension, path without extension, path with upper-case extension, BytesIO stream, open file
object} the four calls add_picture(width,height) in {(None,None),(w,None),(None,h),(w,h)} are made on a fresh default
deck (alternating between two slides). Oracle (mc.oracles.image_ref, written from the statement):
  * the saved zip (read with mc.oracles.opc_ref, not python-pptx) holds exactly ONE image part under ppt/media, its
    bytes are the input bytes, its extension and resolved content type are those of the format the generator was
    ASKED to write (not Pillow's detection, which is also what the library uses);
  * every picture.image.blob equals the input;
  * without a size the picture has pixel size * 914400 / dpi per axis, where dpi is the resolution STORED IN THE
    FILE as read by hand-written PNG-pHYs / JFIF / BMP-header / TIFF-IFD readers (not Pillow, not python-pptx), and
    72 is substituted when it is absent or implausible (docs of Image.dpi: < 1 or > 2048; the raw value and the
    nearest integer are both accepted). The expected size is computed in exact rational arithmetic: when it is a
    whole number of EMU the picture must have exactly that size, otherwise either neighbouring integer is accepted;
  * with one dimension given, the given one is kept and the other preserves the native aspect ratio within 1 EMU;
    with both given both are kept. The sizes are read from the returned shape AND from a:ext in the saved slide XML.

E2b (native size, pixel extent x resolution).  The size rule is one arithmetic expression of (pixels, dpi) whose exact
evaluation depends on the particular pair, so the 17-size alphabet of E2 says nothing about it. Swept exhaustively:
formats that store a resolution {PNG, JPEG, BMP, TIFF} x the 18 resolutions producers actually write (DPI_SWEEP:
screen, metric and print values) x EVERY pixel extent 1..128 on both axes (image k of a row is k x (129-k) px), one
add_picture(no size) per image on one deck per (format, dpi) row, sizes read from the shape and from a:ext of the
saved slide, oracle as above (exact). Thorough: extents 1..256, plus EVERY integer resolution 1..2048 (JPEG stores it
exactly) x extents 1..64. A violation names the smallest failing pixel extent of the row.

E2c (the file-like object at hand-over: its kind, its state, the size of its content).  formats x (kind, cursor)
x content {small = 5x3 px, big = > 160 KiB of incompressible pixels, i.e. many I/O buffers} x entry point {add_picture,
insert_picture, add_movie poster frame, add_ole_object icon}; the SAME object is handed over twice per case (second
time: in whatever state the library left it). Kinds (FILE_LIKES): io.BytesIO; file opened "rb"; file opened "w+b"
into which the image has just been written in 1000-byte pieces and NOT flushed (the disk holds nothing or a
truncated copy - asserted, else the case would be vacuous); the same, flushed; a file that holds ANOTHER image,
opened "r+b" and overwritten, not flushed; tempfile.NamedTemporaryFile written not flushed / flushed;
tempfile.SpooledTemporaryFile (in memory for small, rolled over to an unnamed file for big); a BytesIO whose .name
is the path of an existing image file of a different format; an object with read/seek/tell and nothing else. Cursor
positions {0, end = just written, 8 = signature sniffed, 1, half, last byte} for every kind that can have them (a
written-not-flushed object is necessarily at the end: a seek would flush it). Oracle: one image part holding the
whole content of the stream (= what the object itself returns when read from position 0, verified on the object
after the calls) with the type of its real format, blob of both shapes == content, saved blips resolve to it.

E2d (bytes already stored in a deck the library did not write).  Every corpus deck that holds image parts x every
distinct image in it x {stream, path} x {deck as opened, deck first saved + re-opened}: the image's own bytes are
added on the first and the last slide, save, check, re-open, add again, save, check. Oracle: the multiset of image
byte strings under ppt/media equals that of the corpus deck (no second part, none lost, none unknown), blob of every
added picture == the bytes, saved blips resolve to a part with those bytes. The content types the producer declared
(e.g. image/jpg for a JPEG) are whatever the corpus contains; the types of LOADED parts are not judged.

E1 (histories, replay-mode BFS, mc.core.explorer).  Operations: add_picture(A|B|A2|I, slide 0|1, path|stream),
insert_picture(A) into a picture placeholder, add_movie(poster A | default poster), add_ole_object(icon A | default
icon), save+reopen (live presentation replaced by the re-opened one), add_slide(layout with a picture placeholder);
A = PNG, A2 = the same pixels as TIFF, B = JPEG handed over under the name B.png, I = the bytes of an image already
in the initial deck. Every hand-over "via path" uses ONE fixed path string whose file is rewritten with the requested
image's bytes just before the call (model = bytes of the file at the time of the call), so histories
"P:=A, add(P); P:=B, add(P)" arise. Initial decks: default template + 2 blank slides; a deck already containing A
(slide 1, which also has an empty picture placeholder); corpus deck shp-picture.pptx; and (depth 2 | 3) a deck that
already holds ten images image1..image10. E2 additionally has the family "deck holding N in {9,10,11} distinct
images, live or re-opened, receives one new image of each format by path or stream". Oracle in EVERY state (reference model = the
multiset of image byte strings of the initial deck + the set of byte strings handed over so far, incl. the poster
and icon images the library supplies itself, captured as the bytes the library reads):
  * image parts under ppt/media of the saved zip == the model, each byte string stored exactly once;
    member names distinct (also case-insensitively);
  * extension/content type of every stored generated image are those of its real format (library-supplied
    poster/icon: format by magic number);
  * every tracked picture shape (by slide index + shape id): image.blob / poster_frame.blob from the live API equal
    the bytes it was created from, and in the saved zip the a:blip r:embed of that shape resolves (own rels reader)
    to a part with those bytes.

Bounds: quick = E2, E2b (4 x 18 x 128 = 9216), E2c (5 formats x 45 (kind, cursor) pairs x 2 content sizes x 4 entry
points = 1800 cases, 2 calls each), E2d (all (corpus deck, image) pairs x 4, 3 additions each) + BFS depth 3 over all 13 operations; thorough = E2 with more sizes, dpi
requests, misleading names and size arguments (see _space/_wh_list), E2b with extents 1..256 and every integer dpi
1..2048 + BFS depth 3 over all 13 operations + BFS depth 4 over a 10-operation sub-alphabet (SUB). All E2 families
assert evaluations == closed-form size.

Deviations from DESIGN 4/C15: the file-name alphabet adds 'upper-case' and an open file object; the E1 alphabet adds
the default poster/icon variants and 'I' (re-adding an image that was only ever LOADED, which exercises the SHA1
lookup over loaded parts without an explicit save/re-open), 13 operations instead of ~10, so depth 4 is run over
the 10-operation sub-alphabet only. The icon of an OLE object is not reachable through the public API, so it is
checked in the zip only. add_picture(width=0 / height=0) is outside the enumerated space. The type rule is also
applied to the images the library supplies itself (default poster, default OLE icon), whose real format is
taken from their magic number.
"""

from __future__ import annotations

import hashlib
import io
import os
import re

from lxml import etree

from mc.core import explorer
from mc.core.explorer import SKIP
from mc.core.parallel import fanout
from mc.core.run import HarnessError, Partial
from mc.drivers import fixtures as F
from mc.drivers import state
from mc.oracles import image_ref as R
from mc.oracles import opc_ref

LEVEL = "model_checking"
RULE = ("E2: every (format, pixel size, dpi request, hand-over variant) x 4 (width,height) argument combinations, one "
        "add_picture evaluation each; non-trivial/distinct = distinct (sha1 of image bytes, hand-over variant, "
        "size-argument combination). E2b: every (format, dpi of DPI_SWEEP, pixel extent 1..N) - one add_picture "
        "without a size each, distinct by construction; a (format, dpi) row reports its smallest failing extent. "
        "E2c: every (format, kind of file-like object, cursor position admissible for the kind, small|big content, "
        "entry point), the same object handed over twice; distinct by construction. E2d: every (corpus deck holding images, distinct image in it, stream|path, as opened|re-opened "
        "first), three additions of the image's own bytes with a save and a re-open in between. E1: BFS over operation histories (replay mode) from 3 initial decks, oracle "
        "in every state; a state is non-trivial when its history has >= 2 operations of which at least one hands "
        "over an image; distinct = distinct canonical states (saved-package digest + populated lazy caches + "
        "reference-model contents)")
ASSUMPTIONS = [
    "alphabet-bounded: formats PNG/JPEG/GIF/BMP/TIFF as written by Pillow (RGB; GIF palette), sizes, dpi requests, "
    "file names and operations are those listed in coverage.space / coverage.alphabet",
    "depth-bounded BFS; bounds reported in coverage.bfs",
    "native size: pixel extents 1..128 per axis (thorough 1..256) at the 18 resolutions of DPI_SWEEP, thorough "
    "additionally every integer dpi 1..2048 at extents 1..64; larger images and other resolutions are covered only "
    "by the few sizes of the E2 alphabet. The expected size is exact rational arithmetic; a fractional EMU may go "
    "either way",
    "file-like objects: the ten kinds of FILE_LIKES (BytesIO, file 'rb', file 'w+b' written unflushed/flushed, file "
    "'r+b' overwritten unflushed, NamedTemporaryFile unflushed/flushed, SpooledTemporaryFile, BytesIO with a .name "
    "pointing at a different image file, bare read/seek/tell object), all seekable; 'the image' of a stream is its "
    "whole content - what the object returns when read from position 0 - wherever the cursor is and whatever has "
    "reached the disk (python-pptx documents and implements a rewind); content sizes 5x3 px and one > 160 KiB image "
    "per format written in 1000-byte pieces; non-seekable streams, objects without seek(), text-mode files, "
    "path-like (non-str) objects and streams modified concurrently are not explored",
    "decks not written by the library: exactly the image-holding decks of the repository corpus (PowerPoint-authored); "
    "content-type spellings that do not occur there are not explored",
    "the generator's REQUEST is the truth about an image's format; the stored resolution is read by the hand-written "
    "readers in mc.oracles.image_ref (cross-checked against Pillow where Pillow reports one)",
    "trusted: Pillow as image WRITER, zipfile, lxml, mc.oracles.opc_ref",
]

EMU = 914400
FORMATS = ["PNG", "JPEG", "GIF", "BMP", "TIFF"]
CANON_EXT = {"PNG": "png", "JPEG": "jpg", "GIF": "gif", "BMP": "bmp", "TIFF": "tiff"}
DPI_QUICK = [None, 72, 96, 300, (72, 144), 0, 0.5, 72.009, 3000, 7, 220]   # 7 and 220 do not divide 914400
DPI_MORE = [1, 1.5, 2.5, 150, 2048, 2049, 0.4, 0.6, 2048.4, (300, 72)]
SIZES_QUICK = [(w, h) for w in range(1, 5) for h in range(1, 5)] + [(300, 200)]
SIZES_MORE = [(1, 1000), (1000, 1), (7, 5), (640, 480)]
WH_QUICK = [(1000000, 777777)]
WH_MORE = [(1, 1), (9144000, 12345)]

A_NS = "http://schemas.openxmlformats.org/drawingml/2006/main"
P_NS = "http://schemas.openxmlformats.org/presentationml/2006/main"
R_NS = opc_ref.R_NS
RT_IMAGE = "http://schemas.openxmlformats.org/officeDocument/2006/relationships/image"
RT_SLIDE = "http://schemas.openxmlformats.org/officeDocument/2006/relationships/slide"


def _dpi_label(d):
    if d is None:
        return "absent"
    if isinstance(d, (tuple, list)):
        return "(%s,%s)" % (d[0], d[1])
    return str(d)


def _dpi_arg(d):
    return tuple(d) if isinstance(d, list) else d


def _sha(b):
    return hashlib.sha1(b).hexdigest()


# =====================================================================================================
# E2
# =====================================================================================================

def _name_variants(fmt, thorough):
    """hand-over variants: (label, file name | None, how)."""
    ext = CANON_EXT[fmt]
    others = [CANON_EXT[f] for f in FORMATS if f != fmt]
    nxt = CANON_EXT[FORMATS[(FORMATS.index(fmt) + 1) % len(FORMATS)]]
    out = [("matching", "img." + ext, "path"),
           ("misleading-" + nxt, "img." + nxt, "path"),
           ("none", "img", "path"),
           ("upper", "IMG." + ext.upper(), "path"),
           ("stream", None, "stream"),
           ("fileobj", "img." + ext, "fileobj")]
    if thorough:
        for o in others:
            if o != nxt:
                out.append(("misleading-" + o, "img." + o, "path"))
        out.append(("misleading-txt", "img.txt", "path"))
        out.append(("misleading-JPEG", "img.JPEG" if fmt != "JPEG" else "img.PNG", "path"))
    return out


def _space(thorough):
    sizes = SIZES_QUICK + (SIZES_MORE if thorough else [])
    dpis = DPI_QUICK + (DPI_MORE if thorough else [])
    cases = []
    for fmt in FORMATS:
        for size in sizes:
            for dpi in (dpis if fmt != "GIF" else [None]):
                for label, fname, how in _name_variants(fmt, thorough):
                    cases.append({"kind": "e2", "fmt": fmt, "size": list(size),
                                  "dpi": list(dpi) if isinstance(dpi, tuple) else dpi,
                                  "name": label, "fname": fname, "how": how})
    n_img = (len(FORMATS) - 1) * len(sizes) * len(dpis) + len(sizes)
    n_var = len(_name_variants("PNG", thorough))
    return cases, n_img * n_var


def _wh_list(thorough):
    whs = WH_QUICK + (WH_MORE if thorough else [])
    out = [(None, None)]
    for w, h in whs:
        out += [(w, None), (None, h), (w, h)]
    return out


_SCRATCH = None


def _scratch():
    """Scratch directory below the PARENT process's fixtures.tmpdir() (set before forking, removed by the parent at
    exit; pool workers never run atexit handlers, so they must not create their own)."""
    global _SCRATCH
    if _SCRATCH is None:
        _SCRATCH = F.tmpdir()
    d = os.path.join(_SCRATCH, "c15-%d" % os.getpid())
    os.makedirs(d, exist_ok=True)
    return d


def _write_file(name, blob):
    p = os.path.join(_scratch(), name)
    with open(p, "wb") as f:
        f.write(blob)
    return p


def _source(case, blob):
    """Returns (src, closer)."""
    if case["how"] == "stream":
        return io.BytesIO(blob), None
    p = _write_file(case["fname"], blob)
    if case["how"] == "fileobj":
        fo = open(p, "rb")
        return fo, fo
    return p, None


def _slide_members(pkg):
    """Part names of the slides in presentation order, by the independent reader."""
    main = pkg.main_part()
    root = etree.fromstring(pkg.blob(main))
    rels = {r.id: r for r in pkg.rels(main)}
    out = []
    for sid in root.iter("{%s}sldId" % P_NS):
        r = rels.get(sid.get("{%s}id" % R_NS))
        out.append(r.target if r is not None else None)
    return out


def _shape_el(slide_root, shape_id):
    for cnv in slide_root.iter("{%s}cNvPr" % P_NS):
        if cnv.get("id") == str(shape_id):
            return cnv.getparent().getparent()
    return None


def _shape_blip_target(pkg, slide_pn, shape_id):
    """(target partname | None, why) of the a:blip r:embed below the shape with that id in the saved slide."""
    root = etree.fromstring(pkg.blob(slide_pn))
    el = _shape_el(root, shape_id)
    if el is None:
        return None, "no shape with id %s in %s" % (shape_id, slide_pn)
    blip = next(el.iter("{%s}blip" % A_NS), None)
    if blip is None:
        return None, "shape %s has no a:blip" % shape_id
    rid = blip.get("{%s}embed" % R_NS)
    for r in pkg.rels(slide_pn):
        if r.id == rid:
            if r.type != RT_IMAGE:
                return None, "r:embed %s is a %s relationship" % (rid, r.type)
            return r.target, None
    return None, "r:embed %s not in the rels of %s" % (rid, slide_pn)


def _shape_ext(pkg, slide_pn, shape_id):
    root = etree.fromstring(pkg.blob(slide_pn))
    el = _shape_el(root, shape_id)
    ext = None if el is None else next(el.iter("{%s}ext" % A_NS), None)
    if ext is None or ext.get("cx") is None:
        return None
    return int(ext.get("cx")), int(ext.get("cy"))


def _media_images(pkg, extra_shas=()):
    """[(member, bytes, content type)] of image parts under ppt/media: content type image/* (or bytes known to the
    model, so that a mistyped image part is still seen)."""
    out = []
    for m in sorted(pkg.part_members()):
        if not m.lower().startswith("ppt/media/"):
            continue
        ct, _ = pkg.content_type("/" + m)
        b = pkg.members[m]
        if (ct or "").startswith("image/") or _sha(b) in extra_shas:
            out.append((m, b, ct))
    return out


def _type_errors(member, ctype, fmt):
    """Extension / content type of a stored image vs. its real format: [] or [("type", got, want)]."""
    exts, want_ct = R.FORMATS[fmt]
    name = member.rsplit("/", 1)[-1]
    ext = name.rsplit(".", 1)[1] if "." in name else ""
    if ext.lower() not in exts or ctype != want_ct:
        return [("type", "%s,%s" % (ext, ctype), "%s,%s" % ("/".join(exts), want_ct))]
    return []


def e2_case(part, case, thorough):
    """Run one (image, hand-over) case: 4 (or 10) add_picture calls on a fresh deck + save + checks."""
    fmt, size = case["fmt"], tuple(case["size"])
    dpi_req = _dpi_arg(case["dpi"])
    dl = _dpi_label(dpi_req)
    blob = F.make_image(fmt, size, dpi=dpi_req, color=0)
    if R.sniff(blob) != fmt:
        raise HarnessError("generator wrote %r for request %s" % (R.sniff(blob), fmt))
    sdpi = R.stored_dpi(blob, fmt)
    base = "fmt=%s" % fmt

    def viol(rule, attrs, what):
        sig = "C15|%s|%s%s" % (rule, base, "".join("|" + a for a in attrs))
        rp = dict(case)
        rp["signature"] = sig
        rp["thorough"] = bool(thorough)
        part.violation(sig, "%s %sx%s dpi-request=%s stored-dpi=%s name=%s: %s" % (
            fmt, size[0], size[1], dl, sdpi, case["name"], what), rp)

    prs = F.open_prs()
    slides = [prs.slides.add_slide(prs.slide_layouts[6]), prs.slides.add_slide(prs.slide_layouts[6])]
    made = []  # (slide idx, shape id, (w,h) args)
    for k, (w, h) in enumerate(_wh_list(thorough)):
        part.count("evaluations")
        part.add("nontrivial", (_sha(blob)[:16], case["name"], w, h))
        src, closer = _source(case, blob)
        try:
            pic = slides[k % 2].shapes.add_picture(src, 0, 0, w, h)
        except Exception as e:  # noqa: BLE001
            viol("op-raised", ["dpi=" + dl, type(e).__name__], "add_picture(width=%s,height=%s) raised %r" % (w, h, e))
            part.outcome("add_picture", "raised:" + type(e).__name__)
            continue
        finally:
            if closer is not None:
                closer.close()
        part.outcome("add_picture", "ok:%s:%s" % (fmt, "native" if (w is None and h is None) else "sized"))
        made.append((k % 2, pic.shape_id, (w, h)))
        gw, gh = int(pic.width), int(pic.height)
        _check_size(viol, size, sdpi, dl, w, h, gw, gh, "shape")
        try:
            if pic.image.blob != blob:
                viol("blob", [], "picture.image.blob differs from the input bytes")
            ext, ct = pic.image.ext, pic.image.content_type
            if ext not in R.FORMATS[fmt][0]:
                viol("api-ext", ["name=" + case["name"].split("-")[0], "got=" + ext], "picture.image.ext == %r" % ext)
            if ct != R.FORMATS[fmt][1]:
                viol("api-content-type", ["got=" + ct], "picture.image.content_type == %r" % ct)
        except Exception as e:  # noqa: BLE001
            viol("op-raised", ["image", type(e).__name__], "picture.image raised %r" % (e,))
    # ---- the saved package --------------------------------------------------------------------------
    try:
        saved = F.save_bytes(prs)
    except Exception as e:  # noqa: BLE001
        viol("op-raised", ["save", type(e).__name__], "save raised %r" % (e,))
        return
    pkg = opc_ref.read(saved)
    imgs = _media_images(pkg, {_sha(blob)})
    if len(imgs) != 1:
        viol("dedup", ["parts=%d" % len(imgs), "source=" + case["how"]],
             "%d image parts after %d additions of the same bytes: %s" % (len(imgs), len(made), [m for m, _, _ in imgs]))
    if made and not any(b == blob for _, b, _ in imgs):
        viol("stored-bytes", [], "no image part holds the input bytes (%s)" % [(m, len(b)) for m, b, _ in imgs])
    for m, b, ct in imgs:
        if b != blob:
            continue
        for rule, got, want in _type_errors(m, ct, fmt):
            viol(rule, ["name=" + case["name"].split("-")[0], "got=" + got],
                 "stored as %s with content type %s; real format %s wants %s" % (m, ct, fmt, want))
    spn = _slide_members(pkg)
    for si, shape_id, (w, h) in made:
        tgt, why = _shape_blip_target(pkg, spn[si], shape_id)
        if tgt is None or not pkg.has_part(tgt) or pkg.blob(tgt) != blob:
            viol("shape-image", [], "saved picture %s on slide %d does not resolve to the input bytes (%s)" % (shape_id, si, why or tgt))
        ext = _shape_ext(pkg, spn[si], shape_id)
        if ext is None:
            viol("saved-size", ["missing"], "saved picture %s has no a:ext" % shape_id)
        else:
            _check_size(viol, size, sdpi, dl, w, h, ext[0], ext[1], "saved")


def _check_size(viol, size, sdpi, dl, w, h, gw, gh, where):
    px, py = size
    if w is None and h is None:
        okx, oky = R.native_ok(px, sdpi[0], gw), R.native_ok(py, sdpi[1], gh)
        if not (okx and oky):
            viol("native-size", ["dpi=" + dl],
                 "%s size %d x %d EMU; expected %s x %s (pixels * 914400 / dpi, 72 when absent/implausible)" % (
                     where, gw, gh, R.native_expected(px, sdpi[0]), R.native_expected(py, sdpi[1])))
    elif w is not None and h is not None:
        if (gw, gh) != (w, h):
            viol("explicit-size", [], "%s size %d x %d, asked for %d x %d" % (where, gw, gh, w, h))
    elif w is not None:
        if gw != w:
            viol("explicit-size", ["given=width"], "%s width %d, asked for %d" % (where, gw, w))
        elif not R.aspect_ok(size, sdpi, 0, w, gh):
            viol("aspect", ["dpi=" + dl, "given=width"], "%s height %d for width %d; aspect ratio wants %s" % (
                where, gh, w, R.aspect_expected(size, sdpi, 0, w)))
    else:
        if gh != h:
            viol("explicit-size", ["given=height"], "%s height %d, asked for %d" % (where, gh, h))
        elif not R.aspect_ok(size, sdpi, 1, h, gw):
            viol("aspect", ["dpi=" + dl, "given=height"], "%s width %d for height %d; aspect ratio wants %s" % (
                where, gw, h, R.aspect_expected(size, sdpi, 1, h)))


MANY_N = [9, 10, 11]


def _many_space():
    return [{"kind": "e2n", "n": n, "fmt": fmt, "how": how, "reopen": ro}
            for n in MANY_N for fmt in FORMATS for how in ("path", "stream") for ro in (False, True)]


def e2_many_case(part, case):
    """A deck that already holds n distinct images (live, or saved and re-opened) receives one NEW image."""
    n, fmt = case["n"], case["fmt"]

    def viol(rule, attrs, what):
        sig = "C15|%s|many-images%s" % (rule, "".join("|" + a for a in attrs))
        rp = dict(case)
        rp["signature"] = sig
        part.violation(sig, "deck with %d images (%s) + new %s via %s: %s" % (
            n, "re-opened" if case["reopen"] else "live", fmt, case["how"], what), rp)

    part.count("evaluations")
    part.add("nontrivial", ("e2n", n, fmt, case["how"], case["reopen"]))
    inputs = [filler_image(i) for i in range(n)]
    try:
        prs = _deck_with_images(n)
        if case["reopen"]:
            prs = F.reopen(prs)
        new = F.make_image(fmt, (3, 2), dpi=72, color=99)
        src = _write_file("new." + CANON_EXT[fmt], new) if case["how"] == "path" else io.BytesIO(new)
        pic = prs.slides[0].shapes.add_picture(src, 0, 0)
        blob_ok = pic.image.blob == new
        saved = F.save_bytes(prs)
    except Exception as e:  # noqa: BLE001
        viol("op-raised", [type(e).__name__], "raised %r" % (e,))
        part.outcome("add_to_many", "raised")
        return
    part.outcome("add_to_many", "ok:n=%d" % n)
    inputs.append(new)
    if not blob_ok:
        viol("blob", ["fmt=" + fmt], "picture.image.blob of the new picture is not the input")
    pkg = opc_ref.read(saved)
    names = {}
    for m in list(pkg.members) + list(pkg.dup_members):
        if m.lower().startswith("ppt/media/"):
            names.setdefault(m.lower(), []).append(m)
    for k, v in sorted(names.items()):
        if len(v) > 1:
            viol("dedup", ["name-collision", "name=" + re.sub(r"\d+", "N", k.rsplit("/", 1)[-1])],
                 "media member names collide: %s" % v)
    imgs = _media_images(pkg, {_sha(b) for b in inputs})
    stored = {}
    for m, b, ct in imgs:
        stored.setdefault(_sha(b), []).append(m)
    for i, b in enumerate(inputs):
        lab = "new" if i == n else "existing"
        got = stored.get(_sha(b), [])
        if not got:
            viol("stored-bytes", ["missing", "img=" + lab], "no image part holds the bytes of %s image #%d; parts: %s" % (
                lab, i, sorted(m for m, _, _ in imgs)))
        elif len(got) > 1:
            viol("dedup", ["stored-twice", "img=" + lab], "%s image #%d stored in %s" % (lab, i, got))
    if len(imgs) != n + 1:
        viol("dedup", ["count"], "%d image parts, expected %d" % (len(imgs), n + 1))
    for m, b, ct in imgs:
        if b == new:
            for rule, got, want in _type_errors(m, ct, fmt):
                viol(rule, ["fmt=" + fmt, "got=" + got], "new image stored as %s (%s); wants %s" % (m, ct, want))
    tgt, why = _shape_blip_target(pkg, _slide_members(pkg)[0], pic.shape_id)
    if tgt is None or not pkg.has_part(tgt) or pkg.blob(tgt) != new:
        viol("shape-image", ["zip"], "saved new picture does not resolve to the input bytes (%s)" % (why or tgt))


def _many_worker(part, chunk):
    for case in chunk:
        e2_many_case(part, case)


def _e2_worker_factory(thorough):
    def work(part, chunk):
        for case in chunk:
            e2_case(part, case, thorough)
        if chunk:
            c = chunk[0]
            part.sample({"e2": {k: c[k] for k in ("fmt", "size", "dpi", "name")},
                         "stored_dpi": R.stored_dpi(F.make_image(c["fmt"], tuple(c["size"]), dpi=_dpi_arg(c["dpi"])), c["fmt"])})
    return work



# =====================================================================================================
# E2b: pixel extent x resolution sweep of the native size (one add_picture per image, no size given)
# =====================================================================================================
# The native size is ONE arithmetic expression of (pixel extent, dpi); whether it is evaluated exactly depends on
# the particular pair (a float formulation such as px / dpi * 914400 is off by one EMU for 13 px @ 96 dpi but for no
# extent below 13 at any dpi, and for 72 dpi only from 37 px on). The space is therefore the full product
# {every pixel extent 1..N} x {resolutions that image producers actually write}: screen 72/96/120/144/192, metric
# 100/127/200/254/400, print 150/180/220/240/300/360/600/1200 - for each format that can store a resolution (each
# stores it differently: JFIF integer dpi, TIFF rational, PNG/BMP integer pixels per metre). Image k of a row is
# k x (N+1-k) pixels, so both axes take every extent 1..N with N images. One deck per (format, dpi) row, one
# add_picture per image, one save per row; the size is read from the shape and from a:ext of the saved slide.
DPI_SWEEP = [72, 96, 100, 120, 127, 144, 150, 180, 192, 200, 220, 240, 254, 300, 360, 400, 600, 1200]
SWEEP_FORMATS = ["PNG", "JPEG", "BMP", "TIFF"]
SWEEP_N_QUICK = 128
SWEEP_N_THOROUGH = 256
# thorough only: EVERY integer resolution of the plausible range 1..2048 (JPEG stores it exactly), extents 1..64
ALLDPI_RANGE = (1, 2048)
ALLDPI_N = 64


def _sweep_rows(thorough):
    n = SWEEP_N_THOROUGH if thorough else SWEEP_N_QUICK
    rows = [{"kind": "nsweep", "fmt": fmt, "dpi": d, "n": n} for fmt in SWEEP_FORMATS for d in DPI_SWEEP]
    closed = len(SWEEP_FORMATS) * len(DPI_SWEEP) * n
    if thorough:
        lo, hi = ALLDPI_RANGE
        rows += [{"kind": "nsweep", "fmt": "JPEG", "dpi": d, "n": ALLDPI_N} for d in range(lo, hi + 1)
                 if d not in DPI_SWEEP]
        closed += (hi - lo + 1 - len([d for d in DPI_SWEEP if lo <= d <= hi])) * ALLDPI_N
    return rows, closed


def _flat_image(fmt, size, dpi):
    """Single-colour RGB image written by Pillow (deterministic; the colour depends on the size so that no two
    images of a row have the same bytes)."""
    from PIL import Image
    buf = io.BytesIO()
    Image.new("RGB", size, (size[0] % 256, size[1] % 256, 77)).save(buf, fmt, dpi=(dpi, dpi))
    return buf.getvalue()


def _saved_exts(pkg, slide_pn):
    """{shape id (str): (cx, cy)} of every shape of the saved slide that has an a:ext (first one below the shape)."""
    out = {}
    root = etree.fromstring(pkg.blob(slide_pn))
    for cnv in root.iter("{%s}cNvPr" % P_NS):
        el = cnv.getparent().getparent()
        ext = next(el.iter("{%s}ext" % A_NS), None)
        if ext is not None and ext.get("cx") is not None:
            out[cnv.get("id")] = (int(ext.get("cx")), int(ext.get("cy")))
    return out


def nsweep_row(part, row):
    fmt, dpi, n_max = row["fmt"], row["dpi"], row["n"]

    def viol(rule, attrs, what):
        # the size arithmetic does not depend on the format: one signature per (dpi, smallest failing extent)
        sig = "C15|%s|px-sweep|%sdpi=%s%s" % (rule, "" if rule == "native-size" else "fmt=%s|" % fmt, dpi,
                                            "".join("|" + a for a in attrs))
        rp = dict(row)
        rp["signature"] = sig
        part.violation(sig, "%s images k x (%d-k) px, k=1..%d, stored at %s dpi: %s" % (fmt, n_max + 1, n_max, dpi, what), rp)

    part.count("evaluations", n_max)
    prs = F.open_prs()
    slide = prs.slides.add_slide(prs.slide_layouts[6])
    recs = []
    raised = None
    for k in range(1, n_max + 1):
        size = (k, n_max + 1 - k)
        blob = _flat_image(fmt, size, dpi)
        sdpi = R.stored_dpi(blob, fmt)
        if sdpi[0] is None or abs(sdpi[0] - dpi) >= 0.5 or abs(sdpi[1] - dpi) >= 0.5:
            raise HarnessError("generator stored %s for a %s dpi request (%s)" % (sdpi, dpi, fmt))
        part.add("nontrivial", ("nsweep", fmt, dpi, n_max, k))
        try:
            pic = slide.shapes.add_picture(io.BytesIO(blob), 0, 0)
        except Exception as e:  # noqa: BLE001
            if raised is None:
                raised = (k, e)
            continue
        recs.append((size, sdpi, str(pic.shape_id), (int(pic.width), int(pic.height))))
    if raised is not None:
        viol("op-raised", [type(raised[1]).__name__], "add_picture of the %d x %d image raised %r" % (
            raised[0], n_max + 1 - raised[0], raised[1]))
        part.outcome("add_picture", "raised:" + type(raised[1]).__name__)
    try:
        pkg = opc_ref.read(F.save_bytes(prs))
    except Exception as e:  # noqa: BLE001
        viol("op-raised", ["save", type(e).__name__], "save raised %r" % (e,))
        return
    exts = _saved_exts(pkg, _slide_members(pkg)[0])
    bad = {}        # failing pixel extent -> description (smallest extent = the minimal witness of the row)
    integral = 0
    for size, sdpi, sid, live in recs:
        saved = exts.get(sid)
        if saved is None:
            viol("saved-size", ["missing"], "saved picture %s has no a:ext" % sid)
            continue
        for axis in (0, 1):
            px = size[axis]
            if R.native_exact(px, dpi).denominator == 1:
                integral += 1
            for where, got in (("shape", live[axis]), ("saved", saved[axis])):
                if not R.native_ok(px, sdpi[axis], got):
                    bad.setdefault(px, "%s %s of the %d x %d image is %d EMU; %d px at %s dpi is %s EMU" % (
                        where, "width" if axis == 0 else "height", size[0], size[1], got, px, dpi,
                        " or ".join(_fmt_exact(x) for x in R.native_expected_exact(px, sdpi[axis]))))
    part.add("sweep_integral_sizes", (fmt, dpi, n_max, integral))
    part.outcome("native_size_sweep", "whole-EMU:" + ("ok" if not bad else "wrong"))
    if integral < 2 * len(recs):
        part.outcome("native_size_sweep", "fractional-EMU:" + ("ok" if not bad else "wrong"))
    if bad:
        px = min(bad)
        viol("native-size", ["px=%d" % px], "%d of %d pixel extents give a wrong size, smallest %d px: %s" % (
            len(bad), n_max, px, bad[px]))


def _fmt_exact(x):
    return str(x.numerator) if x.denominator == 1 else "%.3f (either neighbour)" % float(x)


def _sweep_worker(part, chunk):
    for row in chunk:
        nsweep_row(part, row)
    if chunk:
        part.sample({"px_sweep_row": {k: chunk[0][k] for k in ("fmt", "dpi", "n")}})


# =====================================================================================================
# E2c: the file-like object at hand-over - its KIND, its state (cursor, unflushed writes), the size of its content
# =====================================================================================================
# "From a stream" in practice means a buffer the caller has just WRITTEN (Pillow/matplotlib save(buf): cursor at the
# end) or has partly READ (signature sniff, PIL.Image.open(buf).size) - and the buffer is whatever file-like object
# the caller had at hand: an in-memory stream, a file opened for reading, a file or temporary file opened for
# read/write that the image has just been written into (not flushed: part or all of it exists only in the object's
# buffer, the file on disk is shorter, empty, or still holds what it held before), a spooled temporary file, an
# object that carries a .name which is NOT where its content lives, or the bare read/seek/tell protocol. The image
# is the CONTENT OF THE STREAM (what it returns when read from position 0), not what lies behind the cursor, not
# what a path found on the object holds, not what has reached the disk so far.
# Space: format x (kind, state) x content size x API entry point; every case hands the SAME object over twice (the
# second time in whatever state the library left it). A written-not-flushed object can only have its cursor at the
# end (any seek flushes it), so (kind, state) is the list FILE_LIKES below rather than a full product.
CURSORS = ["end", "sig8", "one", "half", "last"]
ALL_CURSORS = ["start"] + CURSORS
PLAIN_KINDS = ("bytesio", "file-rb")        # their signatures carry no file-like= attribute (a cursor defect shows here)
FILE_LIKES = [
    # kind                               admissible cursor positions
    ("bytesio",                          ALL_CURSORS),   # io.BytesIO, written then (unless 'end') re-read up to the cursor
    ("file-rb",                          ALL_CURSORS),   # open(path, "rb") of a file holding the image
    ("file-w+b-unflushed",               ["end"]),       # open(path, "w+b"), image written in 1000-byte pieces, no flush
    ("file-w+b-flushed",                 ALL_CURSORS),   # the same + flush(), then (unless 'end') re-read up to the cursor
    ("file-r+b-overwritten-unflushed",   ["end"]),       # the file holds ANOTHER (shorter) image of the format; open "r+b",
                                                         # the image written over it in pieces, no flush
    ("tempfile-unflushed",               ["end"]),       # tempfile.NamedTemporaryFile, written in pieces, no flush
    ("tempfile-flushed",                 ALL_CURSORS),
    ("spooled",                          ALL_CURSORS),   # tempfile.SpooledTemporaryFile(max_size=4096): small content stays in
                                                         # memory, big content has rolled over to an unnamed file (unflushed
                                                         # when the cursor is at the end)
    ("misnamed-bytesio",                 ALL_CURSORS),   # BytesIO carrying .name = path of an existing image file of ANOTHER
                                                         # format and other bytes
    ("minimal",                          ALL_CURSORS),   # an object with read/seek/tell and nothing else
]
UNFLUSHED_KINDS = ("file-w+b-unflushed", "file-r+b-overwritten-unflushed", "tempfile-unflushed")
STREAM_KINDS = [k for k, _ in FILE_LIKES]
STREAM_APIS = ["add_picture", "insert_picture", "add_movie_poster", "add_ole_icon"]
CONTENTS = ["small", "big"]     # small: 5 x 3 px, fits any I/O buffer; big: > BIG_MIN bytes, many I/O buffers
BIG_MIN = 160 * 1024            # io.DEFAULT_BUFFER_SIZE is 8 KiB, open() uses st_blksize; newer CPythons use up to 128 KiB
BIG_PX = {"PNG": (320, 240), "JPEG": (512, 384), "GIF": (480, 360), "BMP": (320, 240), "TIFF": (320, 240)}
PIECE = 1000                    # the writer hands the image over in pieces of this many bytes (as encoders do)
SPOOL_MAX = 4096


def _cursor_space():
    return [{"kind": "e2s", "fmt": fmt, "cursor": c, "stream": k, "api": a, "content": sz}
            for fmt in FORMATS for k, cursors in FILE_LIKES for c in cursors for sz in CONTENTS for a in STREAM_APIS]


def _cursor_closed_form():
    return len(FORMATS) * sum(len(c) for _, c in FILE_LIKES) * len(CONTENTS) * len(STREAM_APIS)


def _cursor_pos(label, n):
    return {"start": 0, "end": n, "sig8": 8, "one": 1, "half": n // 2, "last": n - 1}[label]


_BIG = {}


def _big_image(fmt):
    """Deterministic image of > BIG_MIN bytes: incompressible pixels (SHAKE-256 stream of a fixed seed) written by
    Pillow at 96 dpi (GIF: greyscale palette, no resolution)."""
    if fmt not in _BIG:
        from PIL import Image
        w, h = BIG_PX[fmt]
        if fmt == "GIF":
            im = Image.frombytes("L", (w, h), hashlib.shake_256(b"C15 big " + fmt.encode()).digest(w * h))
        else:
            im = Image.frombytes("RGB", (w, h), hashlib.shake_256(b"C15 big " + fmt.encode()).digest(w * h * 3))
        buf = io.BytesIO()
        kw = {} if fmt == "GIF" else {"dpi": (96, 96)}
        if fmt == "JPEG":
            kw["quality"] = 95
        im.save(buf, fmt, **kw)
        b = buf.getvalue()
        if len(b) < BIG_MIN or R.sniff(b) != fmt:
            raise HarnessError("big %s image: %d bytes, sniffed %s" % (fmt, len(b), R.sniff(b)))
        _BIG[fmt] = b
    return _BIG[fmt]


def _stream_content(fmt, content):
    if content == "big":
        return _big_image(fmt)
    return F.make_image(fmt, (5, 3), dpi=None if fmt == "GIF" else 96, color=7)


class _NamedBytesIO(io.BytesIO):
    """BytesIO that can carry attributes (.name)."""


class _Minimal(object):
    """The bare protocol: read / seek / tell over private bytes; no name, fileno, getvalue, close, ..."""
    __slots__ = ("_b",)

    def __init__(self, blob):
        self._b = io.BytesIO(blob)

    def read(self, n=-1):
        return self._b.read(n)

    def seek(self, pos, whence=0):
        return self._b.seek(pos, whence)

    def tell(self):
        return self._b.tell()


def _write_pieces(f, blob):
    for i in range(0, len(blob), PIECE):
        f.write(blob[i:i + PIECE])


def _make_file_like(kind, cur, fmt, blob):
    """(file-like holding `blob` with the cursor at position `cur`, closer | None, path of the disk file that must NOT
    yet hold the content | None)."""
    import tempfile
    pos = _cursor_pos(cur, len(blob))
    ext = CANON_EXT[fmt]
    closer = disk = None

    def reposition(f):      # 'end' = just written; otherwise rewound and read up to the cursor
        if cur != "end":
            f.seek(0)
            f.read(pos)

    if kind == "bytesio":
        src = io.BytesIO()
        src.write(blob)
        reposition(src)
    elif kind == "file-rb":
        src = closer = open(_write_file("cursor." + ext, blob), "rb")
        src.read(pos)
    elif kind in ("file-w+b-unflushed", "file-w+b-flushed"):
        p = os.path.join(_scratch(), "written." + ext)
        src = closer = open(p, "w+b")
        _write_pieces(src, blob)
        if kind.endswith("-flushed"):
            src.flush()
            reposition(src)
        else:
            disk = p
    elif kind == "file-r+b-overwritten-unflushed":
        old = F.make_image(fmt, (2, 2), dpi=None if fmt == "GIF" else 96, color=3)
        if len(old) > len(blob) or blob.startswith(old) or R.sniff(old) != fmt:
            raise HarnessError("previous content of the overwritten file is unsuitable (%d vs %d bytes)" % (len(old), len(blob)))
        p = _write_file("overwritten." + ext, old)
        src = closer = open(p, "r+b")
        _write_pieces(src, blob)
        disk = p
    elif kind in ("tempfile-unflushed", "tempfile-flushed"):
        src = closer = tempfile.NamedTemporaryFile(dir=_scratch(), suffix="." + ext)
        _write_pieces(src, blob)
        if kind.endswith("-flushed"):
            src.flush()
            reposition(src)
        else:
            disk = src.name
    elif kind == "spooled":
        src = closer = tempfile.SpooledTemporaryFile(max_size=SPOOL_MAX, dir=_scratch())
        _write_pieces(src, blob)
        reposition(src)
    elif kind == "misnamed-bytesio":
        ofmt = FORMATS[(FORMATS.index(fmt) + 1) % len(FORMATS)]
        other = _write_file("elsewhere." + CANON_EXT[ofmt], F.make_image(ofmt, (3, 2), dpi=None if ofmt == "GIF" else 72, color=11))
        src = _NamedBytesIO()
        src.write(blob)
        src.name = other
        reposition(src)
    elif kind == "minimal":
        src = _Minimal(blob)
        src.seek(pos)
    else:
        raise KeyError(kind)
    if src.tell() != pos:
        raise HarnessError("cursor of the prepared %s is %d, wanted %d" % (kind, src.tell(), pos))
    if disk is not None:
        # vacuity guard: the point of these kinds is that the disk does NOT hold the content yet
        on_disk = F.read_bytes(disk)
        if on_disk == blob or (len(blob) >= BIG_MIN and not 0 < len(on_disk) < len(blob)):
            raise HarnessError("%s: %d of %d bytes are on disk at hand-over - the case is vacuous" % (
                kind, len(on_disk), len(blob)))
    return src, closer, disk


def e2s_case(part, case):
    from pptx.enum.shapes import PROG_ID
    fmt, cur, kind, api = case["fmt"], case["cursor"], case["stream"], case["api"]
    content = case.get("content", "small")
    blob = _stream_content(fmt, content)
    pos = _cursor_pos(cur, len(blob))

    def viol(rule, attrs, what):
        sig = "C15|%s|stream-cursor|api=%s|cursor=%s%s%s" % (
            rule, api, cur, "" if kind in PLAIN_KINDS else "|file-like=" + kind, "".join("|" + a for a in attrs))
        rp = dict(case)
        rp["signature"] = sig
        part.violation(sig, "%s (%s, %d bytes) handed to %s as a %s with the cursor at %d (%s): %s" % (
            fmt, content, len(blob), api, kind, pos, cur, what), rp)

    part.count("evaluations", 2)
    part.add("nontrivial", ("e2s", fmt, cur, kind, api, content))
    prs = F.open_prs()
    lay = _pic_layout(prs)
    slides = [prs.slides.add_slide(lay), prs.slides.add_slide(lay)]
    src, closer, disk = _make_file_like(kind, cur, fmt, blob)
    made = []   # (slide idx, shape id, shape kind, shape | None)
    try:
        for call, s in enumerate(slides, 1):
            try:
                if api == "add_picture":
                    sh = s.shapes.add_picture(src, EMU, EMU)
                    k = "pic"
                elif api == "insert_picture":
                    ph = next(p for p in s.placeholders if hasattr(p, "insert_picture"))
                    sh = ph.insert_picture(src)
                    k = "ph"
                elif api == "add_movie_poster":
                    sh = s.shapes.add_movie(F.MOVIE, EMU, EMU, EMU, EMU, poster_frame_image=src, mime_type="video/mp4")
                    k = "movie"
                else:
                    sh = s.shapes.add_ole_object(XLSX, PROG_ID.XLSX, EMU, EMU, icon_file=src)
                    k = "ole"
            except Exception as e:  # noqa: BLE001
                viol("op-raised", ["call=%d" % call, type(e).__name__], "call %d raised %s" % (
                    call, re.sub(r" at 0x[0-9a-f]+", "", re.sub(r"name='[^']*'", "name=...", repr(e)))))
                part.outcome("stream_cursor", "raised:" + type(e).__name__)
                continue
            part.outcome("stream_cursor", "ok:%s:%s" % (api, "first" if call == 1 else "same-object-again"))
            part.outcome("file_like", "ok:%s:%s" % (kind, content))
            made.append((call - 1, sh.shape_id, k, sh))
            if k != "ole":
                try:
                    got = sh.poster_frame.blob if k == "movie" else sh.image.blob
                except Exception as e:  # noqa: BLE001
                    viol("op-raised", ["call=%d" % call, "read-image", type(e).__name__], "reading the image raised %r" % (e,))
                    continue
                if got != blob:
                    viol("blob", ["call=%d" % call], "the shape's image blob (%d bytes) is not the content of the stream (%d bytes)" % (
                        len(got), len(blob)))
        # the reference "content of the stream" is what the object itself returns from position 0 (harness check;
        # a library that closed the caller's object is not this property's business)
        try:
            src.seek(0)
            now = src.read()
        except ValueError:
            now = None
            part.outcome("file_like", "closed-by-the-library:" + kind)
        if now is not None and now != blob:
            raise HarnessError("%s/%s/%s: the stream returns %d bytes from position 0, the model has %d" % (
                kind, cur, content, len(now), len(blob)))
    finally:
        if closer is not None:
            closer.close()
    try:
        pkg = opc_ref.read(F.save_bytes(prs))
    except Exception as e:  # noqa: BLE001
        viol("op-raised", ["save", type(e).__name__], "save raised %r" % (e,))
        return
    imgs = _media_images(pkg, {_sha(blob)})
    want = 1 if made else 0
    if len(imgs) != want:
        viol("dedup", ["parts=%d" % len(imgs)], "%d image parts after %d additions of the same stream: %s" % (
            len(imgs), len(made), [(m, len(b)) for m, b, _ in imgs]))
    if made and not any(b == blob for _, b, _ in imgs):
        viol("stored-bytes", [], "no image part holds the content of the stream (%s)" % [(m, len(b)) for m, b, _ in imgs])
    for m, b, ct in imgs:
        if b == blob:
            for rule, got, want_t in _type_errors(m, ct, fmt):
                viol(rule, ["fmt=" + fmt, "got=" + got], "stored as %s with content type %s; wants %s" % (m, ct, want_t))
    spn = _slide_members(pkg)
    for si, shape_id, k, _sh in made:
        tgt, why = _shape_blip_target(pkg, spn[si], shape_id)
        if tgt is None or not pkg.has_part(tgt) or pkg.blob(tgt) != blob:
            viol("shape-image", ["kind=" + k], "saved %s shape %s on slide %d does not resolve to the content of the stream (%s)" % (
                k, shape_id, si, why or tgt))


def _cursor_worker(part, chunk):
    for case in chunk:
        e2s_case(part, case)


# =====================================================================================================
# E2d: bytes that are ALREADY stored in a deck the library did not write (every corpus deck that holds images)
# =====================================================================================================
# "Stores one media part" must also hold when the first copy was not added through this library but LOADED: the
# lookup then runs over parts built from whatever the producer declared (e.g. PowerPoint's content type image/jpg
# for a JPEG). Space: every (corpus deck, distinct image stored in it) x {stream, path} x {deck as opened, deck first
# saved and re-opened by the library}; history: add the image's own bytes on the first and on the last slide, save,
# check; re-open, add them again, save, check. Model = the multiset of image byte strings of the corpus deck: it
# must not change.
CORPUS_FLOOR = (10, 15)     # at least this many corpus decks with images / (deck, image) pairs


def _corpus_space():
    cases, decks = [], 0
    for path in F.corpus():
        name = F.corpus_name(path)
        seen = set()
        for m, b, _ct in _media_images(opc_ref.read(F.read_bytes(path))):
            if _sha(b) in seen:
                continue
            seen.add(_sha(b))
            for via in ("stream", "path"):
                for ro in (False, True):
                    cases.append({"kind": "e2c", "deck": name, "member": m, "via": via, "reopen": ro})
        decks += bool(seen)
    pairs = len(cases) // 4
    if decks < CORPUS_FLOOR[0] or pairs < CORPUS_FLOOR[1]:
        raise HarnessError("corpus holds only %d decks with images / %d (deck, image) pairs" % (decks, pairs))
    return cases, decks, pairs


def e2c_case(part, case):
    deck, member = case["deck"], case["member"]
    init = F.read_bytes(os.path.join(F.REPO, deck))
    pkg0 = opc_ref.read(init)
    ims0 = _media_images(pkg0)
    b = pkg0.members[member]
    ct0 = [ct for m, _, ct in ims0 if m == member][0]
    fmt = R.sniff(b)
    model = {}
    names0 = {}
    for m, x, _ in ims0:
        model[_sha(x)] = model.get(_sha(x), 0) + 1
        names0.setdefault(_sha(x), m.rsplit("/", 1)[-1])
    step = ["open"]

    def viol(rule, attrs, what):
        sig = "C15|%s|corpus-image|ct=%s|fmt=%s%s" % (rule, ct0, fmt, "".join("|" + a for a in attrs))
        rp = dict(case)
        rp["signature"] = sig
        part.violation(sig, "%s (%s), adding the bytes of its own %s (declared %s, real format %s) via %s, step %s: %s" % (
            deck, "saved and re-opened first" if case["reopen"] else "as opened", member, ct0, fmt, case["via"], step[0], what), rp)

    def source():
        return _write_file(FIXED_PATH_NAME, b) if case["via"] == "path" else io.BytesIO(b)

    def check(saved, pics, tag):
        pkg = opc_ref.read(saved)
        stored = {}
        for m, x, _ in _media_images(pkg, set(model)):
            stored.setdefault(_sha(x), []).append(m)
        for sha, names in sorted(stored.items(), key=lambda kv: kv[1]):
            own = "own" if sha == _sha(b) else "other"
            if sha not in model:
                viol("stored-bytes", ["unknown-image", tag], "image part(s) %s hold bytes that are not in the corpus deck" % names)
            elif len(names) > model[sha]:
                viol("dedup", ["stored-twice", "img=" + own, tag], "the bytes of %s are stored in %d parts %s (the corpus deck: %d)" % (
                    names0[sha], len(names), names, model[sha]))
            elif len(names) < model[sha]:
                viol("dedup", ["initial-part-lost", "img=" + own, tag], "the corpus deck stored %s in %d parts, now %d" % (
                    names0[sha], model[sha], len(names)))
        for sha in sorted(model, key=lambda s: names0[s]):
            if sha not in stored:
                viol("stored-bytes", ["missing", "img=" + ("own" if sha == _sha(b) else "other"), tag],
                     "no image part holds the bytes of %s any more" % names0[sha])
        part.outcome("corpus_image_parts", "%d->%d" % (sum(model.values()), sum(len(v) for v in stored.values())))
        spn = _slide_members(pkg)
        for si, shape_id in pics:
            tgt, why = _shape_blip_target(pkg, spn[si], shape_id) if si < len(spn) and spn[si] else (None, "no slide %d" % si)
            if tgt is None or not pkg.has_part(tgt) or pkg.blob(tgt) != b:
                viol("shape-image", ["zip", tag], "saved picture %s on slide %d does not resolve to the added bytes (%s)" % (
                    shape_id, si, why or tgt))

    def add(prs, si, tag):
        try:
            pic = prs.slides[si].shapes.add_picture(source(), EMU, EMU)
        except Exception as e:  # noqa: BLE001
            if fmt is None:     # not one of the formats the statement is about: a refusal is an outcome, not a violation
                part.outcome("add_known_corpus_image", "refused:" + type(e).__name__)
            else:
                viol("op-raised", [tag, type(e).__name__], "add_picture raised %r" % (e,))
                part.outcome("add_known_corpus_image", "raised:" + type(e).__name__)
            return None
        part.outcome("add_known_corpus_image", "ok:%s:%s" % (ct0, tag))
        try:
            if pic.image.blob != b:
                viol("blob", [tag], "picture.image.blob is not the added bytes")
        except Exception as e:  # noqa: BLE001
            viol("op-raised", [tag, "read-image", type(e).__name__], "picture.image raised %r" % (e,))
        return (si, pic.shape_id)

    part.count("evaluations", 3)
    part.add("nontrivial", ("e2c", deck, member, case["via"], case["reopen"]))
    try:
        prs = F.open_prs(init)
        if case["reopen"]:
            step[0] = "save+re-open"
            prs = F.reopen(prs)
        if len(prs.slides) == 0:
            step[0] = "add_slide"
            prs.slides.add_slide(prs.slide_layouts[0])
        step[0] = "add twice + save"
        last = len(prs.slides) - 1
        pics = [p for p in (add(prs, 0, "step=1"), add(prs, last, "step=1")) if p is not None]
        saved = F.save_bytes(prs)
        check(saved, pics, "step=1")
        step[0] = "re-open + add + save"
        prs2 = F.open_prs(saved)
        pics2 = [p for p in (add(prs2, 0, "step=2"),) if p is not None]
        check(F.save_bytes(prs2), pics + pics2, "step=2")
    except HarnessError:
        raise
    except Exception as e:  # noqa: BLE001
        viol("op-raised", [step[0].replace(" ", ""), type(e).__name__], "%s raised %r" % (step[0], e))


def _corpus_worker(part, chunk):
    for case in chunk:
        e2c_case(part, case)


def _selfcheck_readers():
    """The hand-written resolution readers must agree with Pillow wherever Pillow reports a resolution from tags
    that exist (known and intended difference: a TIFF without resolution tags, which Pillow reports as (1, 1))."""
    from PIL import Image
    n = 0
    for fmt in FORMATS:
        for dpi in DPI_QUICK + DPI_MORE:
            b = F.make_image(fmt, (3, 2), dpi=dpi)
            mine = R.stored_dpi(b, fmt)
            pil = Image.open(io.BytesIO(b)).info.get("dpi")
            n += 1
            if fmt == "TIFF" and (dpi is None or dpi == 0):
                continue
            if pil is None:
                if mine != (None, None):
                    raise HarnessError("dpi reader: %s %s mine=%s pillow=None" % (fmt, dpi, mine))
                continue
            if mine[0] is None or any(abs(a - float(b_)) > 1e-3 * max(1.0, abs(a)) for a, b_ in zip(mine, pil)):
                raise HarnessError("dpi reader disagrees with Pillow: %s %s mine=%s pillow=%s" % (fmt, dpi, mine, pil))
    return n


# =====================================================================================================
# E1
# =====================================================================================================

CORPUS_INIT = "corpus:features/steps/test_files/shp-picture.pptx"
INITS = ["two_blank", "has_A", CORPUS_INIT]
MANY_INIT = "ten_images"   # already holds image1..image10: the next new image needs a two-digit-aware free index
HOLED_INIT = "holed_images"   # holds image1, image3 and image7 (a deck from which pictures were deleted): the free
                              # indices are 2, 4, 5, 6, 8...; a new image must never take a name in use
ALL_INITS = INITS + [MANY_INIT, HOLED_INIT]

_IMG = {}


def img(name):
    if name not in _IMG:
        if name == "A":
            _IMG[name] = ("PNG", F.make_image("PNG", (4, 3), dpi=None, color=1))
        elif name == "A2":
            _IMG[name] = ("TIFF", F.make_image("TIFF", (4, 3), dpi=72, color=1))
        elif name == "B":
            _IMG[name] = ("JPEG", F.make_image("JPEG", (6, 4), dpi=96, color=2))
        else:
            raise KeyError(name)
    return _IMG[name]


# Every hand-over "via path" uses ONE fixed path string P whose file is (re)written with the bytes of the requested
# image immediately before the call (a chart renderer overwriting chart.png per slide): the reference model is the
# bytes of the file at the time of the call. For B (a JPEG) the name is also a misleading one.
FIXED_PATH_NAME = "P.png"

_INIT_BLOBS = {}


def _pic_layout(prs):
    for lay in prs.slide_layouts:
        for ph in lay.placeholders:
            if "PICTURE" in str(ph.placeholder_format.type):
                return lay
    return None


def filler_image(i):
    """i-th of a family of distinct small PNG images."""
    return F.make_image("PNG", (2, 2), dpi=None, color=20 + i)


def _deck_with_images(n):
    """Default template + 2 blank slides holding n distinct PNG pictures (image parts image1..imageN)."""
    prs = F.open_prs()
    slides = [prs.slides.add_slide(prs.slide_layouts[6]), prs.slides.add_slide(prs.slide_layouts[6])]
    for i in range(n):
        slides[i % 2].shapes.add_picture(io.BytesIO(filler_image(i)), EMU * (1 + i % 5), EMU)
    return prs


def initial_blob(name):
    if name in _INIT_BLOBS:
        return _INIT_BLOBS[name]
    if name == "two_blank":
        prs = F.open_prs()
        prs.slides.add_slide(prs.slide_layouts[6])
        prs.slides.add_slide(prs.slide_layouts[6])
        b = F.save_bytes(prs)
    elif name == "has_A":
        prs = F.open_prs()
        prs.slides.add_slide(prs.slide_layouts[6])
        s = prs.slides.add_slide(_pic_layout(prs))
        s.shapes.add_picture(io.BytesIO(img("A")[1]), EMU, EMU)
        b = F.save_bytes(prs)
    elif name == "ten_images":
        b = F.save_bytes(_deck_with_images(10))
    elif name == "holed_images":
        mem = F.zip_members(F.save_bytes(_deck_with_images(3)))
        if "ppt/media/image2.png" not in mem or "ppt/media/image3.png" not in mem:
            raise HarnessError("three-image deck has unexpected media names: %s" % sorted(m for m in mem if "media" in m))
        order = [("ppt/media/image7.png" if n == "ppt/media/image2.png" else n) for n in mem]
        mem["ppt/media/image7.png"] = mem.pop("ppt/media/image2.png")
        n_ref = 0
        for n in list(mem):
            if n.endswith(".rels") and b"media/image2.png" in mem[n]:
                mem[n] = mem[n].replace(b"media/image2.png", b"media/image7.png")
                n_ref += 1
        if n_ref != 1:
            raise HarnessError("expected one relationship to image2.png, found %d" % n_ref)
        b = F.write_zip(mem, order)
    elif name.startswith("corpus:"):
        b = F.read_bytes(os.path.join(F.REPO, name[len("corpus:"):]))
    else:
        raise KeyError(name)
    _INIT_BLOBS[name] = b
    return b


_INIT_IMAGES = {}


def init_images(name):
    """[(member, bytes)] image parts under ppt/media of the initial deck (independent reader)."""
    if name not in _INIT_IMAGES:
        pkg = opc_ref.read(initial_blob(name))
        _INIT_IMAGES[name] = [(m, b) for m, b, _ in _media_images(pkg)]
    return _INIT_IMAGES[name]


class Live:
    def __init__(self, prs, init):
        self.prs = prs
        self.init = init
        self.added = {}      # sha1 -> (label, bytes, fmt | None)   every byte string handed over so far
        self.shapes = []     # (slide idx, shape id, kind, sha1)
        self.unexpected = []
        self.reopens = 0


def _img_src(live, name, via):
    """(src, bytes, label, fmt)"""
    if name == "I":
        ims = init_images(live.init)
        if not ims:
            return None
        b = ims[0][1]
        return io.BytesIO(b), b, "I", None
    fmt, b = img(name)
    if via == "path":
        return _write_file(FIXED_PATH_NAME, b), b, name, fmt
    return io.BytesIO(b), b, name, fmt


def _slide(live, idx):
    slides = live.prs.slides
    return slides[idx] if idx < len(slides) else None


def _record(live, label, b, fmt):
    """Step the reference model; returns the model's prediction (vacuity label): a new part or a reused one."""
    sha = _sha(b)
    known = sha in live.added or any(_sha(x) == sha for _, x in init_images(live.init))
    live.added.setdefault(sha, (label, b, fmt))
    return "model:reuse" if known else "model:new-part"


def op_add_picture(live, op):
    s = _slide(live, op["slide"])
    if s is None:
        return SKIP
    got = _img_src(live, op["img"], op.get("via", "stream"))
    if got is None:
        return SKIP
    src, b, label, fmt = got
    pic = s.shapes.add_picture(src, EMU, EMU)
    lab = _record(live, label, b, fmt)
    live.shapes.append((op["slide"], pic.shape_id, "pic", _sha(b)))
    return lab


def op_insert_picture(live, op):
    for si, s in enumerate(live.prs.slides):
        for ph in s.placeholders:
            if hasattr(ph, "insert_picture"):
                src, b, label, fmt = _img_src(live, op["img"], "stream")
                pp = ph.insert_picture(src)
                lab = _record(live, label, b, fmt)
                live.shapes.append((si, pp.shape_id, "ph", _sha(b)))
                return lab
    return SKIP


def op_add_movie(live, op):
    s = _slide(live, op["slide"])
    if s is None:
        return SKIP
    if op.get("poster"):
        src, b, label, fmt = _img_src(live, op["poster"], "stream")
    else:
        src, b, label, fmt = None, _LIB["poster"], "default-poster", None
    mv = s.shapes.add_movie(F.MOVIE, EMU, EMU, EMU, EMU, poster_frame_image=src, mime_type="video/mp4")
    lab = _record(live, label, b, fmt)
    live.shapes.append((op["slide"], mv.shape_id, "movie", _sha(b)))
    return lab


XLSX = os.path.join(F.FEATURE_FILES, "shp-embedded-xlsx.xlsx")


def op_add_ole(live, op):
    from pptx.enum.shapes import PROG_ID
    s = _slide(live, op["slide"])
    if s is None:
        return SKIP
    if op.get("icon"):
        src, b, label, fmt = _img_src(live, op["icon"], "path")
    else:
        src, b, label, fmt = None, _LIB["icon"], "default-icon", None
    gf = s.shapes.add_ole_object(XLSX, PROG_ID.XLSX, EMU, EMU, icon_file=src)
    lab = _record(live, label, b, fmt)
    live.shapes.append((op["slide"], gf.shape_id, "ole", _sha(b)))
    return lab


def op_save_reopen(live, op):
    live.prs = F.open_prs(F.save_bytes(live.prs))
    live.reopens += 1
    return "reopened:%d-shapes-tracked" % min(len(live.shapes), 2)


def op_add_slide(live, op):
    lay = _pic_layout(live.prs)
    if lay is None:
        return SKIP
    live.prs.slides.add_slide(lay)
    return "ok:%d-slides" % len(live.prs.slides)


OPS = {"add_picture": op_add_picture, "insert_picture": op_insert_picture, "add_movie": op_add_movie,
       "add_ole": op_add_ole, "save_reopen": op_save_reopen, "add_slide": op_add_slide}

ALPHABET = [
    {"op": "add_picture", "img": "A", "slide": 0, "via": "stream"},
    {"op": "add_picture", "img": "A", "slide": 1, "via": "path"},
    {"op": "add_picture", "img": "B", "slide": 1, "via": "stream"},
    {"op": "add_picture", "img": "B", "slide": 0, "via": "path"},
    {"op": "add_picture", "img": "A2", "slide": 0, "via": "stream"},
    {"op": "add_picture", "img": "I", "slide": 1, "via": "stream"},
    {"op": "insert_picture", "img": "A"},
    {"op": "add_movie", "poster": "A", "slide": 0},
    {"op": "add_movie", "poster": None, "slide": 1},
    {"op": "add_ole", "icon": "A", "slide": 1},
    {"op": "add_ole", "icon": None, "slide": 0},
    {"op": "save_reopen"},
    {"op": "add_slide"},
]

# thorough tier: depth 4 over these 10 (the three dropped operations are the second B variant and the two
# library-supplied default images, which are the least dedup-sensitive; all 13 are explored to depth 3)
SUB = [o for i, o in enumerate(ALPHABET) if i not in (2, 8, 10)]

_LIB = {}


def _discover_library_images():
    """The default poster frame and the default OLE icon are images python-pptx supplies itself: capture their
    bytes behaviourally (add one to a scratch deck, read the single image part back with the independent reader)."""
    if _LIB:
        return
    from pptx.enum.shapes import PROG_ID
    for key in ("poster", "icon"):
        prs = F.open_prs()
        s = prs.slides.add_slide(prs.slide_layouts[6])
        if key == "poster":
            s.shapes.add_movie(F.MOVIE, EMU, EMU, EMU, EMU, mime_type="video/mp4")
        else:
            s.shapes.add_ole_object(XLSX, PROG_ID.XLSX, EMU, EMU)
        ims = _media_images(opc_ref.read(F.save_bytes(prs)))
        if len(ims) != 1:
            raise HarnessError("cannot discover the default %s image: %d image parts" % (key, len(ims)))
        _LIB[key] = ims[0][1]
    # cross-check against the files/constants the library ships, when they can be found (discovery only)
    for key in ("poster", "icon"):
        if R.sniff(_LIB[key]) is None:
            raise HarnessError("default %s image has an unrecognised format" % key)


def _opsig(hist):
    return ">".join(o["op"] + "(" + ",".join("%s=%s" % (k, v) for k, v in sorted(o.items()) if k != "op") + ")" for o in hist)


def _op_short(op):
    if op["op"] == "add_picture":
        return "add_picture(%s,%s)" % (op["img"], op["via"])
    if op["op"] == "add_movie":
        return "add_movie(poster=%s)" % (op["poster"] or "default")
    if op["op"] == "add_ole":
        return "add_ole(icon=%s)" % (op["icon"] or "default")
    if op["op"] == "insert_picture":
        return "insert_picture(%s)" % op["img"]
    return op["op"]


class System:
    name = "images"

    def __init__(self, inits, alphabet=None):
        self._inits = inits
        self._alpha = alphabet or ALPHABET

    def initials(self):
        return list(self._inits)

    def build(self, name):
        _discover_library_images()
        return Live(F.open_prs(initial_blob(name)), name)

    def ops(self, level):
        return self._alpha

    def apply(self, live, op):
        try:
            label = OPS[op["op"]](live, op)
        except Exception as e:  # noqa: BLE001
            label = "UNEXPECTED:%s:%s" % (type(e).__name__, str(e)[:120])
            live.unexpected.append((op, label))
        return label

    def canon(self, live):
        flags = state.cache_flags(live.prs.part.package)
        try:
            live._final_save = F.save_bytes(live.prs)
            dig = state.package_digest(live._final_save)
        except Exception as e:  # noqa: BLE001
            live._final_save = None
            live._save_error = e
            dig = "save-raised:%s" % type(e).__name__
        model = (tuple(sorted(live.added)), tuple(live.shapes), tuple(l for _, l in live.unexpected))
        live._canon_key = _sha(repr((live.init, dig, flags, model)).encode())[:20]
        return (dig, flags, model)

    def check(self, live, init, hist, part):
        check_state(live, init, hist, part)


def _kinds_in(hist):
    return [o for o in hist if o["op"] in ("add_picture", "insert_picture", "add_movie", "add_ole")]


def check_state(live, init, hist, part):
    hs = _opsig(hist)

    def viol(rule, attrs, what):
        sig = "C15|%s%s" % (rule, "".join("|" + a for a in attrs))
        part.violation(sig, "init=%s history=%s: %s" % (init, hs, what),
                       {"kind": "e1", "init": init, "history": hist, "signature": sig})

    for op, label in live.unexpected:
        viol("op-raised", [_op_short(op), label.split(":")[1]], label)
    saved = getattr(live, "_final_save", None)
    if saved is None:
        e = getattr(live, "_save_error", None)
        viol("op-raised", ["save", type(e).__name__], "save raised %r" % (e,))
        return
    pkg = opc_ref.read(saved)
    # ---- member names distinct ------------------------------------------------------------------------
    lower = {}
    for m in list(pkg.members) + list(pkg.dup_members):
        if m.lower().startswith("ppt/media/"):
            lower.setdefault(m.lower(), []).append(m)
    for k, v in lower.items():
        if len(v) > 1:
            viol("dedup", ["name-collision", "name=" + re.sub(r"\d+", "N", k.rsplit("/", 1)[-1])], "media member names collide: %s" % v)
    # ---- stored image parts == model ------------------------------------------------------------------
    model = {}      # sha1 -> expected number of parts
    labels = {}
    for m, b in init_images(init):
        model[_sha(b)] = model.get(_sha(b), 0) + 1
        labels[_sha(b)] = "initial:" + m.rsplit("/", 1)[-1]
    for sha, (label, b, fmt) in live.added.items():
        model.setdefault(sha, 1)
        labels[sha] = label if sha not in labels else labels[sha] + "=" + label
    imgs = _media_images(pkg, set(model))
    stored = {}
    for m, b, ct in imgs:
        stored.setdefault(_sha(b), []).append(m)
    for sha, names in sorted(stored.items(), key=lambda kv: kv[1]):
        if sha not in model:
            viol("stored-bytes", ["unknown-image"],
                 "image part(s) %s hold bytes that were never handed over nor in the initial deck" % names)
        elif len(names) > model[sha]:
            viol("dedup", ["stored-twice", "img=" + _lab(labels[sha])],
                 "the bytes of image %s are stored in %d parts %s (expected %d)" % (labels[sha], len(names), names, model[sha]))
        elif len(names) < model[sha]:
            viol("dedup", ["initial-part-lost", "img=" + _lab(labels[sha])],
                 "the initial deck stored image %s in %d parts, now %d" % (labels[sha], model[sha], len(names)))
    for sha in sorted(model, key=lambda s: labels[s]):
        if sha not in stored:
            viol("stored-bytes", ["missing", "img=" + _lab(labels[sha])],
                 "no image part holds the bytes of image %s (%d bytes); image parts: %s" % (
                     labels[sha], len(live.added[sha][1]) if sha in live.added else -1, [m for m, _, _ in imgs]))
    want_n, got_n = sum(model.values()), len(imgs)
    part.outcome("image_parts", str(got_n))
    # ---- extension / content type ---------------------------------------------------------------------
    init_shas = {_sha(b) for _, b in init_images(init)}
    for m, b, ct in imgs:
        sha = _sha(b)
        if sha in init_shas or sha not in live.added:
            continue  # loaded parts keep the type they were loaded with (C01/C02's business)
        label, _, fmt = live.added[sha]
        src = "generated"
        if fmt is None:
            fmt, src = R.sniff(b), "library-supplied"
            if fmt is None:
                continue
        for rule, got, want in _type_errors(m, ct, fmt):
            viol(rule, ["fmt=" + fmt, "img=" + label, "got=" + got],
                 "%s image %s (real format %s) stored as %s with content type %s; wants %s" % (src, label, fmt, m, ct, want))
    # ---- every tracked shape shows the bytes it was created from ---------------------------------------
    spn = _slide_members(pkg)
    slides = live.prs.slides
    for si, shape_id, kind, sha in live.shapes:
        label, b, _ = live.added[sha]
        tgt, why = _shape_blip_target(pkg, spn[si], shape_id) if si < len(spn) and spn[si] else (None, "no slide %d" % si)
        if tgt is None or not pkg.has_part(tgt) or pkg.blob(tgt) != b:
            viol("shape-image", ["kind=" + kind, "img=" + label, "zip"],
                 "saved %s shape %s on slide %d does not resolve to the bytes of %s (%s)" % (kind, shape_id, si, label, why or tgt))
        if kind == "ole":
            continue
        try:
            sh = next((x for x in slides[si].shapes if x.shape_id == shape_id), None)
            got = sh.poster_frame.blob if kind == "movie" else sh.image.blob
        except Exception as e:  # noqa: BLE001
            viol("op-raised", ["read-" + kind, type(e).__name__], "reading the image of %s shape %s raised %r" % (kind, shape_id, e))
            continue
        if got != b:
            viol("blob", ["kind=" + kind, "img=" + label],
                 "%s shape %s on slide %d: image blob (%d bytes) is not the bytes of %s (%d bytes)" % (
                     kind, shape_id, si, len(got), label, len(b)))
    if len(hist) >= 2 and _kinds_in(hist):
        part.add("nontrivial", ("e1", getattr(live, "_canon_key", hs)))
    part.add("model_sizes", (want_n, got_n))


def _lab(label):
    return label.replace("initial:", "init-")


# =====================================================================================================
# run / replay
# =====================================================================================================

def _determinism_probe():
    """One fixed non-trivial history replayed twice must give the same canon ("prove you own it")."""
    sysm = System(INITS)
    hist = [ALPHABET[1], ALPHABET[11], ALPHABET[7], ALPHABET[10]]
    assert hist[1]["op"] == "save_reopen" and len(SUB) == 10
    cs = []
    for _ in range(2):
        live = sysm.build("has_A")
        for op in hist:
            sysm.apply(live, op)
        cs.append(sysm.canon(live))
    if cs[0] != cs[1]:
        raise HarnessError("canon differs between two replays of the same history")


def run(ctx):
    thorough = ctx.thorough
    _scratch()  # fix the scratch root in the parent before any fork
    ctx.extra["dpi_reader_selfcheck_cases"] = _selfcheck_readers()
    _discover_library_images()
    _determinism_probe()
    # ---- E2 -------------------------------------------------------------------------------------------
    cases, closed = _space(thorough)
    if len(cases) != closed:
        raise HarnessError("E2 generator size %d != closed form %d" % (len(cases), closed))
    nwh = len(_wh_list(thorough))
    fanout(ctx, _e2_worker_factory(thorough), ctx.rotate(cases))
    many = _many_space()
    fanout(ctx, _many_worker, ctx.rotate(many))
    rows, sweep_closed = _sweep_rows(thorough)
    fanout(ctx, _sweep_worker, ctx.rotate(rows), chunk_size=1 if not thorough else None)
    cursor = _cursor_space()
    if len(cursor) != _cursor_closed_form() or len(cursor) != 5 * 45 * 2 * 4:
        raise HarnessError("file-like generator size %d != closed form %d (documented: 1800)" % (
            len(cursor), _cursor_closed_form()))
    for fmt in FORMATS:
        _big_image(fmt)     # generated once, before the workers are forked
    fanout(ctx, _cursor_worker, ctx.rotate(cursor))
    corpus, corpus_decks, corpus_pairs = _corpus_space()
    fanout(ctx, _corpus_worker, ctx.rotate(corpus), chunk_size=2)
    want = closed * nwh + len(many) + sweep_closed + 2 * len(cursor) + 3 * len(corpus)
    if ctx.counters.get("evaluations", 0) != want:
        raise HarnessError("E2 evaluations %s != %d" % (ctx.counters.get("evaluations"), want))
    n_common = SWEEP_N_THOROUGH if thorough else SWEEP_N_QUICK
    common_axes = 2 * len(SWEEP_FORMATS) * len(DPI_SWEEP) * n_common
    integral = sum(x[3] for x in ctx.sets.get("sweep_integral_sizes", ()) if x[1] in DPI_SWEEP and x[2] == n_common)
    if integral * 2 < common_axes:
        raise HarnessError("vacuous sweep: only %d of %d sizes are a whole number of EMU" % (integral, common_axes))
    ctx.extra["space"] = {
        "formats": FORMATS, "sizes": len(SIZES_QUICK) + (len(SIZES_MORE) if thorough else 0),
        "dpi_requests": [_dpi_label(d) for d in DPI_QUICK + (DPI_MORE if thorough else [])],
        "hand_over": [v[0] for v in _name_variants("PNG", thorough)],
        "size_args": [list(x) for x in _wh_list(thorough)], "cases": closed, "evaluations": closed * nwh,
        "decks_with_N_images_then_a_new_one": {"N": MANY_N, "formats": FORMATS, "hand_over": ["path", "stream"],
                                               "deck": ["live", "re-opened"], "cases": len(many)},
        "native_size_px_sweep": {"formats": SWEEP_FORMATS, "dpi": DPI_SWEEP,
                                 "pixel_extents_per_axis": "1..%d" % (SWEEP_N_THOROUGH if thorough else SWEEP_N_QUICK),
                                 "every_integer_dpi": ("JPEG, dpi %d..%d x extents 1..%d" % (ALLDPI_RANGE + (ALLDPI_N,))
                                                       if thorough else "thorough tier only"),
                                 "rows": len(rows), "evaluations": sweep_closed,
                                 "sizes_that_are_a_whole_number_of_EMU": "%d of %d (rows of the dpi alphabet)" % (
                                     integral, common_axes)},
        "stream_cursor": {"formats": FORMATS, "file_like_and_admissible_cursors": {k: c for k, c in FILE_LIKES},
                          "content": {"small": "5x3 px", "big": {f: len(_big_image(f)) for f in FORMATS}},
                          "api": STREAM_APIS, "calls_per_case_with_the_same_object": 2, "cases": len(cursor)},
        "images_already_in_corpus_decks": {"decks": corpus_decks, "deck_image_pairs": corpus_pairs,
                                           "hand_over": ["stream", "path"], "deck": ["as opened", "re-opened first"],
                                           "additions_per_case": 3, "cases": len(corpus)}}
    # ---- E1 -------------------------------------------------------------------------------------------
    ctx.extra["alphabet"] = {"full": [_opsig([o]) for o in ALPHABET], "sub": [_opsig([o]) for o in SUB]}
    ctx.extra["initial_decks"] = {i: [m for m, _ in init_images(i)] for i in ALL_INITS}
    explorer.explore(ctx, System(INITS), 3, name="full-alphabet-depth3")
    explorer.explore(ctx, System([MANY_INIT]), 3 if thorough else 2, name="ten-image-deck")
    explorer.explore(ctx, System([HOLED_INIT]), 3 if thorough else 2, name="holed-image-deck")
    if thorough:
        explorer.explore(ctx, System(INITS, SUB), 4, name="sub-alphabet-depth4")
    never = [k for k in OPS if k not in ctx.outcomes]
    if never:
        raise HarnessError("operations never enabled: %s" % never)
    if len(ctx.outcomes.get("image_parts", ())) < 4:
        raise HarnessError("vacuous: fewer than 4 distinct image-part counts observed")


def replay(data):
    _scratch()
    if data.get("kind") == "e2":
        part = Partial()
        case = {k: data[k] for k in ("kind", "fmt", "size", "dpi", "name", "fname", "how")}
        e2_case(part, case, bool(data.get("thorough")))
        for sig, what, _ in part.violations:
            if sig == data["signature"]:
                return what
        return None
    if data.get("kind") == "e2n":
        part = Partial()
        e2_many_case(part, {k: data[k] for k in ("kind", "n", "fmt", "how", "reopen")})
        for sig, what, _ in part.violations:
            if sig == data["signature"]:
                return what
        return None
    for kind, fn, keys in (("nsweep", nsweep_row, ("kind", "fmt", "dpi", "n")),
                           ("e2s", e2s_case, ("kind", "fmt", "cursor", "stream", "api", "content")),
                           ("e2c", e2c_case, ("kind", "deck", "member", "via", "reopen"))):
        if data.get("kind") == kind:
            part = Partial()
            fn(part, {k: data[k] for k in keys if k in data})
            for sig, what, _ in part.violations:
                if sig == data["signature"]:
                    return what
            return None
    return explorer.replay_history(System(ALL_INITS), data)
